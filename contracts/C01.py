"""C01 (partial) -- neighbour search returns exactly the true neighbour set.

Mechanically extracted Cython (pyvc/cy2py.py).  Deductive part (all inputs,
reals for doubles, mathematical integers for C ints):

arith      nnps_base.pxd real_to_int = floor(v/s); get_valid_cell_index
           returns the flattened id iff the cell is inside the grid and the
           id is < n_cells, else -1; flattening is injective on valid cells
stencil    lemma: s>0, |a-b|<s  =>  |floor(a/s)-floor(b/s)| <= 1
cellsize   CPUDomainManager._compute_cell_size_for_binning: afterwards
           cell_size >= radius_scale*h[k] for every particle of every array
bounds     NNPS._compute_bounds: xmin <= x[k] and (x[k] < xmax or the axis
           is flat) for every particle of every array
ncells     LinkedListNNPS._get_number_of_cells + _get_flattened_cell_index:
           every particle's flattened cell id lies in [0, n_cells)
update     NNPS.update: bounds, _refresh, then _bin(i, 0..n_i-1) for every
           array, caches updated; arange_uint(n) = 0..n-1
list       C17's _refresh / _bin / (walk) contracts: heads/nexts are
           push-front lists of exactly the binned particles
query      LinkedListNNPS.find_nearest_neighbors: the 27 stencil cells
           (each offset of {-1,0,1}^3 once), every list walked from its head
           to UINT_MAX, a node is appended iff it passes the acceptance test
complete   glue (z3): any source particle passing the acceptance test lives
           in one of the 27 visited cells and that cell is valid
sound      for every CPU algorithm class: every index appended by
           find_nearest_neighbors passed the acceptance test on that index
context    NNPSBase.get_nearest_particles / get_nearest_particles_no_cache:
           the structures of (src_index, dst_index) are current when the
           query runs; NeighborCache bookkeeping
zrows      Z-order / stratified SFC neighbour-box rows (known finding)
oracle     BOUNDED stand-in (never counted as proved): the extensions are
           built from the working tree and all 12 classes are compared with
           the brute-force definition on a fixed list of distributions
"""
import ast
import json
import os
import z3

from pyvc import sym as S
from pyvc import native
from pyvc.repo import Repo
from pyvc.symexec import (Executor, State, Obligation, Native, LoopSpec,
                          SymArray, CalleeContract)
from pyvc.sym import SymObject, VCError
from contracts import C17

PXD = 'pysph/base/nnps_base.pxd'
NB = 'pysph/base/nnps_base.pyx'
LL = 'pysph/base/linked_list_nnps.pyx'
UINT_MAX = 4294967295

ASSUMPTIONS = [
    'C doubles are real numbers (no rounding, overflow, NaN); pairs at '
    'exactly the cut-off are therefore decided, the property leaves them open',
    'C ints are mathematical integers (the code guards n_cells <= 2**28)',
    'cyarray update_min_max: minimum/maximum are attained bounds of the '
    'data, 0/0 for an empty array (read from cyarray/carray.pyx); resize, '
    'c_append, c_reset, c_set_view as documented',
    'two particle arrays stand for "several" in the per-array loops that '
    'are unrolled (cell size, bounds, update)',
    'glue lemma (push-front lists built from empty lists hold exactly the '
    'binned particles of their cell, each once): lemmas/PushFront.lean, '
    'compiled by Lean 4 + Mathlib in the thorough tier only; the quick tier '
    'checks that it is stated without sorry',
    'single thread; std::sort / sort_gids permutes the appended segment',
    'C ints are mathematical EXCEPT in task cellkey, where the key functions '
    'of CellIndexingNNPS run on fixed-width integers with ISO C conversions '
    '(pyvc/cint.py, LP64 widths, types read from the .pxd); there: log2 of an '
    'exact integer is exact; the key must hold arrays of fewer than 2^31 '
    'particles on at most 2047 cells per axis (the envelope of the fits '
    'obligation, chosen here); a zero extent (1D/2D) makes _refresh convert '
    '1 + log2(0) = -inf to an unsigned int, which ISO C leaves undefined '
    '(0 on this platform, exercised by the bounded oracle) -- not examined',
    'task cache: find_nearest_neighbors only appends to the buffer it is '
    'given; threadid() is a value in [0, n_threads)',
    'task octroot: update_min_max gives attained bounds; _get_eps >= 0',
]
TRUSTED = ['z3 nonlinear arithmetic and quantifier instantiation']


def tasks(tier):
    t = ['arith', 'stencil', 'cellsize', 'bounds', 'ncells', 'sound', 'update', 'cache', 'cellkey', 'octroot', 'pidspace', 'sortkeys', 'eshreach', 'boxes27', 'sentinel', 'sortnbrs', 'shreach', 'pidslices', 'stalecount', 'nnpsinit', 'cidspace', 'context', 'query', 'complete', 'list', 'repoint', 'zrows', 'sortseg', 'sortflag',
            'lemma', 'oracle']
    return t + ['canary']


def run_task(task, ctx):
    repo = Repo()
    if task == 'canary':
        a = z3.Real('ca')
        ctx.canary('canary.must_fail', Obligation(
            'c', [a > 0], z3.ToInt(a) >= 1))
        ctx.results.append(dict(name='canary.pipeline', verdict='proved',
                                queries=0, backends={}, seconds=0,
                                failing=[], replay=None, info=''))
        return
    if task == 'lemma':
        from contracts import deps
        return deps.lean_lemma(ctx, 'PushFront.lean', [
            'repr_step', 'lists_content', 'lists_nodup', 'repr_build',
            'linked_list_represents_cells'],
            'lemma.push_front_lists_hold_exactly_the_binned_particles')
    return globals()['task_' + task](ctx, repo)


def z3only(obs, timeout_ms=None):
    for o in obs:
        o.extra = dict(o.extra or {}, backends=['z3'])
        if timeout_ms:
            o.extra['timeout_ms'] = timeout_ms
    return obs


# -------------------------------------------------------------------- arith
def task_arith(ctx, repo):
    m = repo.cython_module(PXD)
    W = m.path
    # real_to_int(v, s) = floor(v / s)
    fn = m.functions['real_to_int']
    v, s = z3.Real('v'), z3.Real('s')
    ex = Executor(repo, m, qualname='real_to_int')
    outs = ex.exec_function(fn, dict(real_val=v, step=s), State(pc=[s > 0]))
    ctx.function(m, fn, 'real_to_int', ex.dropped)
    obs = []
    for i, o in enumerate(outs):
        r = S.to_z3(o.value)
        q = z3.Real('q')
        # q = v/s is introduced by its defining equation (keeps z3 linear
        # in the unknown quotient)
        obs.append(Obligation('real_to_int.floor.%d' % i, o.pc + [
            q * s == v], z3.And(z3.IsInt(S.to_real(r)) if not z3.is_int(r)
                                else z3.BoolVal(True),
                                S.to_real(r) <= q, q < S.to_real(r) + 1), W))
    ctx.prove('arith.real_to_int_is_floor', z3only(obs), use_nf=False)

    # get_valid_cell_index
    fn = m.functions['get_valid_cell_index']
    cx, cy, cz = z3.Ints('cx cy cz')
    ncx, ncy, ncz, nc = z3.Ints('ncx ncy ncz n_cells')
    ex = Executor(repo, m, qualname='get_valid_cell_index', inline={'*'},
                  merge=False, prune=True)
    outs = ex.exec_function(fn, dict(cid_x=cx, cid_y=cy, cid_z=cz,
                                     ncells_per_dim=[ncx, ncy, ncz],
                                     dim=z3.Int('dim'), n_cells=nc),
                            State(pc=[]))
    ctx.function(m, fn, 'get_valid_cell_index', ex.dropped)
    ctx.function(m, m.functions['flatten_raw'], 'flatten_raw', set())
    flat = cx + ncx * cy + ncx * ncy * cz
    inside = z3.And(0 <= cx, cx < ncx, 0 <= cy, cy < ncy, 0 <= cz, cz < ncz)
    spec = z3.If(z3.And(inside, 0 <= flat, flat < nc), flat, -1)
    obs = [Obligation('valid_cell_index.spec.%d' % i, o.pc,
                      S.to_z3(o.value) == spec, W)
           for i, o in enumerate(outs)]
    ctx.prove('arith.get_valid_cell_index_spec', z3only(obs), use_nf=False,
              replay=replay_oracle(['longz', 'uniform'], dims=(3,),
                                   caches=[False]))

    # flattening is injective on cells inside the grid
    dx, dy, dz = z3.Ints('dx dy dz')
    flat2 = dx + ncx * dy + ncx * ncy * dz
    inside2 = z3.And(0 <= dx, dx < ncx, 0 <= dy, dy < ncy, 0 <= dz, dz < ncz)
    # helper products as fresh variables with their defining bounds
    obs = [Obligation('flatten.injective', [inside, inside2, flat == flat2],
                      z3.And(cx == dx, cy == dy, cz == dz), W)]
    ctx.prove('arith.flatten_injective_on_grid', z3only(obs, 60000),
              use_nf=False)


# ------------------------------------------------------------------ stencil
def task_stencil(ctx, repo):
    a, b, s, u, w = z3.Reals('a b s u w')
    fu, fw = z3.ToInt(u), z3.ToInt(w)
    obs = [Obligation('stencil.adjacent', [s > 0, a - b < s, b - a < s,
                                           u * s == a, w * s == b],
                      z3.And(fu - fw <= 1, fw - fu <= 1), 'lemma')]
    ctx.prove('stencil.cells_within_one', z3only(obs, 60000), use_nf=False)


# ----------------------------------------------------------------- cellsize
def minmax_native(ex, st, a, k, node):
    """cyarray update_min_max (carray.pyx): 0/0 when empty, else attained
    lower/upper bounds"""
    me = a[0]
    d = me.attrs['data']
    n = S.to_z3(d.length)
    mn = S.fresh(me.name + '_min', 'real')
    mx = S.fresh(me.name + '_max', 'real')
    kq = z3.Int('kq_' + me.name)
    i1 = S.fresh(me.name + '_imin', 'int')
    i2 = S.fresh(me.name + '_imax', 'int')
    st.pc.append(z3.Implies(n == 0, z3.And(mn == 0, mx == 0)))
    st.pc.append(z3.Implies(n > 0, z3.And(
        0 <= i1, i1 < n, 0 <= i2, i2 < n, z3.Select(d.arr, i1) == mn,
        z3.Select(d.arr, i2) == mx)))
    st.pc.append(z3.ForAll([kq], z3.Implies(z3.And(0 <= kq, kq < n), z3.And(
        mn <= z3.Select(d.arr, kq), z3.Select(d.arr, kq) <= mx))))
    me.attrs['minimum'] = mn
    me.attrs['maximum'] = mx
    return None


def dcarr(name, n):
    c = C17.carr(name, length=n, elem='real')
    c.attrs['update_min_max'] = Native(minmax_native, 'update_min_max',
                                       bind=True)
    return c


def wrappers(counts):
    out = []
    for i, n in enumerate(counts):
        w = SymObject(None, {}, 'paw%d' % i)
        for a in 'xyzh':
            w.attrs[a] = dcarr('%s%d' % (a, i), n)
        w.attrs['get_number_of_particles'] = Native(
            lambda e, s_, ar, kw, nd, n=n: n)
        out.append(w)
    return out


def task_cellsize(ctx, repo):
    m = repo.cython_module(NB)
    fn = m.methods('CPUDomainManager')['_compute_cell_size_for_binning']
    W = m.path
    n = [z3.Int('n0'), z3.Int('n1')]
    ws = wrappers(n)
    rs = z3.Real('radius_scale')
    obj = SymObject('CPUDomainManager', dict(
        pa_wrappers=ws, radius_scale=rs, dtype_max=z3.Real('dtype_max'),
        set_cell_size=Native(lambda e, s_, a, k, nd: s_.trace.append(
            ('set_cell_size', a[0])))), 'self')
    obj.module = m
    ex = Executor(repo, m, qualname='CPUDomainManager._compute_cell_size_'
                  'for_binning', merge=False, prune=True)
    outs = ex.exec_function(fn, dict(self=obj), State(pc=[
        rs > 0, n[0] >= 0, n[1] >= 0]))
    ctx.function(m, fn, 'CPUDomainManager._compute_cell_size_for_binning',
                 ex.dropped)
    obs = []
    for i, o in enumerate(outs):
        me = o.state.env['self']
        cs = S.to_real(me.attrs['cell_size'])
        k = z3.Int('k')
        gs = [cs > 0]
        for j in range(2):
            h = me.attrs['pa_wrappers'][j].attrs['h'].attrs['data'].arr
            gs.append(z3.ForAll([k], z3.Implies(z3.And(0 <= k, k < n[j]),
                                                cs >= rs * z3.Select(h, k))))
        sc = [t for t in o.state.trace if t[0] == 'set_cell_size']
        gs.append(z3.BoolVal(len(sc) == 1))
        if sc:
            gs.append(S.to_real(sc[0][1]) == cs)
        obs.append(Obligation('cellsize.covers_every_h.%d' % i, o.pc,
                              z3.And(*gs), W))
    ctx.prove('cellsize.at_least_every_support_radius', z3only(obs, 60000),
              use_nf=False, replay=replay_oracle(['single', 'hvar', 'hdiff']))


# ------------------------------------------------------------------- bounds
def bounds_post(lo, hi, x, n, raw_flat=None):
    """xmin <= x[k], and x[k] < xmax unless the axis is flat (xmin==xmax)"""
    k = z3.Int('k')
    return z3.ForAll([k], z3.Implies(z3.And(0 <= k, k < n), z3.And(
        lo <= z3.Select(x, k),
        z3.Or(z3.Select(x, k) < hi, z3.And(lo == hi,
                                           z3.Select(x, k) == lo)))))


def task_bounds(ctx, repo):
    m = repo.cython_module(NB)
    fn = m.methods('NNPS')['_compute_bounds']
    W = m.path
    n = [z3.Int('n0'), z3.Int('n1')]
    ws = wrappers(n)
    got = {}

    def set_data(which):
        def f(ex, st, a, k, nd):
            st.trace.append((which, a[0]))
        return Native(f)
    xmin = SymObject(None, dict(set_data=set_data('xmin')), 'xmin')
    xmax = SymObject(None, dict(set_data=set_data('xmax')), 'xmax')
    obj = SymObject('NNPS', dict(pa_wrappers=ws, xmin=xmin, xmax=xmax,
                                 _last_domain_size=z3.Real('last_size')),
                    'self')
    obj.module = m
    ex = Executor(repo, m, qualname='NNPS._compute_bounds', merge=True,
                  prune=True)
    ex.spec_env['np'] = SymObject(None, dict(asarray=Native(
        lambda e, s_, a, k, nd: a[0])), 'np')
    ex.spec_env['fmax'] = Native(lambda e, s_, a, k, nd: S.ite(
        S.cmp('>=', a[0], a[1]), a[0], a[1]))
    ex.spec_env['fmin'] = Native(lambda e, s_, a, k, nd: S.ite(
        S.cmp('<=', a[0], a[1]), a[0], a[1]))
    ex.spec_env['fabs'] = Native(lambda e, s_, a, k, nd: S.ite(
        S.cmp('>=', a[0], 0), a[0], S.neg(a[0])))
    big = z3.RealVal('1e100') if False else z3.RealVal(10) ** 100
    kq = z3.Int('kb')
    pre = [n[0] >= 0, n[1] >= 0, n[0] + n[1] >= 1]
    for w in ws:
        for a in 'xyz':
            arr = w.attrs[a].attrs['data'].arr
            nn = w.attrs[a].attrs['data'].length
            pre.append(z3.ForAll([kq], z3.Implies(
                z3.And(0 <= kq, kq < nn), z3.And(
                    z3.Select(arr, kq) > -big, z3.Select(arr, kq) < big))))
    outs = ex.exec_function(fn, dict(self=obj), State(pc=pre))
    ctx.function(m, fn, 'NNPS._compute_bounds', ex.dropped)
    obs = []
    for i, o in enumerate(outs):
        me = o.state.env['self']
        lo = [t[1] for t in o.state.trace if t[0] == 'xmin']
        hi = [t[1] for t in o.state.trace if t[0] == 'xmax']
        if len(lo) != 1 or len(hi) != 1:
            obs.append(Obligation('bounds.stored_once.%d' % i, o.pc,
                                  z3.BoolVal(False), W))
            continue
        lo, hi = lo[0], hi[0]
        gs = []
        for j in range(2):
            # an empty array contributes min = max = 0 (cyarray), which only
            # widens the box
            for ai, a in enumerate('xyz'):
                arr = me.attrs['pa_wrappers'][j].attrs[a].attrs['data'].arr
                gs.append(bounds_post(S.to_real(lo[ai]), S.to_real(hi[ai]),
                                      arr, n[j]))
        obs.append(Obligation('bounds.box_contains_all.%d' % i, o.pc,
                              z3.And(*gs), W))
    ctx.prove('bounds.every_particle_inside_half_open_box',
              z3only(obs, 120000), use_nf=False,
              replay=replay_oracle(['single', 'line', 'far']))


# ------------------------------------------------------------------- ncells
def ll_obj(m, **attrs):
    o = SymObject('LinkedListNNPS', dict(attrs), 'self')
    o.module = m
    return o


def task_ncells(ctx, repo):
    m = repo.cython_module(LL)
    pxd = repo.cython_module(PXD)
    nb = repo.cython_module(NB)
    fn = m.methods('LinkedListNNPS')['_get_number_of_cells']
    W = m.path
    lo = [z3.Real('lo%d' % i) for i in range(3)]
    hi = [z3.Real('hi%d' % i) for i in range(3)]
    cs = z3.Real('cell_size')
    obs = []
    for dim in (1, 2, 3):
        xmin = C17.carr('xmin', length=z3.IntVal(3), elem='real')
        xmax = C17.carr('xmax', length=z3.IntVal(3), elem='real')
        ncd = C17.carr('ncells_per_dim', length=z3.IntVal(3))
        pre = [cs > 0]
        for i in range(3):
            pre.append(z3.Select(xmin.attrs['data'].arr, i) == lo[i])
            pre.append(z3.Select(xmax.attrs['data'].arr, i) == hi[i])
            pre.append(lo[i] <= hi[i])
        obj = ll_obj(m, cell_size=cs, xmin=xmin, xmax=xmax, dim=dim,
                     ncells_per_dim=ncd)
        ex = Executor(repo, m, qualname='LinkedListNNPS._get_number_of_'
                      'cells', merge=True, prune=True)
        outs = ex.exec_function(fn, dict(self=obj), State(pc=pre))
        if dim == 1:
            ctx.function(m, fn, 'LinkedListNNPS._get_number_of_cells',
                         ex.dropped)
        rets = [o for o in outs if o.kind == 'return']
        # a point p of the half-open box (bounds contract) ...
        p = [z3.Real('p%d' % i) for i in range(3)]
        q = [z3.Real('q%d' % i) for i in range(3)]
        box = []
        for i in range(3):
            box += [lo[i] <= p[i], z3.Or(p[i] < hi[i], z3.And(
                lo[i] == hi[i], p[i] == lo[i])), q[i] * cs == p[i] - lo[i]]
        for oi, o in enumerate(rets):
            me = o.state.env['self']
            A = me.attrs['ncells_per_dim'].attrs['data'].arr
            nc = [z3.Select(A, i) for i in range(3)]
            c = [z3.ToInt(q[i]) for i in range(3)]
            flat = c[0] + nc[0] * c[1] + nc[0] * nc[1] * c[2]
            ncell = S.to_z3(o.value)
            # ... has each cell coordinate inside the grid ...
            obs.append(Obligation('ncells.dim%d.coords_inside_grid.%d' % (
                dim, oi), o.pc + box, z3.And(*[z3.And(0 <= c[i], c[i] < nc[i])
                                               for i in range(3)]), W))
            # ... and its flattened id below the number of cells for which
            # head[] is allocated (ghost vars for the products)
            inside = [z3.And(0 <= c[i], c[i] < nc[i], nc[i] >= 1)
                      for i in range(3)]
            obs.append(Obligation('ncells.dim%d.flat_id_below_n_cells.%d' % (
                dim, oi), o.pc + box + inside, z3.And(0 <= flat,
                                                      flat < ncell), W,
                extra=dict(dim=dim)))
    # _get_flattened_cell_index(pnt, cs) = flatten(floor(pnt/cs))
    fn2 = m.methods('LinkedListNNPS')['_get_flattened_cell_index']
    ncd = C17.carr('ncells_per_dim', length=z3.IntVal(3))
    pnt = SymObject(None, dict(x=z3.Real('px'), y=z3.Real('py'),
                               z=z3.Real('pz')), 'pnt')
    obj = ll_obj(m, ncells_per_dim=ncd, dim=z3.Int('dim'))
    ex = Executor(repo, m, qualname='LinkedListNNPS._get_flattened_cell_'
                  'index', inline={'*'}, merge=True)
    ex.spec_env['cIntPoint'] = Native(lambda e, s_, a, k, nd: SymObject(
        None, dict(x=a[0], y=a[1], z=a[2]), 'cid'))
    for nme in ('find_cell_id',):
        ex.spec_env[nme] = None
    from pyvc.symexec import _FuncRef
    ex.spec_env['find_cell_id'] = _FuncRef(nb, nb.functions['find_cell_id'])
    ex.spec_env['flatten'] = _FuncRef(pxd, pxd.functions['flatten'])
    ex.spec_env['flatten_raw'] = _FuncRef(pxd, pxd.functions['flatten_raw'])
    ex.spec_env['real_to_int'] = _FuncRef(pxd, pxd.functions['real_to_int'])
    outs = ex.exec_function(fn2, dict(self=obj, pnt=pnt, cell_size=cs),
                            State(pc=[cs > 0]))
    ctx.function(m, fn2, 'LinkedListNNPS._get_flattened_cell_index',
                 ex.dropped)
    ctx.function(nb, nb.functions['find_cell_id'], 'find_cell_id', set())
    A = ncd.attrs['data'].arr
    for oi, o in enumerate(outs):
        q = [z3.Real('q%d' % i) for i in range(3)]
        P = [pnt.attrs[a] for a in 'xyz']
        hyp = [q[i] * cs == P[i] for i in range(3)]
        c = [z3.ToInt(q[i]) for i in range(3)]
        flat = c[0] + z3.Select(A, 0) * c[1] + \
            z3.Select(A, 0) * z3.Select(A, 1) * c[2]
        obs.append(Obligation('flattened_cell_index.spec.%d' % oi,
                              o.pc + hyp, S.to_z3(o.value) == flat, W))
    ctx.prove('ncells.every_particle_cell_is_allocated', z3only(obs, 60000),
              use_nf=False, replay=replay_oracle(['single', 'coincident',
                                                  'line']))


# ------------------------------------------------------------------- oracle
ORACLE = r'''
import json, sys
d = json.load(sys.stdin)
if d.get('built'): sys.path.insert(0, d['built'])
import numpy as np
from pysph.base.utils import get_particle_array
from pysph.base import nnps
from cyarray.api import UIntArray
ALGS = ['LinkedListNNPS', 'BoxSortNNPS', 'DictBoxSortNNPS', 'SpatialHashNNPS',
        'ExtendedSpatialHashNNPS', 'ZOrderNNPS', 'ExtendedZOrderNNPS',
        'CellIndexingNNPS', 'OctreeNNPS', 'CompressedOctreeNNPS',
        'StratifiedHashNNPS', 'StratifiedSFCNNPS']
RS = 2.0

def pa(name, x, y=None, z=None, h=0.1):
    x = np.asarray(x, float); n = len(x)
    y = np.zeros(n) if y is None else np.asarray(y, float)
    z = np.zeros(n) if z is None else np.asarray(z, float)
    h = np.full(n, h) if np.isscalar(h) else np.asarray(h, float)
    return get_particle_array(name=name, x=x, y=y, z=z, h=h)

def cloud(rng, n, dim, lo=0.0, hi=1.0, h=0.1, name='a'):
    c = [rng.uniform(lo, hi, n) if k < dim else np.zeros(n) for k in range(3)]
    return pa(name, c[0], c[1], c[2], h)

def scenarios(dim, which):
    rng = np.random.RandomState(7 + dim)
    S = {}
    S['single'] = lambda: [pa('a', [0.3])]
    S['coincident'] = lambda: [pa('a', [0.3]*4)]
    S['line'] = lambda: [pa('a', np.arange(8)*0.05)]
    S['uniform'] = lambda: [cloud(rng, 60, dim)]
    S['two'] = lambda: [cloud(rng, 50, dim, name='a'), cloud(rng, 9, dim, 0.3, 0.6, name='b')]
    S['sparse_src'] = lambda: [cloud(rng, 40, dim, name='a'), pa('b', [0.5], [0.5 if dim > 1 else 0], [0.5 if dim > 2 else 0])]
    S['empty'] = lambda: [cloud(rng, 20, dim, name='a'), pa('b', [])]
    S['far'] = lambda: [cloud(rng, 30, dim, 1000.0, 1001.0)]
    S['hvar'] = lambda: [cloud(rng, 40, dim, h=rng.uniform(0.02, 0.3, 40))]
    def ghosts():
        a = cloud(rng, 40, dim, name='a'); b = cloud(rng, 12, dim, 0.2, 0.7, name='b')
        a.tag[::3] = 2; b.tag[::4] = 1
        a.align_particles(); b.align_particles()
        return [a, b]
    S['ghosts'] = ghosts
    S['hdiff'] = lambda: [cloud(rng, 40, dim, h=0.12, name='a'), cloud(rng, 25, dim, 0.2, 0.8, h=0.03, name='b')]
    S['faces'] = lambda: [pa('a', *[(np.array(np.meshgrid(*[np.arange(4)*0.2]*3)).reshape(3, -1)[k] if k < dim else np.zeros(64)) for k in range(3)], h=0.1)]
    S['longz'] = lambda: [pa('a', rng.uniform(0, 0.5, 80), (rng.uniform(0, 0.5, 80) if dim > 1 else None), (rng.uniform(0, 2.0, 80) if dim > 2 else None), 0.06)]
    S['clustered'] = lambda: [pa('a', np.r_[rng.normal(0.2, 0.01, 30), rng.uniform(0, 3, 10)], (np.r_[rng.normal(0.2, 0.01, 30), rng.uniform(0, 3, 10)] if dim > 1 else None), None, 0.05)]
    return [(k, S[k]) for k in which if k in S]

def brute(src, dst, i):
    # all particles count, ghost / remote ones included
    S_ = {k: src.get(k, only_real_particles=False) for k in 'xyzh'}
    D_ = {k: dst.get(k, only_real_particles=False) for k in 'xyzh'}
    d2 = (S_['x']-D_['x'][i])**2 + (S_['y']-D_['y'][i])**2 + (S_['z']-D_['z'][i])**2
    c = np.maximum((RS*D_['h'][i])**2, (RS*S_['h'])**2)
    inside = set(np.where(d2 < c)[0].tolist())
    tie = set(np.where(np.abs(d2 - c) <= 1e-9*c)[0].tolist())
    return inside, tie

def check(nn, pas):
    """first failure among same-array pairs and first among cross pairs"""
    nb = UIntArray()
    out = {}
    for d, dst in enumerate(pas):
        for s, src in enumerate(pas):
            kind = 'same' if s == d else 'cross'
            if kind in out:
                continue
            for i in range(dst.get_number_of_particles()):
                nn.get_nearest_particles(s, d, i, nb)
                got = nb.get_npy_array().tolist()
                exp, tie = brute(src, dst, i)
                ns = src.get_number_of_particles()
                bad = None
                if len(got) != len(set(got)):
                    bad = dict(problem='duplicate neighbours', src=s, dst=d, i=i)
                elif any(j >= ns for j in got):
                    bad = dict(problem='invalid index', src=s, dst=d, i=i)
                elif (set(got) ^ exp) - tie:
                    bad = dict(problem='wrong neighbour set', src=s, dst=d, i=i,
                               missing=sorted(exp - set(got))[:5], extra=sorted(set(got) - exp)[:5])
                if bad:
                    out[kind] = bad
                    break
    return out

def move(pas, rng):
    for p in pas:
        n = p.get_number_of_particles()
        if n:
            xa = p.get('x', only_real_particles=False)
            ha = p.get('h', only_real_particles=False)
            xa[:] = xa + rng.uniform(-0.05, 0.05, n)
            ha[:] = ha * rng.uniform(0.9, 1.2, n)

KNOBS = {
    'SpatialHashNNPS': [('table4', dict(table_size=4))],
    'ExtendedSpatialHashNNPS': [('H2_table4', dict(H=2, table_size=4)), ('H1', dict(H=1))],
    'StratifiedHashNNPS': [('levels2_table4', dict(num_levels=2, table_size=4)), ('H2_levels3', dict(H=2, num_levels=3))],
    'StratifiedSFCNNPS': [('levels2', dict(num_levels=2))],
    'ZOrderNNPS': [('asym', dict(asymmetric=True))],
    'ExtendedZOrderNNPS': [('H2', dict(H=2)), ('asym', dict(asymmetric=True))],
    'OctreeNNPS': [('leaf1', dict(leaf_max_particles=1)), ('leaf4', dict(leaf_max_particles=4))],
    'CompressedOctreeNNPS': [('leaf1', dict(leaf_max_particles=1))],
}
algs = d.get('algs') or ALGS
skip = set(d.get('skip', []))
for dim in d.get('dims', [1, 2, 3]):
    for name, mk in scenarios(dim, d['which']):
        for alg in algs:
            variants = [('', {})]
            if d.get('knobs') and name in d.get('knob_scenarios', ['two', 'hvar', 'clustered']):
                variants += [('sort_gids', dict(sort_gids=True))] + KNOBS.get(alg, [])
            for vname, kw in variants:
              for cache in d.get('caches', [False, True]):
                key = '%s.%s%s.dim%d.%s' % (alg, name, ('+' + vname) if vname else '', dim, 'cache' if cache else 'nocache')
                if key in skip:
                    continue
                print('START ' + key, flush=True)
                try:
                    pas = mk()
                    nn = getattr(nnps, alg)(dim=dim, particles=pas, radius_scale=RS, cache=cache, **kw)
                    bad = check(nn, pas)
                    if d.get('history'):
                        rng = np.random.RandomState(11)
                        for rep in range(2):
                            move(pas, rng)
                            nn.update_domain(); nn.update()
                            for kind, b in check(nn, pas).items():
                                if kind not in bad:
                                    b['after_update'] = rep + 1
                                    bad[kind] = b
                except Exception as e:
                    bad = dict(exception=dict(problem='exception %s: %s' % (type(e).__name__, str(e)[:200])))
                for kind, b in bad.items():
                    b['case'] = key + '.' + kind
                    print('BAD ' + json.dumps(b), flush=True)
                print('DONE ' + key, flush=True)
print('FINISHED', flush=True)
'''



def _oracle_proc(tree, tmp, payload):
    """one subprocess; a crash (segfault) of the extension is reported as a
    failing case and the remaining cases are run in a fresh process"""
    import subprocess
    env = dict(os.environ)
    env.pop('PYTHONPATH', None)
    bad, ran, skip = [], 0, []
    for attempt in range(40):
        pl = dict(payload, built=tree, skip=skip)
        p = subprocess.run(['/venv/bin/python', '-c', ORACLE],
                           input=json.dumps(pl), text=True,
                           capture_output=True, timeout=3000, cwd=tmp,
                           env=env)
        last = None
        fin = False
        for l in p.stdout.split('\n'):
            if l.startswith('START '):
                last = l[6:].strip()
            elif l.startswith('DONE '):
                skip.append(l[5:].strip())
                ran += 1
                last = None
            elif l.startswith('BAD '):
                bad.append(json.loads(l[4:]))
            elif l.startswith('FINISHED'):
                fin = True
        if fin:
            return bad, ran
        if last is None:
            return bad + [dict(case='?', problem='oracle process failed: %s'
                               % p.stderr[-300:])], ran
        bad.append(dict(case=last + '.crash', problem='process died '
                        '(return code %s)' % p.returncode))
        skip.append(last)
        ran += 1
    return bad, ran


def run_oracle(which, algs=None, dims=(1, 2, 3), **kw):
    """build once, then one process per (algorithm, dim) in parallel"""
    from concurrent.futures import ThreadPoolExecutor
    tree, err = native.shared_build()
    if tree is None:
        return None, err
    algs = list(algs or ALL_ALGS)
    jobs = [dict(which=list(which), algs=[a], dims=[dm], **kw)
            for a in algs for dm in dims]
    with ThreadPoolExecutor(max_workers=14) as pool:
        res = list(pool.map(lambda j: _oracle_proc(tree, '/tmp', j), jobs))
    bad = [b for r in res for b in r[0]]
    return bad, 'cases=%d' % sum(r[1] for r in res)


ALL_ALGS = ['LinkedListNNPS', 'BoxSortNNPS', 'DictBoxSortNNPS',
            'SpatialHashNNPS', 'ExtendedSpatialHashNNPS', 'ZOrderNNPS',
            'ExtendedZOrderNNPS', 'CellIndexingNNPS', 'OctreeNNPS',
            'CompressedOctreeNNPS', 'StratifiedHashNNPS',
            'StratifiedSFCNNPS']


def replay_oracle(which, algs=('LinkedListNNPS',), **kw):
    def rp(model, ob):
        if os.environ.get('PYVC_NO_BUILD_REPLAY'):
            return dict(reproduced=False, note='build replay disabled')
        try:
            bad, err = run_oracle(list(which), algs=list(algs), **kw)
        except Exception as e:
            return dict(reproduced=False, note=str(e)[-300:])
        if bad is None:
            return dict(reproduced=False, note=err)
        if bad:
            return dict(reproduced=True, how='extensions built from the '
                        'working tree, compared with the brute-force '
                        'definition', failing=bad[:6])
        return dict(reproduced=False)
    return rp


# -------------------------------------------------------------------- sound
SOUND_SITES = [
    # (file, class, function, classes served by it)
    ('pysph/base/linked_list_nnps.pyx', 'LinkedListNNPS',
     'find_nearest_neighbors', ['LinkedListNNPS', 'BoxSortNNPS']),
    ('pysph/base/box_sort_nnps.pyx', 'DictBoxSortNNPS',
     'get_nearest_particles_no_cache', ['DictBoxSortNNPS']),
    ('pysph/base/spatial_hash_nnps.pyx', 'SpatialHashNNPS',
     'find_nearest_neighbors', ['SpatialHashNNPS']),
    ('pysph/base/spatial_hash_nnps.pyx', 'ExtendedSpatialHashNNPS',
     'find_nearest_neighbors', ['ExtendedSpatialHashNNPS']),
    ('pysph/base/cell_indexing_nnps.pyx', 'CellIndexingNNPS',
     'find_nearest_neighbors', ['CellIndexingNNPS']),
    ('pysph/base/octree_nnps.pyx', 'OctreeNNPS', '_get_neighbors',
     ['OctreeNNPS', 'CompressedOctreeNNPS']),
    ('pysph/base/stratified_hash_nnps.pyx', 'StratifiedHashNNPS',
     'find_nearest_neighbors', ['StratifiedHashNNPS']),
    ('pysph/base/stratified_sfc_nnps.pyx', 'StratifiedSFCNNPS',
     'find_nearest_neighbors', ['StratifiedSFCNNPS']),
    ('pysph/base/z_order_nnps.pyx', 'ZOrderNNPS', 'find_nearest_neighbors',
     ['ZOrderNNPS', 'ExtendedZOrderNNPS']),
]
APPEND_NAMES = ('c_append', 'append')


def append_sites(fn):
    """syntactic sites where an index is put into nbrs"""
    out = []
    for n in ast.walk(fn):
        if isinstance(n, ast.Call) and isinstance(n.func, ast.Attribute) \
                and n.func.attr in APPEND_NAMES and \
                isinstance(n.func.value, ast.Name) and \
                n.func.value.id == 'nbrs':
            out.append(n.lineno)
        if isinstance(n, ast.Assign):
            for t in n.targets:
                if isinstance(t, ast.Subscript) and \
                        isinstance(t.value, ast.Attribute) and \
                        isinstance(t.value.value, ast.Name) and \
                        t.value.value.id == 'nbrs' and \
                        t.value.attr == 'data':
                    out.append(n.lineno)
    return sorted(out)


def index_names(fn):
    """names used inside a subscript (they hold indices)"""
    out = set()
    for n in ast.walk(fn):
        if isinstance(n, ast.Subscript):
            for e in ast.walk(n.slice):
                if isinstance(e, ast.Name):
                    out.add(e.id)
        if isinstance(n, ast.Call) and isinstance(n.func, ast.Attribute) \
                and n.func.attr in APPEND_NAMES:
            for a in n.args:
                for e in ast.walk(a):
                    if isinstance(e, ast.Name):
                        out.add(e.id)
    return out


def radius_scale2_invariant(m, cls):
    """every store to self.radius_scale2 in the class (and its bases in the
    same file) is `radius_scale * radius_scale`"""
    stores = []
    for c in m.classes:
        for fn in m.methods(c).values():
            for n in ast.walk(fn):
                if isinstance(n, ast.Assign):
                    for t in n.targets:
                        if isinstance(t, ast.Attribute) and \
                                t.attr == 'radius_scale2':
                            stores.append(ast.unparse(n.value).replace(' ',
                                                                       ''))
    ok = all(s in ('radius_scale*radius_scale',
                   'self.radius_scale*self.radius_scale') for s in stores)
    return ok, stores


class NbrsModel(object):
    """UIntArray receiving the neighbours: every append / raw store is an
    event in the trace"""

    def __init__(self, events=None):
        self.reads = 0
        # a shared log: the abstracting executor drops the end states of
        # loop bodies, the events must survive them
        self.events = events if events is not None else []

    def vc_getattr(self, a, ex, st, node):
        if a in APPEND_NAMES:
            return Native(lambda e, s_, ar, kw, nd: self.events.append(
                ('append', ar[0], list(s_.pc), nd.lineno)))
        if a == 'length':
            self.reads += 1
            return z3.Int('nbrs_length_read_%d' % self.reads)
        if a in ('reset', 'c_reset'):
            return Native(lambda e, s_, ar, kw, nd: s_.trace.append(
                ('reset',)))
        if a == 'data':
            return NbrsData(self.events)
        raise VCError('nbrs.' + a)

    def vc_setattr(self, a, v, ex, st, node):
        st.trace.append(('set_' + a, v))

    def vc_clone(self, memo, _c=None):
        return self


class NbrsData(object):
    def __init__(self, events):
        self.events = events

    def vc_setitem(self, idx, v, ex, st, node):
        self.events.append(('append', v, list(st.pc), node.lineno))

    def vc_getitem(self, idx, ex, st, node):
        return ('nbrs.data', idx)

    def vc_clone(self, memo, _c=None):
        return self


def task_sound(ctx, repo):
    from pyvc.abstract import AbstractExecutor
    from pyvc.symexec import _FuncRef
    pxd = repo.cython_module(PXD)
    served = []
    for rel, cls, fname, classes in SOUND_SITES:
        m = repo.cython_module(rel)
        name = 'sound.%s.%s' % (cls, fname)
        if cls not in m.classes or fname not in m.methods(cls):
            ctx.prove(name, [Obligation(name + '.present', [],
                                        z3.BoolVal(False), m.path)])
            continue
        fn = m.methods(cls)[fname]
        W = m.path
        # classes served must not override the function
        ovr = []
        for c in classes:
            if c == cls:
                continue
            for rel2 in set(r_[0] for r_ in SOUND_SITES):
                m2 = repo.cython_module(rel2)
                if c in m2.classes and any(
                        k in m2.methods(c) for k in (
                            'find_nearest_neighbors', fname)):
                    ovr.append(c)
        n = [z3.Int('n0'), z3.Int('n1')]
        ws = wrappers(n)
        for w in ws:
            w.attrs['gid'] = C17.carr('gid', length=w.attrs['x'].attrs[
                'length'])
        rs = z3.Real('radius_scale')
        rs2 = z3.Real('radius_scale2')
        ok_inv, stores = radius_scale2_invariant(m, cls)
        d_idx = z3.Int('d_idx')
        src, dst = ws[1], ws[0]
        obj = SymObject(cls, dict(
            src=src, dst=dst, pa_wrappers=ws, radius_scale=rs,
            radius_scale2=rs2, sort_gids=False,
            xmin=C17.carr('xmin', length=z3.IntVal(3), elem='real'),
            cell_size=z3.Real('cell_size'), dim=z3.Int('dim'),
            n_cells=z3.Int('n_cells'), src_index=1, dst_index=0,
            head=C17.carr('head'), next=C17.carr('next'),
            cell_shifts=C17.carr('cell_shifts', length=z3.IntVal(3)),
            ncells_per_dim=C17.carr('ncells_per_dim', length=z3.IntVal(3)),
        ), 'self')
        obj.module = m
        nbrs = NbrsModel()
        ex = AbstractExecutor(repo, m, qualname='%s.%s' % (cls, fname),
                              int_names=index_names(fn),
                              protected={'src_x_ptr', 'src_y_ptr',
                                         'src_z_ptr', 'src_h_ptr', 's_x',
                                         's_y', 's_z', 's_h', 'dst_x_ptr',
                                         'dst_y_ptr', 'dst_z_ptr',
                                         'dst_h_ptr', 'd_x', 'd_y', 'd_z',
                                         'd_h'}, inline={'*'})
        ex.spec_env['UINT_MAX'] = UINT_MAX
        ex.spec_env['norm2'] = _FuncRef(pxd, pxd.functions['norm2'])
        # C struct constructor (point.pxd): three doubles
        ex.spec_env['cPoint_new'] = Native(lambda e, s_, a, k, nd: SymObject(
            None, dict(x=a[0], y=a[1], z=a[2]), 'pnt'))
        args = dict(self=obj, nbrs=nbrs)
        sx, sy, sz, sh = [src.attrs[a].attrs['data'] for a in 'xyzh']
        if fname == '_get_neighbors':
            q = [z3.Real('q_' + a) for a in 'xyzh']
            args.update(q_x=q[0], q_y=q[1], q_z=q[2], q_h=q[3],
                        src_x_ptr=sx, src_y_ptr=sy, src_z_ptr=sz,
                        src_h_ptr=sh, node=_unknown_obj('node'))
            X, Y, Z, H = q
        else:
            args['d_idx'] = d_idx
            dd = [dst.attrs[a].attrs['data'].arr for a in 'xyzh']
            X, Y, Z, H = [z3.Select(a_, d_idx) for a_ in dd]
            if fname == 'get_nearest_particles_no_cache':
                args.update(src_index=1, dst_index=0,
                            prealloc=z3.Bool('prealloc'))
        try:
            outs = ex.exec_function(fn, args, State(pc=[rs2 == rs * rs]))
        except VCError as e:
            ctx.outside(name, str(e))
            continue
        ctx.function(m, fn, '%s.%s' % (cls, fname),
                     set(ex.dropped) | set('abstracted: ' + a_ for a_ in
                                           ex.abstracted[:40]))
        sites = append_sites(fn)
        seen = set()
        obs = [Obligation(name + '.radius_scale2_is_square', [], z3.BoolVal(
            bool(ok_inv)), W, extra=dict(stores=stores)),
            Obligation(name + '.not_overridden', [], z3.BoolVal(not ovr), W,
                       extra=dict(overridden_in=ovr))]
        k_ = 0
        for o in [None]:
            for ev in nbrs.events:
                if ev[0] != 'append':
                    continue
                idx, pc, line = ev[1], ev[2], ev[3]
                seen.add(line)
                if not S.is_sym(idx) and not isinstance(idx, int):
                    obs.append(Obligation('%s.append.%d' % (name, k_), pc,
                                          z3.BoolVal(False), W))
                    k_ += 1
                    continue
                j = S.to_z3(idx)
                d2 = (z3.Select(sx.arr, j) - X) * (z3.Select(sx.arr, j) - X) \
                    + (z3.Select(sy.arr, j) - Y) * (z3.Select(sy.arr, j) - Y)\
                    + (z3.Select(sz.arr, j) - Z) * (z3.Select(sz.arr, j) - Z)
                hi2 = (rs * H) * (rs * H)
                hj2 = (rs * z3.Select(sh.arr, j)) * (rs * z3.Select(sh.arr,
                                                                    j))
                # the property leaves pairs at exactly the cut-off open, so
                # "no particle farther than the cut-off" is <=
                obs.append(Obligation('%s.append@%d.%d' % (name, line, k_),
                                      pc, z3.Or(d2 <= hi2, d2 <= hj2), W))
                k_ += 1
        # every syntactic append site was reached by some abstract path
        obs.append(Obligation(name + '.every_append_site_covered', [],
                              z3.BoolVal(set(sites) <= seen and
                                         len(sites) > 0), W,
                              extra=dict(sites=sites, reached=sorted(seen))))
        # dedupe identical obligations (paths differing only in abstracted
        # branches)
        ctx.prove(name, z3only(obs, 60000), use_nf=False,
                  replay=replay_oracle(['uniform', 'two', 'hvar'],
                                       algs=classes))
        served += classes
    missing = [a for a in ALL_ALGS if a not in served]
    ctx.prove('sound.all_twelve_classes_covered', [Obligation(
        'sound.coverage', [], z3.BoolVal(not missing), 'contracts/C01.py',
        extra=dict(missing=missing))])
    # the octree driver hands the destination particle and the source
    # arrays to _get_neighbors
    m = repo.cython_module('pysph/base/octree_nnps.pyx')
    fn = m.methods('OctreeNNPS')['find_nearest_neighbors']
    n = [z3.Int('n0'), z3.Int('n1')]
    ws = wrappers(n)
    for w in ws:
        w.attrs['gid'] = C17.carr('gid')
    obj = SymObject('OctreeNNPS', dict(src=ws[1], dst=ws[0],
                                       sort_gids=False,
                                       current_tree=_unknown_obj('tree')),
                    'self')
    obj.module = m
    ex = Executor(repo, m, qualname='OctreeNNPS.find_nearest_neighbors',
                  contracts={'OctreeNNPS._get_neighbors': CalleeContract(
                      lambda e, s_, a, k, nd: s_.trace.append(('call', a)))})
    d_idx = z3.Int('d_idx')
    outs = ex.exec_function(fn, dict(self=obj, d_idx=d_idx,
                                     nbrs=NbrsModel()), State(pc=[]))
    ctx.function(m, fn, 'OctreeNNPS.find_nearest_neighbors', ex.dropped)
    obs = []
    for i, o in enumerate(outs):
        calls = [t for t in o.state.trace if t[0] == 'call']
        ok = len(calls) == 1
        g = [z3.BoolVal(ok)]
        if ok:
            a = calls[0][1]
            for k_, c in enumerate('xyzh'):
                g.append(S.to_z3(a[1 + k_]) == z3.Select(
                    ws[0].attrs[c].attrs['data'].arr, d_idx))
                g.append(z3.BoolVal(a[5 + k_] is o.state.env['self'].attrs[
                    'src'].attrs[c].attrs['data'] or getattr(
                        a[5 + k_], 'name', None) == ws[1].attrs[c].attrs[
                            'data'].name))
        obs.append(Obligation('octree.driver.%d' % i, o.pc, z3.And(*g),
                              m.path))
    ctx.prove('sound.octree_driver_passes_query_and_source_arrays',
              z3only(obs), use_nf=False)


def _unknown_obj(name):
    class U(object):
        def vc_getattr(self, a, ex, st, node):
            raise VCError('unknown attribute %s.%s' % (name, a))

        def vc_clone(self, memo, _c=None):
            return self
    return U()


# ------------------------------------------------------------------- update
def task_update(ctx, repo):
    m = repo.cython_module(NB)
    W = m.path
    # arange_uint(n) = [0, 1, ..., n-1]
    fn = m.functions['arange_uint']
    nn = z3.Int('n')
    made = []

    def mk_uint(ex, st, a, k, nd):
        c = C17.carr('arange', length=S.to_z3(a[0]) if a else z3.IntVal(0))
        made.append(c)
        return c

    def inv(ex, st):
        k = z3.Int('k')
        i = S.to_z3(st.env['i'])
        arr = st.env['arange'].attrs['data'].arr
        return z3.And(i >= 0, z3.ForAll([k], z3.Implies(
            z3.And(0 <= k, k < i), z3.Select(arr, k) == k)))
    loops = C17.loops_in(fn)
    spec = LoopSpec(inv=[('prefix', inv)])
    ex = Executor(repo, m, qualname='arange_uint', merge=False,
                  loop_specs={('arange_uint', 0): spec,
                              ('arange_uint', 1): LoopSpec(inv=[])})
    ex.spec_env['UIntArray'] = Native(mk_uint)
    outs = ex.exec_function(fn, dict(start=nn, stop=-1), State(pc=[nn >= 0]))
    ctx.function(m, fn, 'arange_uint', ex.dropped)
    obs = [o for o in ex.obligations if o.kind in ('inv-entry', 'inv-step',
                                                   'index')]
    for i_, o in enumerate(outs):
        r = o.value
        k = z3.Int('k')
        obs.append(Obligation('arange.post.%d' % i_, o.pc, z3.And(
            S.to_z3(r.attrs['data'].length) == nn,
            z3.ForAll([k], z3.Implies(z3.And(0 <= k, k < nn), z3.Select(
                r.attrs['data'].arr, k) == k))), W))
    obs += C17.range_obs(ex, fn, 0, spec.logs[-1]['entry'], nn,
                         'arange.range', W)
    ctx.prove('update.arange_uint_is_identity', z3only(obs), use_nf=False)

    # NNPS.update: bounds, refresh, then every array binned with 0..n-1
    fn = m.methods('NNPS')['update']
    n = [z3.Int('n0'), z3.Int('n1')]
    # every particle of the array is binned, ghosts and remote ones too:
    # the count asked for must be the total, not the number of real ones
    nreal_ = [z3.Int('n0_real'), z3.Int('n1_real')]
    pas = [SymObject(None, dict(get_number_of_particles=Native(
        lambda e, s_, a, k, nd, i=i: nreal_[i] if (
            k.get('real') is True or (a and a[0] is True)) else n[i])),
        'pa%d' % i) for i in range(2)]
    caches = [SymObject(None, dict(update=Native(
        lambda e, s_, a, k, nd, i=i: s_.trace.append(('cache_update', i)))),
        'cache%d' % i) for i in range(4)]
    mgr = SymObject(None, dict(cell_size=z3.Real('dom_cell_size'),
                               hmin=z3.Real('dom_hmin')), 'manager')
    uc = z3.Bool('use_cache')
    si, di = z3.Int('loaded_src_index'), z3.Int('loaded_dst_index')
    obs = []
    # with a (source, destination) pair loaded and with none
    for loaded in (True, False):
        obj = SymObject('NNPS', dict(
            domain=SymObject(None, dict(manager=mgr), 'domain'),
            narrays=2, particles=pas, use_cache=uc, cache=caches,
            current_cache=caches[1] if loaded else None,
            src_index=si, dst_index=di), 'self')
        obj.module = m

        def rec(tag):
            return CalleeContract(lambda e, s_, a, k, nd: s_.trace.append(
                (tag, a[1:], dict(k))))
        ex = Executor(repo, m, qualname='NNPS.update', merge=False,
                      contracts={
                          'NNPS._compute_bounds': rec('bounds'),
                          'NNPS._refresh': rec('refresh'),
                          'NNPS._bin': rec('bin'),
                          'NNPS.set_context': rec('set_context'),
                          'NNPSBase.set_context': rec('set_context')})
        ex.spec_env['arange_uint'] = Native(
            lambda e, s_, a, k, nd: ('arange', a[0]))
        outs = ex.exec_function(fn, dict(self=obj), State(pc=[]))
        if loaded:
            ctx.function(m, fn, 'NNPS.update', ex.dropped)
        obs += _update_sequence_obs(outs, n, uc, mgr, loaded, si, di, W)
    ctx.prove('update.rebuilds_every_array_and_invalidates_caches',
              z3only(obs), use_nf=False, replay=replay_oracle(
                  ['uniform', 'two', 'ghosts'], history=True))
    _task_update_cache(ctx, repo, m, W)


def _update_sequence_obs(outs, n, uc, mgr, loaded, si, di, W):
    obs = []
    for i_, o in enumerate(outs):
        tr = [t for t in o.state.trace]
        # the structures handed out by set_context for the loaded pair are
        # re-allocated by _refresh: that pair is loaded again at the very
        # end (nothing to re-load when no pair is loaded)
        rl = [t for t in tr if t[0] == 'set_context']
        okrl = (len(rl) == 1 and tr[-1] is rl[0] and len(rl[0][1]) == 2 and
                not rl[0][2]) if loaded else not rl
        tr = [t for t in tr if t[0] != 'set_context']
        tags = [t[0] for t in tr]
        okshape = tags[:4] == ['bounds', 'refresh', 'bin', 'bin']
        g = [z3.BoolVal(okshape)]
        if okshape:
            for i in range(2):
                kw = tr[2 + i][2]
                g.append(z3.BoolVal(kw.get('pa_index') == i))
                ind = kw.get('indices')
                g.append(z3.BoolVal(isinstance(ind, tuple) and
                                    ind[0] == 'arange'))
                if isinstance(ind, tuple):
                    g.append(S.to_z3(ind[1]) == n[i])
        cu = [t[1] for t in tr if t[0] == 'cache_update']
        g.append(z3.If(uc, z3.BoolVal(cu == [0, 1, 2, 3] and
                                      tags[4:] == ['cache_update'] * 4),
                       z3.BoolVal(cu == [] and len(tags) == 4)))
        me = o.state.env['self']
        g.append(S.to_z3(S.cmp('==', me.attrs['cell_size'],
                               mgr.attrs['cell_size'])))
        g.append(z3.BoolVal(bool(okrl)))
        if loaded and okrl:
            g.append(S.to_z3(S.cmp('==', rl[0][1][0], si)))
            g.append(S.to_z3(S.cmp('==', rl[0][1][1], di)))
        obs.append(Obligation('update.sequence.%s.%d' % (
            'pair_loaded' if loaded else 'no_pair_loaded', i_), o.pc,
            z3.And(*g), W))
    return obs


def _task_update_cache(ctx, repo, m, W):
    _task_update_cache_threads(ctx, repo, m, W, 2)
    _task_update_cache_threads(ctx, repo, m, W, 3)


def _task_update_cache_threads(ctx, repo, m, W, nthreads_now):
    # NeighborCache.update: every entry invalidated, and one buffer per
    # CURRENT thread (the buffers are indexed by threadid(): a thread count
    # raised after the cache was built must not run past them).  The cache
    # was built with 2 threads; the count is now `nthreads_now`.
    fn = m.methods('NeighborCache')['update']
    npart = z3.Int('np')
    cached = C17.carr('_cached')
    ss = C17.carr('_start_stop')
    p2t = C17.carr('_pid_to_tid')
    def mk_nbr(i):
        return SymObject(None, dict(
            c_reset=Native(lambda e, s_, a, k, nd, i=i: s_.trace.append(
                ('reset', i))),
            c_reserve=Native(lambda e, s_, a, k, nd: None)), 'nbr%s' % i)
    nbr = [mk_nbr(i) for i in range(2)]
    fresh = []
    obj = SymObject('NeighborCache', dict(
        _n_threads=2, _dst_index=0, _particles=[SymObject(None, dict(
            get_number_of_particles=Native(lambda e, s_, a, k, nd: npart)),
            'pa')], _start_stop=ss, _pid_to_tid=p2t, _cached=cached,
        _neighbors=nbr, _last_avg_nbr_size=z3.Int('avg')), 'self')
    obj.module = m

    def cinv(ex, st):
        k = z3.Int('k')
        i = S.to_z3(st.env['i'])
        arr = st.env['self'].attrs['_cached'].attrs['data'].arr
        return z3.And(i >= 0, z3.ForAll([k], z3.Implies(
            z3.And(0 <= k, k < i), z3.Select(arr, k) == 0)))
    spec = LoopSpec(inv=[('zeroed', cinv)])
    lps = C17.loops_in(fn)
    # the loop that zeroes the cached flags is the one over range(np)
    kz = [i_ for i_, l_ in enumerate(lps) if isinstance(l_, ast.For) and
          isinstance(l_.iter, ast.Call) and l_.iter.args and
          isinstance(l_.iter.args[-1], ast.Name) and
          l_.iter.args[-1].id == 'np'][0]
    ex = Executor(repo, m, qualname='NeighborCache.update', merge=False,
                  loop_specs={('update', kz): spec}, contracts={
                      'NeighborCache._update_last_avg_nbr_size':
                      CalleeContract(lambda e, s_, a, k, nd: None)})
    ex.spec_env['get_number_of_threads'] = Native(
        lambda e, s_, a, k, nd: nthreads_now)
    ex.spec_env['aligned_free'] = Native(
        lambda e, s_, a, k, nd: s_.trace.append(('free', a[0])))
    ex.spec_env['aligned_malloc'] = Native(
        lambda e, s_, a, k, nd: [None] * nthreads_now)
    ex.spec_env['sizeof'] = Native(lambda e, s_, a, k, nd: 8)
    ex.spec_env['sizeof_type'] = 8      # sizeof(void*), as extracted
    ex.spec_env['UIntArray'] = Native(
        lambda e, s_, a, k, nd: (fresh.append(mk_nbr('new%d' % len(fresh))),
                                 fresh[-1])[1])
    outs = ex.exec_function(fn, dict(self=obj), State(pc=[npart >= 0]))
    ctx.function(m, fn, 'NeighborCache.update', ex.dropped)
    obs = [o for o in ex.obligations if o.kind in ('inv-entry', 'inv-step',
                                                   'index')]
    for i_, o in enumerate(outs):
        me = o.state.env['self']
        k = z3.Int('k')
        arr = me.attrs['_cached'].attrs['data']
        obs.append(Obligation('cache_update.post.%d' % i_, o.pc, z3.And(
            S.to_z3(arr.length) == npart,
            S.to_z3(me.attrs['_start_stop'].attrs['data'].length) ==
            2 * npart,
            z3.ForAll([k], z3.Implies(z3.And(0 <= k, k < npart), z3.Select(
                arr.arr, k) == 0)),
            z3.BoolVal([t for t in o.state.trace if t[0] == 'reset'] ==
                       ([('reset', 0), ('reset', 1)] if nthreads_now == 2
                        else [('reset', 'new%d' % i)
                              for i in range(nthreads_now)])),
            # one buffer per current thread, each an array of its own
            z3.BoolVal(me.attrs.get('_n_threads') == nthreads_now and
                       len(me.attrs['_neighbors']) == nthreads_now and
                       len(set(id(x) for x in me.attrs['_neighbors'])) ==
                       nthreads_now and
                       all(x is not None for x in me.attrs['_neighbors']))),
            W))
    obs += C17.range_obs(ex, fn, kz, spec.logs[-1]['entry'], npart,
                         'cache_update.range', W)
    for o_ in obs:
        o_.name = 'threads%d.%s' % (nthreads_now, o_.name)
    ctx.prove('cache.update_invalidates_every_entry' + (
        '' if nthreads_now == 2 else '.thread_count_changed'), z3only(obs),
        use_nf=False)


CACHE_THREADS = r'''
import json, sys
d = json.load(sys.stdin)
if d.get('built'): sys.path.insert(0, d['built'])
import numpy as np
from pysph.base.utils import get_particle_array
from pysph.base import nnps
from pysph.base.nnps_base import set_number_of_threads, get_number_of_threads
from cyarray.api import UIntArray
rng = np.random.RandomState(3)
n = 3000
bad = None
threads_seen = 0
for nt in (1, 8):
    set_number_of_threads(nt)
    threads_seen = max(threads_seen, get_number_of_threads())
    for cls in ('LinkedListNNPS', 'SpatialHashNNPS'):
        pa = get_particle_array(name='a', x=rng.rand(n), y=rng.rand(n), h=0.02)
        nn = getattr(nnps, cls)(dim=2, particles=[pa], cache=True)
        nn.set_context(0, 0)
        nn.cache[0].find_all_neighbors()      # the OpenMP loop fills the cache
        nb = UIntArray()
        for i in range(n):
            nn.get_nearest_particles(0, 0, i, nb)   # asked by the main thread
            ids = set(nb.get_npy_array().tolist())
            d2 = (pa.x - pa.x[i])**2 + (pa.y - pa.y[i])**2
            want = set(np.where(d2 < (2.0*0.02)**2)[0].tolist())
            if ids != want:
                bad = dict(algorithm=cls, threads=nt, particle=i, problem='cached list filled by the OpenMP loop differs from the neighbour set when read by the main thread',
                           missing=sorted(want - ids)[:6], extra=sorted(ids - want)[:6]); break
        if bad: break
    if bad: break
print(json.dumps(dict(bad=bad, threads=threads_seen)))
'''


def replay_cache_threads(model, ob):
    if os.environ.get('PYVC_NO_BUILD_REPLAY'):
        return dict(reproduced=False, note='build replay disabled')
    try:
        tree, msg = native.shared_build()
        if tree is None:
            return dict(reproduced=False, note=msg)
        r = native.run_venv(CACHE_THREADS, dict(built=tree), timeout=900,
                            cwd='/tmp')
    except Exception as e:
        return dict(reproduced=False, note=str(e)[-300:])
    if r['bad']:
        return dict(reproduced=True, how='extensions built from the working '
                    'tree with OpenMP; cache filled by find_all_neighbors '
                    'under 1 and 8 threads, then read from the main thread',
                    **r['bad'])
    return dict(reproduced=False, note='threads available: %s' % r['threads'])


# -------------------------------------------------------------------- cache
class _NbrTable(object):
    """self._neighbors: one growing UIntArray per thread; only the lengths
    (a z3 array thread -> length) and the identity of cells matter here"""

    def __init__(self, lens=None):
        self.lens = lens if lens is not None else z3.Array(
            'nbr_len', z3.IntSort(), z3.IntSort())

    def vc_getitem(self, idx, ex, st, node):
        return _NbrRef(self, idx)

    def vc_clone(self, memo, _c=None):
        if id(self) in memo:
            return memo[id(self)]
        c = _NbrTable(self.lens)
        memo[id(self)] = c
        return c


class _NbrRef(object):
    def __init__(self, table, idx):
        self.table, self.idx = table, idx

    def vc_getattr(self, a, ex, st, node):
        if a == 'length':
            return z3.Select(self.table.lens, S.to_z3(self.idx))
        if a == 'data':
            return _NbrData2(self.idx)
        raise VCError('UIntArray.%s' % a)

    def vc_clone(self, memo, _c=None):
        return _NbrRef(self.table.vc_clone(memo), self.idx)


class _NbrData2(object):
    def __init__(self, idx):
        self.idx = idx

    def vc_getitem(self, i, ex, st, node):
        return ('cell', self.idx, i)

    def vc_clone(self, memo, _c=None):
        return self


def task_cache(ctx, repo):
    """NeighborCache: the list of a cached particle lives in the buffer of
    the thread that FOUND it.  _find_neighbors(d) run by thread t records
    _pid_to_tid[d] = t and the segment [_start_stop[2d], _start_stop[2d+1])
    of _neighbors[t] that find_nearest_neighbors appended, sets _cached[d]
    and touches no other entry; get_neighbors_raw(d), run by ANY thread,
    returns exactly the view (_neighbors[_pid_to_tid[d]], that segment) --
    so a query gives the same list whichever thread asks, and whichever
    thread filled the cache."""
    m = repo.cython_module(NB)
    W = m.path
    cls = 'NeighborCache'
    npart = z3.Int('np')
    nthr = z3.Int('n_threads')
    d = z3.Int('d_idx')
    tnow = z3.Int('t_now')
    pre = [npart >= 1, nthr >= 1, d >= 0, d < npart, tnow >= 0, tnow < nthr]

    def mk():
        cached = C17.carr('_cached', length=npart)
        ss = C17.carr('_start_stop', length=2 * npart)
        p2t = C17.carr('_pid_to_tid', length=npart)
        tab = _NbrTable()
        newlen = z3.Int('len_after_find')

        def find(e, s_, a, k, nd):
            ref = a[1]
            if not isinstance(ref, _NbrRef):
                raise VCError('find_nearest_neighbors buffer')
            t = S.to_z3(ref.idx)
            s_.trace.append(('find', a[0], ref.idx))
            s_.pc.append(newlen >= z3.Select(ref.table.lens, t))
            ref.table.lens = z3.Store(ref.table.lens, t, newlen)
        nnps = SymObject(None, dict(find_nearest_neighbors=Native(find)),
                         '_nnps')
        obj = SymObject(cls, dict(
            _n_threads=nthr, _dst_index=0, _start_stop=ss, _pid_to_tid=p2t,
            _cached=cached, _neighbors=tab, _nnps=nnps), 'self')
        obj.module = m
        return obj, cached, ss, p2t, tab, newlen

    def arr(o):
        return o.attrs['data'].arr

    def env_for(ex):
        ex.spec_env['threadid'] = Native(lambda e, s_, a, k, nd: tnow)
        ex.spec_env['addr_of'] = Native(lambda e, s_, a, k, nd: ('addr',
                                                                 a[0]))
    obs = []
    k = z3.Int('k')
    # ---- _find_neighbors
    fn = m.methods(cls)['_find_neighbors']
    obj, cached, ss, p2t, tab, newlen = mk()
    c0, s0, p0, l0 = arr(cached), arr(ss), arr(p2t), tab.lens
    ex = Executor(repo, m, qualname=cls + '._find_neighbors', merge=False)
    env_for(ex)
    outs = ex.exec_function(fn, dict(self=obj, d_idx=d), State(pc=list(pre)))
    ctx.function(m, fn, cls + '._find_neighbors', ex.dropped)
    obs += [o for o in ex.obligations if o.kind == 'index']
    if not outs:
        obs.append(Obligation('find.nopath', [], z3.BoolVal(False), W))
    for i_, o in enumerate(outs):
        me = o.state.env['self']
        c1, s1, p1 = (arr(me.attrs[x]) for x in ('_cached', '_start_stop',
                                                 '_pid_to_tid'))
        l1 = me.attrs['_neighbors'].lens
        tr = o.state.trace
        okt = len(tr) == 1 and tr[0][0] == 'find'
        g = [z3.BoolVal(okt)]
        if okt:
            g += [S.to_z3(tr[0][1]) == d, S.to_z3(tr[0][2]) == tnow]
        g += [z3.Select(p1, d) == tnow,
              z3.Select(s1, 2 * d) == z3.Select(l0, tnow),
              z3.Select(s1, 2 * d + 1) == z3.Select(l1, tnow),
              z3.Select(c1, d) == 1,
              z3.ForAll([k], z3.Implies(k != d, z3.And(
                  z3.Select(p1, k) == z3.Select(p0, k),
                  z3.Select(c1, k) == z3.Select(c0, k)))),
              z3.ForAll([k], z3.Implies(z3.And(k != 2 * d, k != 2 * d + 1),
                                        z3.Select(s1, k) == z3.Select(s0, k))),
              z3.ForAll([k], z3.Implies(k != tnow, z3.Select(l1, k) ==
                                        z3.Select(l0, k)))]
        for j, gg in enumerate(g):
            obs.append(Obligation('find.post.%d.%d' % (i_, j), o.pc, gg, W))
    # ---- get_neighbors_raw, caller checked against the contract above
    fn = m.methods(cls)['get_neighbors_raw']
    for was_cached in (True, False):
        obj, cached, ss, p2t, tab, newlen = mk()
        c0, s0, p0, l0 = arr(cached), arr(ss), arr(p2t), tab.lens
        views = []
        nbrs = SymObject(None, dict(c_set_view=Native(
            lambda e, s_, a, k_, nd: views.append((a, list(s_.pc))))), 'nbrs')

        def find_contract(e, s_, a, k_, nd):
            me = a[0]
            dd = S.to_z3(a[1])
            s_.trace.append(('find_neighbors', a[1]))
            sa = me.attrs['_start_stop'].attrs['data']
            pa_ = me.attrs['_pid_to_tid'].attrs['data']
            ca = me.attrs['_cached'].attrs['data']
            t_ = me.attrs['_neighbors']
            old = z3.Select(t_.lens, tnow)
            s_.pc.append(newlen >= old)
            sa.arr = z3.Store(z3.Store(sa.arr, 2 * dd, old), 2 * dd + 1,
                              newlen)
            pa_.arr = z3.Store(pa_.arr, dd, tnow)
            ca.arr = z3.Store(ca.arr, dd, z3.IntVal(1))
            t_.lens = z3.Store(t_.lens, tnow, newlen)
        ex = Executor(repo, m, qualname=cls + '.get_neighbors_raw',
                      merge=False, contracts={
                          cls + '._find_neighbors':
                          CalleeContract(find_contract)})
        env_for(ex)
        tag = 'cached' if was_cached else 'uncached'
        p = list(pre) + [z3.Select(c0, d) == (1 if was_cached else 0)]
        outs = ex.exec_function(fn, dict(self=obj, d_idx=d, nbrs=nbrs),
                                State(pc=p))
        if was_cached:
            ctx.function(m, fn, cls + '.get_neighbors_raw', ex.dropped)
        obs += [o for o in ex.obligations if o.kind == 'index']
        live = [o for o in outs]
        if not live or len(views) != len(live):
            obs.append(Obligation('raw.%s.one_view_per_path' % tag, [],
                                  z3.BoolVal(False), W))
            continue
        for i_, (o, (a, pc_)) in enumerate(zip(live, views)):
            calls = [t for t in o.state.trace if t[0] == 'find_neighbors']
            if was_cached:
                owner, start, stop = (z3.Select(p0, d), z3.Select(s0, 2 * d),
                                      z3.Select(s0, 2 * d + 1))
                okc = calls == []
            else:
                owner, start, stop = tnow, z3.Select(l0, tnow), newlen
                okc = len(calls) == 1
            ptr = a[0]
            shape = isinstance(ptr, tuple) and ptr[0] == 'addr' and \
                isinstance(ptr[1], tuple) and ptr[1][0] == 'cell'
            g = [z3.BoolVal(bool(shape and okc))]
            if shape:
                g += [S.to_z3(ptr[1][1]) == owner, S.to_z3(ptr[1][2]) == start,
                      S.to_z3(a[1]) == stop - start]
            if not was_cached and okc:
                g.append(S.to_z3(calls[0][1]) == d)
            for j, gg in enumerate(g):
                obs.append(Obligation('raw.%s.%d.%d' % (tag, i_, j), pc_, gg,
                                      W))
    ctx.prove('cache.view_is_the_finding_threads_segment', z3only(obs),
              use_nf=False, replay=replay_cache_threads)


# ------------------------------------------------------------------ cellkey
CI_PYX = 'pysph/base/cell_indexing_nnps.pyx'
CI_PXD = 'pysph/base/cell_indexing_nnps.pxd'
# the inputs the key must be able to hold: any array a UIntArray can index
# (fewer than 2^31 particles) on a grid of at most 2047 cells per axis
CI_MAX_NP_BITS = 31
CI_MAX_AXIS_BITS = 11


def task_cellkey(ctx, repo):
    """CellIndexingNNPS packs (particle, cell x, y, z) into one machine
    integer.  On the typed extraction, with C integer semantics (pyvc/cint.py;
    widths from the .pxd):
      roundtrip  for field widths I, J, K and fields n < 2^I, i < 2^J,
                 j < 2^K, k < 2^(W-I-J-K) with I+J+K < W (W = width of the
                 key type): _get_id/_get_x/_get_y/_get_z of _get_key(n,i,j,k)
                 return n, i, j, k; no shift or signed overflow is undefined;
      widths     _bin / _refresh choose I = 1+floor(log2 np), J, K =
                 1+floor(log2 ncells) (log2 of an exact integer assumed
                 exact), so every particle index and cell index is below
                 2^width;
      fits       for every array of fewer than 2^31 particles on a grid of at
                 most 2047 cells per axis the four fields fit the key type:
                 I + J + K + bits(z cells) <= W."""
    from pyvc import cint
    from pyvc.cint import CInt
    m = repo.cython_module(CI_PYX)
    px = repo.cython_module(CI_PXD)
    W_ = m.path
    cls = 'CellIndexingNNPS'
    tdefs = dict(px.typedefs)
    tdefs.update(m.typedefs)
    attrs = px.cattrs.get(cls, {})
    # signatures of cdef methods are declared in the .pxd
    for q, rec in px.ctypes.items():
        m.ctypes.setdefault(q, rec)
    try:
        kb, ks = cint.resolve(m.ctypes[cls + '._get_key']['ret'], tdefs)
        ib, is_ = cint.resolve(attrs['I'].rstrip('*'), tdefs)
        jb, js = cint.resolve(attrs['J'], tdefs)
        kkb, kks = cint.resolve(attrs['K'], tdefs)
    except (KeyError, VCError) as e:
        ctx.outside('cellkey', 'declarations: %s' % e)
        return
    I = CInt.sym('I', ib, is_)
    J = CInt.sym('J', jb, js)
    K = CInt.sym('K', kkb, kks)
    obj = SymObject(cls, dict(I=[I], J=J, K=K), 'self')
    obj.module = m.typed
    # the fields have the declared parameter types of _get_key and come
    # back through the declared return types of the decoders
    at = m.ctypes[cls + '._get_key']['args']
    n, i, j, k = (CInt.sym(x, *cint.resolve(at[x], tdefs))
                  for x in ('n', 'i', 'j', 'k'))
    # preconditions, stated on bit-vectors of the key's width
    Ib, Jb, Kb = (x.conv(kb, False).bv for x in (I, J, K))
    one = z3.BitVecVal(1, kb)
    tot = Ib + Jb + Kb
    pre = [z3.UGE(Ib, 1), z3.UGE(Jb, 1), z3.UGE(Kb, 1),
           z3.ULE(Ib, kb - 1), z3.ULE(Jb, kb - 1), z3.ULE(Kb, kb - 1),
           z3.ULE(tot, kb - 1),
           z3.ULT(n.conv(kb, False).bv, one << Ib),
           z3.ULT(i.conv(kb, False).bv, one << Jb),
           z3.ULT(j.conv(kb, False).bv, one << Kb),
           z3.ULT(k.conv(kb, False).bv, one << (z3.BitVecVal(kb, kb) - tot))]
    obs = []
    try:
        ex, res = cint.run(repo, m, cls, '_get_key', dict(
            n=n, i=i, j=j, k=k, pa_index=0), obj, tdefs, pre=pre)
        ctx.function(m, m.typed.methods(cls)['_get_key'], cls + '._get_key',
                     ex.dropped)
        obs += [o for o in ex.obligations if o.kind == 'ub']
        if len(res) != 1:
            raise VCError('_get_key: %d paths' % len(res))
        pc0, key = res[0]
        for fname, want in (('_get_id', n), ('_get_x', i), ('_get_y', j),
                            ('_get_z', k)):
            ex2, r2 = cint.run(repo, m, cls, fname, dict(key=key, pa_index=0),
                               obj, tdefs, pre=pc0)
            ctx.function(m, m.typed.methods(cls)[fname], cls + '.' + fname,
                         ex2.dropped)
            obs += [o for o in ex2.obligations if o.kind == 'ub']
            for pc_, got in r2:
                # the decoder's return type must be able to hold the field
                fits_ret = z3.ULT(want.conv(kb, False).bv, z3.BitVecVal(
                    2 ** (got.bits - (1 if got.signed else 0)), kb))
                obs.append(Obligation(
                    'roundtrip.%s' % fname, list(pc_) + [fits_ret],
                    got.conv(kb, got.signed).bv ==
                    want.conv(kb, False).bv, W_))
    except VCError as e:
        ctx.outside('cellkey.roundtrip', str(e))
        return
    ctx.prove('cellkey.decode_inverts_encode', z3only(obs, 120000),
              use_nf=False, replay=replay_cellkey)
    # vacuity guard: the preconditions admit a key that uses all four fields
    ctx.canary('cellkey.precondition_reachable', Obligation(
        'cover', list(pre) + [k.bv != 0, j.bv != 0, i.bv != 0, n.bv != 0],
        z3.BoolVal(False), W_))

    # ---- widths chosen by _refresh / _bin, and whether they fit the key
    mt = m.typed
    N = {a: z3.Int('ncells_' + a) for a in 'xyz'}
    npart = z3.Int('np')
    logs = []

    def log2_model(e, s_, a, k_, nn):
        # log2 of an exact positive integer: e with 2^e <= v < 2^(e+1); the
        # value handed on is any real in [e, e+1) -- only its floor is used
        v = a[0]
        if isinstance(v, tuple) and v[0] == 'ceil':
            v = v[1]
        e_ = z3.Int('log2_%d' % len(logs))
        L = z3.Real('log2r_%d' % len(logs))
        logs.append((v, e_))
        s_.pc.append(z3.Or(*[z3.And(e_ == t, v >= 2 ** t, v < 2 ** (t + 1))
                             for t in range(0, 63)]))
        s_.pc.append(z3.And(L >= z3.ToReal(e_), L < z3.ToReal(e_) + 1))
        return L

    def c_cast_real(e, s_, a, k_, nn):
        v = a[1]
        try:
            bits, signed = cint.resolve(a[0], tdefs)
        except VCError:
            return v                    # cast to an extension type
        if isinstance(v, (CInt, int)):
            return CInt.of(v).conv(bits, signed)
        # double -> integer: truncation toward zero of a non-negative value
        fl = z3.ToInt(S.to_real(v))
        s_.pc.append(fl >= 0)
        return ('width', fl, bits)
    cells = {}

    def ceil_model(e, s_, a, k_, nn):
        # ceil((max - min)/cell_size): the number of cells along the axis
        ax = 'xyz'[len(cells) % 3]
        cells[ax] = a[0]
        return ('ceil', N[ax])
    xs = SymObject(None, dict(data=[z3.Real('xmax0'), z3.Real('xmax1'),
                                    z3.Real('xmax2')]), 'xmax')
    xm = SymObject(None, dict(data=[z3.Real('xmin0'), z3.Real('xmin1'),
                                    z3.Real('xmin2')]), 'xmin')
    me = SymObject(cls, dict(xmax=xs, xmin=xm, cell_size=z3.Real('cell_size'),
                             narrays=0, keys=[None], key_indices=[None],
                             src_index=0, pa_wrappers=[], I=[None]), 'self')
    me.module = mt
    obs = []
    try:
        ex = Executor(repo, mt, qualname=cls + '._refresh', merge=False)
        for nm_, f_ in (('log2', log2_model), ('ceil', ceil_model),
                        ('c_cast', c_cast_real)):
            ex.spec_env[nm_] = Native(f_)
        outs = ex.exec_function(mt.methods(cls)['_refresh'], dict(self=me),
                                State(pc=[N['x'] >= 1, N['y'] >= 1,
                                          N['z'] >= 1, npart >= 1]))
        ctx.function(m, mt.methods(cls)['_refresh'], cls + '._refresh',
                     ex.dropped)
        if len(outs) != 1:
            raise VCError('_refresh: %d paths' % len(outs))
        st1 = outs[0].state
        Jw, Kw = st1.env['self'].attrs['J'], st1.env['self'].attrs['K']
        # _bin: I[pa_index]
        pw = SymObject(None, dict(get_number_of_particles=Native(
            lambda e, s_, a, k_, nn: npart)), 'pa_wrapper')
        me2 = SymObject(cls, dict(pa_wrappers=[pw], I=[None], keys=[None],
                                  key_indices=[None],
                                  fill_array=Native(lambda *a_: None)),
                        'self')
        me2.module = mt
        ex2 = Executor(repo, mt, qualname=cls + '._bin', merge=False)
        def ceil_real(e, s_, a, k_, nn):
            c = z3.Int('ceil_%d' % len(logs))
            v = S.to_real(a[0])
            s_.pc.append(z3.And(z3.ToReal(c) - 1 < v, v <= z3.ToReal(c)))
            return c
        for nm_, f_ in (('log2', log2_model), ('c_cast', c_cast_real),
                        ('ceil', ceil_real)):
            ex2.spec_env[nm_] = Native(f_)
        outs2 = ex2.exec_function(mt.methods(cls)['_bin'], dict(
            self=me2, pa_index=0, indices=('indices',)),
            State(pc=list(st1.pc)))
        ctx.function(m, mt.methods(cls)['_bin'], cls + '._bin', ex2.dropped)
        if len(outs2) != 1:
            raise VCError('_bin: %d paths' % len(outs2))
        st2 = outs2[0].state
        Iw = st2.env['self'].attrs['I'][0]
        for nm, w_ in (('I', Iw), ('J', Jw), ('K', Kw)):
            if not (isinstance(w_, tuple) and w_[0] == 'width'):
                raise VCError('%s is not a truncated log2: %r' % (nm, w_))
        pc = list(st2.pc)

        def pow_gt(width, v):
            return z3.Or(*[z3.And(width == t, v < 2 ** t)
                           for t in range(0, 64)])
        # every particle index (< np) and every cell index (<= ncells, a
        # particle on the upper face) is below 2^width
        obs.append(Obligation('widths.I_holds_every_particle_index', pc,
                              pow_gt(Iw[1], npart - 1), W_))
        obs.append(Obligation('widths.J_holds_every_x_cell', pc,
                              pow_gt(Jw[1], N['x']), W_))
        obs.append(Obligation('widths.K_holds_every_y_cell', pc,
                              pow_gt(Kw[1], N['y']), W_))
        # the x extent feeds J and the y extent K
        okax = (len(cells) >= 2 and 'xmax0' in str(cells.get('x')) and
                'xmax1' in str(cells.get('y')))
        obs.append(Obligation('widths.axes', [], z3.BoolVal(bool(okax)), W_))
        ctx.prove('cellkey.field_widths_hold_every_index', z3only(obs),
                  use_nf=False, replay=replay_cellkey)
        # fits: the envelope
        zb = z3.Int('zbits')
        env = [npart < 2 ** CI_MAX_NP_BITS] + \
            [N[a] < 2 ** CI_MAX_AXIS_BITS for a in 'xyz'] + \
            [z3.Or(*[z3.And(zb == t, N['z'] < 2 ** t,
                            N['z'] >= (2 ** (t - 1) if t else 0))
                     for t in range(0, 63)])]
        fit = Obligation('fits.key_type_holds_all_four_fields', pc + env,
                         Iw[1] + Jw[1] + Kw[1] + zb <= kb, W_)
        ctx.prove('cellkey.key_fits_its_type', z3only([fit]), use_nf=False,
                  replay=replay_cellkey)
    except VCError as e:
        ctx.outside('cellkey.widths', str(e))
        return


CELLKEY = r"""
import json, sys
d = json.load(sys.stdin)
if d.get('built'): sys.path.insert(0, d['built'])
import numpy as np
from pysph.base.utils import get_particle_array
from pysph.base import nnps
from cyarray.api import UIntArray
bad = None
rng = np.random.RandomState(0)
# (a) aspect ratios (the y field is decoded with its own width), (b) a 2D
# lattice of 65536 particles on 253 x 253 cells (the four fields need 33 bits)
cases = [('257 particles (2^8 + 1: the largest id needs 9 bits)', 2, 257, (1.0, 1.0, 0.0), 0.08), ('tall 2D', 2, 400, (1.0, 6.0, 0.0), 0.1), ('tall 3D', 3, 500, (1.0, 5.0, 2.0), 0.15), ('wide 3D', 3, 500, (6.0, 1.0, 2.0), 0.15)]
for name, dim, n_, box, h in cases:
    x = rng.rand(n_) * box[0]; y = rng.rand(n_) * box[1]; z = rng.rand(n_) * box[2]
    pa = get_particle_array(name='a', x=x, y=y, z=z, h=h)
    ci = nnps.CellIndexingNNPS(dim=dim, particles=[pa], radius_scale=2.0)
    nb = UIntArray()
    for q in range(n_):
        ci.get_nearest_particles(0, 0, q, nb)
        d2 = (x - x[q])**2 + (y - y[q])**2 + (z - z[q])**2
        want = sorted(np.where(d2 < (2.0 * h)**2)[0].tolist())
        got = sorted(nb.get_npy_array().tolist())
        if got != want:
            bad = dict(case=name, particle=q, returned=got[:8], expected=want[:8]); break
    if bad: break
if bad is None:
    N = 256
    gx, gy = np.mgrid[0:N, 0:N] * 1.0
    pa = get_particle_array(name='a', x=gx.ravel(), y=gy.ravel(), h=0.505)
    ci = nnps.CellIndexingNNPS(dim=2, particles=[pa], radius_scale=2.0)
    nb = UIntArray()
    for q in rng.randint(0, N * N, 200).tolist():
        ci.get_nearest_particles(0, 0, q, nb)
        qi, qj = divmod(q, N)
        want = sorted(a_ * N + b_ for a_, b_ in ((qi, qj), (qi - 1, qj), (qi + 1, qj), (qi, qj - 1), (qi, qj + 1)) if 0 <= a_ < N and 0 <= b_ < N)
        got = sorted(nb.get_npy_array().tolist())
        if got != want:
            bad = dict(case='2D lattice 256 x 256 = 65536 particles, 253 x 253 cells', particle=q, returned=got, expected=want); break
print(json.dumps(dict(bad=bad)))
"""


def replay_cellkey(model, ob):
    if os.environ.get('PYVC_NO_BUILD_REPLAY'):
        return dict(reproduced=False, note='build replay disabled')
    try:
        tree, msg = native.shared_build()
        if tree is None:
            return dict(reproduced=False, note=msg)
        r = native.run_venv(CELLKEY, dict(built=tree), timeout=900,
                            cwd='/tmp')
    except Exception as e:
        return dict(reproduced=False, note=str(e)[-300:])
    if r['bad']:
        return dict(reproduced=True, how='extensions built from the working '
                    'tree; CellIndexingNNPS against the definition',
                    **r['bad'])
    return dict(reproduced=False)


OCTROOT = r'''
import json, sys
d = json.load(sys.stdin)
if d.get('built'): sys.path.insert(0, d['built'])
import numpy as np
from pysph.base.utils import get_particle_array
from pysph.base import nnps
from cyarray.api import UIntArray
bad = None
# a source array with a few large-h particles on one face, queried from a
# second array lying outside the source's bounding cube
sx, sy = np.mgrid[0:1.0001:0.1, 0:1.0001:0.1]
sx, sy = sx.ravel(), sy.ravel()
sh = np.where(sx > 0.95, 0.3, 0.05)
dx_, dy_ = np.mgrid[1.15:1.6:0.1, 0:1.0001:0.1]
dx_, dy_ = dx_.ravel(), dy_.ravel()
for cls in ('OctreeNNPS', 'CompressedOctreeNNPS'):
    for cache in (False, True):
        src = get_particle_array(name='solid', x=sx, y=sy, h=sh)
        dst = get_particle_array(name='fluid', x=dx_, y=dy_, h=0.05)
        nn = getattr(nnps, cls)(dim=2, particles=[src, dst], radius_scale=2.0, cache=cache)
        nb = UIntArray()
        for q in range(len(dx_)):
            nn.get_nearest_particles(0, 1, q, nb)
            d2 = (sx - dx_[q])**2 + (sy - dy_[q])**2
            want = sorted(np.where((d2 < (2.0 * 0.05)**2) | (d2 < (2.0 * sh)**2))[0].tolist())
            got = sorted(nb.get_npy_array().tolist())
            if got != want:
                bad = dict(algorithm=cls, cache=cache, query=[float(dx_[q]), float(dy_[q])], returned=got[:8], expected=want[:8],
                           note='source particles with h=0.3 reach the query point; the point is outside the source bounding cube'); break
        if bad: break
    if bad: break
print(json.dumps(dict(bad=bad)))
'''


def replay_octroot(model, ob):
    if os.environ.get('PYVC_NO_BUILD_REPLAY'):
        return dict(reproduced=False, note='build replay disabled')
    try:
        tree, msg = native.shared_build()
        if tree is None:
            return dict(reproduced=False, note=msg)
        r = native.run_venv(OCTROOT, dict(built=tree), timeout=900,
                            cwd='/tmp')
    except Exception as e:
        return dict(reproduced=False, note=str(e)[-300:])
    if r['bad']:
        return dict(reproduced=True, how='extensions built from the working '
                    'tree; octree classes against the definition',
                    **r['bad'])
    return dict(reproduced=False)


# ------------------------------------------------------------------ octroot
OCT_PYX = 'pysph/base/octree.pyx'


def task_octroot(ctx, repo):
    """Octree._calculate_domain (shared by Octree and CompressedOctree): the
    root cube [xmin, xmin+length]^3 contains every particle and the root's
    hmax is the LARGEST smoothing length of the array -- the query prunes a
    node when the point is farther than radius_scale*max(h_query, node.hmax)
    from it, so a smaller value loses neighbours whose own h reaches the
    point; the root node is created from exactly these three values."""
    m = repo.cython_module(OCT_PYX)
    W_ = m.path
    cls = 'Octree'
    fn = m.methods(cls)['_calculate_domain']
    lo = [z3.Real('min_%s' % a) for a in 'xyz']
    hi = [z3.Real('max_%s' % a) for a in 'xyz']
    hmin, hmax = z3.Real('h_minimum'), z3.Real('h_maximum')

    def col(a, b):
        return SymObject(None, dict(minimum=a, maximum=b), 'col')
    paw = SymObject(None, dict(
        x=col(lo[0], hi[0]), y=col(lo[1], hi[1]), z=col(lo[2], hi[2]),
        h=col(hmin, hmax),
        get_number_of_particles=Native(lambda e, s_, a, k_, nn: z3.Int('np')),
        pa=SymObject(None, dict(update_min_max=Native(
            lambda e, s_, a, k_, nn: s_.trace.append(('update_min_max',)))),
            'pa')), 'pa_wrapper')
    eps = z3.Real('eps')
    obj = SymObject(cls, dict(xmin=[z3.Real('x0'), z3.Real('x1'),
                                    z3.Real('x2')],
                              xmax=[z3.Real('X0'), z3.Real('X1'),
                                    z3.Real('X2')],
                              hmax=z3.Real('hmax0'), length=z3.Real('len0'),
                              machine_eps=z3.Real('machine_eps')), 'self')
    obj.module = m
    ex = Executor(repo, m, qualname=cls + '._calculate_domain', merge=False,
                  contracts={cls + '._get_eps': CalleeContract(
                      lambda e, s_, a, k_, nn: eps)})
    ex.spec_env['fmax'] = Native(lambda e, s_, a, k_, nn: z3.If(
        S.to_real(a[0]) >= S.to_real(a[1]), S.to_real(a[0]),
        S.to_real(a[1])))
    pre = [lo[i_] <= hi[i_] for i_ in range(3)] + [hmin <= hmax, eps >= 0]
    obs = []
    try:
        outs = ex.exec_function(fn, dict(self=obj, pa_wrapper=paw),
                                State(pc=list(pre)))
    except VCError as e:
        ctx.outside('octroot', str(e))
        return
    ctx.function(m, fn, cls + '._calculate_domain', ex.dropped)
    if not outs:
        obs.append(Obligation('octroot.nopath', [], z3.BoolVal(False), W_))
    # an arbitrary particle of the array (contract of update_min_max:
    # minimum <= value <= maximum for every property)
    p = [z3.Real('p_%s' % a) for a in 'xyz']
    hp = z3.Real('p_h')
    inside = [z3.And(lo[i_] <= p[i_], p[i_] <= hi[i_]) for i_ in range(3)] + \
        [hmin <= hp, hp <= hmax]
    for i_, o in enumerate(outs):
        me = o.state.env['self'].attrs
        pc = list(o.pc) + inside
        obs.append(Obligation('octroot.%d.min_max_refreshed_first' % i_, o.pc,
                              z3.BoolVal(o.state.trace[:1] ==
                                         [('update_min_max',)]), W_))
        obs.append(Obligation('octroot.%d.hmax_covers_every_particle' % i_,
                              pc, S.to_real(me['hmax']) >= hp, W_))
        L = S.to_real(me['length'])
        for a_ in range(3):
            x0 = S.to_real(me['xmin'][a_])
            obs.append(Obligation('octroot.%d.cube_contains.%s' % (i_,
                                                                  'xyz'[a_]),
                                  pc, z3.And(x0 <= p[a_], p[a_] <= x0 + L),
                                  W_))
    # the root node is created from these values (both tree classes)
    roots = []
    for cname in ('Octree', 'CompressedOctree'):
        for fname, f in m.methods(cname).items():
            for node in ast.walk(f):
                if isinstance(node, ast.Call) and isinstance(
                        node.func, ast.Attribute) and \
                        node.func.attr == '_new_node':
                    kw = {k_.arg: ast.unparse(k_.value)
                          for k_ in node.keywords}
                    if kw.get('level') == '0':
                        roots.append((cname, fname, [ast.unparse(a_) for a_
                                                     in node.args], kw))
    ok = len(roots) >= 2 and all(r[2] == ['self.xmin', 'self.length'] and
                                 r[3].get('hmax') == 'self.hmax'
                                 for r in roots)
    obs.append(Obligation('octroot.root_node_uses_domain', [],
                          z3.BoolVal(bool(ok)), W_,
                          extra=dict(roots=str(roots)[:300])))
    ctx.prove('octree.root_covers_every_particle', z3only(obs),
              use_nf=False, replay=replay_octroot)


OCT_THREADS = r'''
import json, sys
d = json.load(sys.stdin)
if d.get('built'): sys.path.insert(0, d['built'])
import numpy as np
from pysph.base.utils import get_particle_array
from pysph.base import nnps
from pysph.base.nnps_base import set_number_of_threads
from cyarray.api import UIntArray
bad = None
dx = 0.025
gx, gy = np.mgrid[0:1:dx, 0:1:dx]
x, y = gx.ravel(), gy.ravel()
h = 1.2 * dx * (1 + 2 * x)
n = len(x)
for nt in (1, 2, 8):
    set_number_of_threads(nt)
    for cls in ('OctreeNNPS', 'CompressedOctreeNNPS'):
        pa = get_particle_array(name='a', x=x, y=y, h=h)
        nn = getattr(nnps, cls)(dim=2, particles=[pa], radius_scale=2.0)
        nb = UIntArray()
        for i in range(0, n, 7):
            nn.get_nearest_particles(0, 0, i, nb)
            d2 = (x - x[i])**2 + (y - y[i])**2
            c = np.maximum((2 * h[i])**2, (2 * h)**2)
            want = set(np.where(d2 < c * (1 - 1e-9))[0].tolist()); tie = set(np.where(np.abs(d2 - c) <= 1e-9 * c)[0].tolist())
            got = set(nb.get_npy_array().tolist())
            if (got ^ want) - tie:
                bad = dict(algorithm=cls, threads=nt, particle=i, missing=sorted(want - got)[:6], extra=sorted(got - want - tie)[:6],
                           note='tree built with %d OpenMP thread(s), variable h' % nt); break
        if bad: break
    if bad: break
if bad is None:
    # a root octant with fewer particles than a leaf holds, followed by
    # another non-empty octant: the children's slices of the pid array must
    # stay disjoint (the ordered index list is a permutation)
    from cyarray.api import LongArray
    g = np.mgrid[0:8, 0:8, 0:8].reshape(3, -1).T * 0.125 + 0.0625
    hi = (g[:, 0] > 0.5) & (g[:, 1] > 0.5)
    keep = ~hi
    lo6 = np.where(hi & (g[:, 2] < 0.5))[0][:3]; lo7 = np.where(hi & (g[:, 2] > 0.5))[0][:4]
    keep[lo6] = True; keep[lo7] = True
    P = g[keep]
    for nt in (1, 4):
        set_number_of_threads(nt)
        pa = get_particle_array(name='a', x=P[:, 0], y=P[:, 1], z=P[:, 2], h=0.08)
        nn = nnps.OctreeNNPS(dim=3, particles=[pa], radius_scale=2.0)
        ind = LongArray(); nn.get_spatially_ordered_indices(0, ind)
        got = sorted(ind.get_npy_array().tolist())
        if got != list(range(len(P))):
            bad = dict(algorithm='OctreeNNPS', threads=nt, problem='spatially ordered indices are not a permutation', n=len(P),
                       missing=sorted(set(range(len(P))) - set(got))[:6]); break
set_number_of_threads(1)
print(json.dumps(dict(bad=bad)))
'''


def replay_oct_threads(model, ob):
    if os.environ.get('PYVC_NO_BUILD_REPLAY'):
        return dict(reproduced=False, note='build replay disabled')
    try:
        tree, msg = native.shared_build()
        if tree is None:
            return dict(reproduced=False, note=msg)
        r = native.run_venv(OCT_THREADS, dict(built=tree), timeout=900,
                            cwd='/tmp')
    except Exception as e:
        return dict(reproduced=False, note=str(e)[-300:])
    if r['bad']:
        return dict(reproduced=True, how='extensions built from the working '
                    'tree with OpenMP; octree classes under 1, 2 and 8 '
                    'threads against the definition', **r['bad'])
    return dict(reproduced=False)


# ----------------------------------------------------------------- pidspace
def task_cidspace(ctx, repo):
    """The z-order classes keep a cell id PER PARTICLE ID (cids[pid]) next to
    arrays in sorted-key order (pids[position], keys[position]): a per-array
    cell-id table (current_cids, current_cids_src/dst, iter_cids) is only
    ever indexed by a particle id -- a value read from a pids table, the
    destination index d_idx, or pids[...] itself -- never by a position in
    the sorted order (found_idx, a loop counter)."""
    m = repo.cython_module('pysph/base/z_order_nnps.pyx')
    obs = []
    nsub = 0
    tables = ('current_cids', 'current_cids_src', 'current_cids_dst',
              'iter_cids')
    for cname in sorted(m.classes):
        for fname, fn in sorted(m.methods(cname).items()):
            pid_names = {'d_idx'}
            for node in ast.walk(fn):
                if isinstance(node, ast.Assign) and len(node.targets) == 1 \
                        and isinstance(node.targets[0], ast.Name) and \
                        isinstance(node.value, ast.Subscript) and \
                        'pids' in ast.unparse(node.value.value):
                    pid_names.add(node.targets[0].id)
            bad = []
            for node in ast.walk(fn):
                if not isinstance(node, ast.Subscript):
                    continue
                base = ast.unparse(node.value)
                if base.replace('self.', '') not in tables:
                    continue
                nsub += 1
                ix = node.slice
                ok = (isinstance(ix, ast.Name) and ix.id in pid_names) or (
                    isinstance(ix, ast.Subscript) and
                    'pids' in ast.unparse(ix.value))
                if not ok:
                    bad.append('%s[%s] at line %d' % (
                        base, ast.unparse(ix), getattr(node, 'lineno', 0)))
            if any(isinstance(n_, ast.Subscript) and ast.unparse(
                    n_.value).replace('self.', '') in tables
                    for n_ in ast.walk(fn)):
                ctx.function(m, fn, '%s.%s' % (cname, fname))
                obs.append(Obligation('cidspace.%s.%s' % (cname, fname), [],
                                      z3.BoolVal(not bad), m.path,
                                      extra=dict(indexed_by_position=bad)))
    obs.append(Obligation('cidspace.tables_found', [],
                          z3.BoolVal(nsub >= 8), m.path,
                          extra=dict(subscripts=nsub)))
    ctx.prove('cidspace.cell_id_tables_are_indexed_by_particle_id',
              z3only(obs), use_nf=False,
              replay=replay_oracle(['hvar'], algs=['ExtendedZOrderNNPS',
                                                   'ZOrderNNPS'],
                                   caches=[False], history=False))


def task_pidspace(ctx, repo):
    """Octree builders and the octree query keep two index spaces apart: a
    POSITION in an index container (self.pids, an `indices` vector) and the
    PARTICLE ID stored there.  In every loop that translates its loop
    variable through such a container (q = container[p]), particle data
    (pointers taken from pa.<prop>.data / <wrapper>.<prop>.data) is indexed
    by the translated id, never by the position -- on every builder path,
    the serial one and the OpenMP ones (the latter only run with more than
    one thread, where the bounded oracle does not reach)."""
    obs = []
    nloops = 0
    for rel in (OCT_PYX, 'pysph/base/octree_nnps.pyx'):
        m = repo.cython_module(rel)
        W_ = m.path
        for cname, cnode in sorted(m.classes.items()):
            for fname, fn in sorted(m.methods(cname).items()):
                data_ptrs = set()
                for node in ast.walk(fn):
                    if isinstance(node, ast.Assign) and len(
                            node.targets) == 1 and isinstance(
                            node.targets[0], ast.Name) and isinstance(
                            node.value, ast.Attribute) and \
                            node.value.attr == 'data' and isinstance(
                                node.value.value, ast.Attribute) and \
                            node.value.value.attr in ('x', 'y', 'z', 'h',
                                                      'gid'):
                        data_ptrs.add(node.targets[0].id)
                if not data_ptrs:
                    continue
                used = False
                for loop in [n_ for n_ in ast.walk(fn)
                             if isinstance(n_, ast.For) and
                             isinstance(n_.target, ast.Name)]:
                    lv = loop.target.id
                    trans = []
                    for node in ast.walk(loop):
                        if isinstance(node, ast.Assign) and isinstance(
                                node.value, ast.Subscript) and isinstance(
                                node.value.slice, ast.Name) and \
                                node.value.slice.id == lv and \
                                ast.unparse(node.value.value) in (
                                    'p_indices', 'deref(indices)', 'indices',
                                    'self.pids', 'pids',
                                    'deref(p_indices)'):
                            trans.append(node)
                    if not trans:
                        continue
                    nloops += 1
                    used = True
                    bad = [ast.unparse(node) for node in ast.walk(loop)
                           if isinstance(node, ast.Subscript) and isinstance(
                               node.value, ast.Name) and
                           node.value.id in data_ptrs and isinstance(
                               node.slice, ast.Name) and node.slice.id == lv]
                    obs.append(Obligation(
                        'pidspace.%s.%s@%d' % (cname, fname, loop.lineno), [],
                        z3.BoolVal(not bad), W_,
                        extra=dict(position_used_as_particle_id=bad[:4])))
                if used:
                    ctx.function(m, fn, '%s.%s' % (cname, fname))
    obs.append(Obligation('pidspace.translating_loops_found', [],
                          z3.BoolVal(nloops >= 4), OCT_PYX,
                          extra=dict(loops=nloops)))
    ctx.prove('octree.particle_data_is_indexed_by_particle_id', obs,
              replay=replay_oct_threads)


# ----------------------------------------------------------------- sortkeys
SORT_SITES = [
    ('pysph/base/z_order_nnps.pyx', 'ZOrderNNPS', 'fill_array',
     'sort_wrapper.compare_sort()'),
    ('pysph/base/stratified_sfc_nnps.pyx', 'StratifiedSFCNNPS', 'fill_array',
     'sort_wrapper.compare_sort()'),
    ('pysph/base/cell_indexing_nnps.pyx', 'CellIndexingNNPS', 'fill_array',
     'sort('),
]


def task_sortkeys(ctx, repo):
    """The sorted-key classes (z-order, stratified SFC, cell indexing) find a
    cell by binary search / first-occurrence tables over the key array, which
    is only meaningful when the keys are sorted.  In each fill_array the sort
    is executed on EVERY path: the call is an unconditional top-level
    statement, after the loop that fills the keys and before the first
    statement that reads them back, with no return in between; the sort
    wrapper is built from the arrays and the count just filled."""
    obs = []
    for rel, cls, fname, call in SORT_SITES:
        m = repo.cython_module(rel)
        W_ = m.path
        try:
            fn = m.methods(cls)[fname]
        except KeyError:
            obs.append(Obligation('sortkeys.%s.present' % cls, [],
                                  z3.BoolVal(False), W_))
            continue
        ctx.function(m, fn, '%s.%s' % (cls, fname))
        top = list(fn.body)
        pos = [i for i, st_ in enumerate(top)
               if isinstance(st_, ast.Expr) and
               ast.unparse(st_).startswith(call)]
        nested = [n_ for n_ in ast.walk(fn) if isinstance(n_, ast.Expr) and
                  ast.unparse(n_).startswith(call)]
        ok = len(pos) == 1 and len(nested) == 1
        why = 'sort statements at top level: %d, in all: %d' % (len(pos),
                                                               len(nested))
        if ok:
            k = pos[0]
            before, after = top[:k], top[k + 1:]
            # the key-filling loop precedes it; nothing before it can leave
            # the function
            fills = [st_ for st_ in before if isinstance(st_, ast.For) and
                     'current_keys[' in ast.unparse(st_)]
            rets = [n_ for st_ in before for n_ in ast.walk(st_)
                    if isinstance(n_, (ast.Return, ast.Raise))]
            reads_before = [st_ for st_ in before
                            if not isinstance(st_, ast.For) and
                            'current_keys[' in ast.unparse(st_)]
            ok = len(fills) == 1 and not rets and not reads_before and \
                any('current_keys[' in ast.unparse(st_) for st_ in after)
            why = 'fill loops %d, returns before the sort %d, reads of the ' \
                'keys before the sort %d' % (len(fills), len(rets),
                                             len(reads_before))
            if ok and 'compare_sort' in call:
                mk = [st_ for st_ in before if isinstance(st_, ast.Assign)
                      and 'CompareSortWrapper(' in ast.unparse(st_)]
                ok = len(mk) == 1 and ast.unparse(mk[0].value) in (
                    'CompareSortWrapper(current_pids, current_keys, '
                    'curr_num_particles)',)
                why = 'wrapper %s' % ([ast.unparse(x) for x in mk],)
        obs.append(Obligation('sortkeys.%s.%s.sort_on_every_path' % (cls,
                                                                     fname),
                              [], z3.BoolVal(bool(ok)), W_,
                              extra=dict(why=why)))
    ctx.prove('sortkeys.keys_are_sorted_before_they_are_searched', obs,
              replay=replay_reorder_then_query)


REORDER_QUERY = r"""
import json, sys
d = json.load(sys.stdin)
if d.get('built'): sys.path.insert(0, d['built'])
import numpy as np
from pysph.base.utils import get_particle_array
from pysph.base import nnps
from cyarray.api import UIntArray
bad = None
for seed in (1, 2, 3):
    rng = np.random.RandomState(seed)
    for cls in ('ZOrderNNPS', 'ExtendedZOrderNNPS', 'StratifiedSFCNNPS', 'CellIndexingNNPS'):
        n = 400
        x, y = rng.rand(n), rng.rand(n)
        pa = get_particle_array(name='a', x=x, y=y, h=0.04)
        k = rng.randint(0, n - 40)
        pa.tag[k] = 2                       # exactly one ghost
        pa.align_particles()
        nn = getattr(nnps, cls)(dim=2, particles=[pa], radius_scale=2.0)
        for rnd in range(2):
            nn.spatially_order_particles(0)
            nn.update()
            X = pa.get('x', only_real_particles=False); Y = pa.get('y', only_real_particles=False)
            nb = UIntArray()
            for i in range(n):
                nn.get_nearest_particles(0, 0, i, nb)
                d2 = (X - X[i])**2 + (Y - Y[i])**2
                want = set(np.where(d2 < 0.08**2 * (1 - 1e-9))[0].tolist()); tie = set(np.where(np.abs(d2 - 0.08**2) <= 1e-9 * 0.08**2)[0].tolist())
                got = set(nb.get_npy_array().tolist())
                if (got ^ want) - tie:
                    bad = dict(algorithm=cls, seed=seed, round=rnd, particle=i, missing=sorted(want - got)[:6], extra=sorted(got - want - tie)[:6],
                               note='after spatially_order_particles + update, one ghost particle in the array'); break
            if bad: break
        if bad: break
    if bad: break
print(json.dumps(dict(bad=bad)))
"""


def replay_reorder_then_query(model, ob):
    if os.environ.get('PYVC_NO_BUILD_REPLAY'):
        return dict(reproduced=False, note='build replay disabled')
    try:
        tree, msg = native.shared_build()
        if tree is None:
            return dict(reproduced=False, note=msg)
        r = native.run_venv(REORDER_QUERY, dict(built=tree), timeout=900,
                            cwd='/tmp')
    except Exception as e:
        return dict(reproduced=False, note=str(e)[-300:])
    if r['bad']:
        return dict(reproduced=True, how='extensions built from the working '
                    'tree; re-order, update, query against the definition',
                    **r['bad'])
    return dict(reproduced=False)


# ----------------------------------------------------------------- eshreach
def task_eshreach(ctx, repo):
    """ExtendedSpatialHashNNPS._neighbor_boxes, for an arbitrary entry
    (s, t, u) of the offset mask: the sub-cell at the query's sub-cell +
    (s, t, u) is handed to the search iff its indices are non-negative, it
    is occupied, and max(|s|,|t|,|u|) <= ceil(R / h_sub) with
    R = radius_scale * max(h of the query, largest h in that sub-cell);
    glue lemma (reals + floor): a source particle of that sub-cell that must
    be found -- distance below radius_scale * max(h_query, h_source),
    h_source <= the sub-cell's h_max -- lies within that many sub-cells along
    every axis, so no box holding a true neighbour is pruned."""
    rel = 'pysph/base/spatial_hash_nnps.pyx'
    m = repo.cython_module(rel)
    W_ = m.path
    cls = 'ExtendedSpatialHashNNPS'
    fn = m.methods(cls)['_neighbor_boxes']
    i, j, k = z3.Int('ci'), z3.Int('cj'), z3.Int('ck')
    s_, t_, u_ = z3.Int('ms'), z3.Int('mt'), z3.Int('mu')
    h, rs, hsub, hmax = (z3.Real(x) for x in ('h_query', 'radius_scale',
                                               'h_sub', 'cell_h_max'))
    obs = []
    for occupied in (True, False):
        cell = SymObject(None, dict(h_max=hmax), 'cell') if occupied else None
        asked = []
        table = SymObject(None, dict(get=Native(
            lambda e, st, a, kw, nd: (asked.append(list(a)), cell)[1])),
            'current_hash')
        obj = SymObject(cls, dict(H=z3.Int('Hdiv'), approximate=False,
                                  current_hash=table, radius_scale=rs,
                                  h_sub=hsub), 'self')
        obj.module = m

        def mask_c(e, st, a, kw, nd):
            a[1][0], a[2][0], a[3][0] = s_, t_, u_
            return 1
        ex = Executor(repo, m, qualname=cls + '._neighbor_boxes',
                      merge=False, prune=True, contracts={
                          cls + '._h_mask_exact': CalleeContract(mask_c),
                          cls + '._h_mask_approx': CalleeContract(mask_c)})
        ex.spec_env['malloc'] = Native(lambda e, st, a, kw, nd: [None])
        ex.spec_env['free'] = Native(lambda e, st, a, kw, nd: None)
        ex.spec_env['sizeof_type'] = 4
        ex.spec_env['fmax'] = Native(lambda e, st, a, kw, nd: z3.If(
            S.to_real(a[0]) >= S.to_real(a[1]), S.to_real(a[0]),
            S.to_real(a[1])))

        ex.spec_env['fmin'] = Native(lambda e, st, a, kw, nd: z3.If(
            S.to_real(a[0]) <= S.to_real(a[1]), S.to_real(a[0]),
            S.to_real(a[1])))

        def ceil_c(e, st, a, kw, nd):
            c = S.fresh('ceil', 'int')
            v = S.to_real(a[0])
            st.pc.append(z3.And(z3.ToReal(c) - 1 < v, v <= z3.ToReal(c)))
            return c
        ex.spec_env['ceil'] = Native(ceil_c)
        out = [[z3.Int('x_out0')], [z3.Int('y_out0')], [z3.Int('z_out0')]]
        pre = [rs > 0, hsub > 0, h > 0, hmax > 0, i >= 0, j >= 0, k >= 0]
        try:
            outs = ex.exec_function(fn, dict(
                self=obj, i=i, j=j, k=k, x=out[0], y=out[1], z=out[2], h=h),
                State(pc=list(pre)))
        except VCError as e:
            ctx.outside('eshreach', str(e))
            return
        if occupied:
            ctx.function(m, fn, cls + '._neighbor_boxes', ex.dropped)
        R = rs * z3.If(hmax >= h, hmax, h)
        cR = z3.Int('ceil_R')
        cdef_ = z3.And(z3.ToReal(cR) - 1 < R / hsub, R / hsub <= z3.ToReal(cR))
        absv = lambda v: z3.If(v >= 0, v, -v)
        want = z3.And(i + s_ >= 0, j + t_ >= 0, k + u_ >= 0, absv(s_) <= cR,
                      absv(t_) <= cR, absv(u_) <= cR)
        for n_, o in enumerate(outs):
            ret = S.to_z3(o.value)
            if occupied:
                obs.append(Obligation('eshreach.kept_iff_within_reach.%d' % n_,
                                      o.pc + [cdef_], (ret == 1) == want, W_))
                obs.append(Obligation('eshreach.count.%d' % n_, o.pc,
                                      z3.Or(ret == 0, ret == 1), W_))
                fx, fy, fz = (o.state.env[a_][0] for a_ in 'xyz')
                obs.append(Obligation('eshreach.box.%d' % n_,
                                      o.pc + [ret == 1], z3.And(
                                          S.to_z3(fx) == i + s_,
                                          S.to_z3(fy) == j + t_,
                                          S.to_z3(fz) == k + u_), W_))
            else:
                obs.append(Obligation('eshreach.empty_cell_skipped.%d' % n_,
                                      o.pc, ret == 0, W_))
        if not outs:
            obs.append(Obligation('eshreach.nopath', [], z3.BoolVal(False),
                                  W_))
    # glue lemma, one axis: query coordinate xq in sub-cell cq, source
    # coordinate xs in sub-cell cs (floor of coordinate / h_sub)
    xq, xs, hs = z3.Real('xq'), z3.Real('xs'), z3.Real('h_source')
    cq, cs = z3.Int('cq'), z3.Int('cs')
    cR = z3.Int('ceil_R')
    R = rs * z3.If(hmax >= h, hmax, h)
    hyp = [rs > 0, hsub > 0, h > 0, hs > 0, hs <= hmax,
           z3.ToReal(cq) * hsub <= xq, xq < (z3.ToReal(cq) + 1) * hsub,
           z3.ToReal(cs) * hsub <= xs, xs < (z3.ToReal(cs) + 1) * hsub,
           z3.ToReal(cR) - 1 < R / hsub, R / hsub <= z3.ToReal(cR),
           z3.Or(z3.And(xs - xq < rs * h, xq - xs < rs * h),
                 z3.And(xs - xq < rs * hs, xq - xs < rs * hs))]
    obs.append(Obligation('eshreach.lemma.true_neighbour_is_within_reach',
                          hyp, z3.And(cs - cq <= cR, cq - cs <= cR), W_))
    ctx.prove('eshreach.no_box_with_a_true_neighbour_is_pruned',
              z3only(obs, 60000), use_nf=False,
              replay=replay_oracle(['hvar', 'hdiff'], algs=(
                  'ExtendedSpatialHashNNPS',), knobs=True))


# ------------------------------------------------------------------ boxes27
def task_boxes27(ctx, repo):
    """SpatialHashNNPS / CellIndexingNNPS._neighbor_boxes(i, j, k, x, y, z):
    the cells handed to the search are exactly the (up to 27) cells
    (i+a, j+b, k+c), a, b, c in {-1, 0, 1}, with non-negative indices, each
    once, written to the same slot of x, y and z; the count returned is
    their number, for every cell index (per axis: 0 or any index >= 1).
    (With the stencil lemma: a true neighbour is at most one cell away along
    every axis.)"""
    obs = []
    for rel, cls in (('pysph/base/spatial_hash_nnps.pyx', 'SpatialHashNNPS'),
                     (CI_PYX, 'CellIndexingNNPS')):
        m = repo.cython_module(rel)
        W_ = m.path
        fn = m.methods(cls)['_neighbor_boxes']
        ci, cj, ck = z3.Int('ci'), z3.Int('cj'), z3.Int('ck')
        for pat in [(a, b, c) for a in (0, 1) for b in (0, 1)
                    for c in (0, 1)]:
            # per axis: the cell index is 0 (boundary) or any index >= 1
            pre = [(v == 0) if bit == 0 else (v >= 1)
                   for v, bit in zip((ci, cj, ck), pat)]
            X, Y, Z = [None] * 27, [None] * 27, [None] * 27
            obj = SymObject(cls, {}, 'self')
            obj.module = m
            ex = Executor(repo, m, qualname=cls + '._neighbor_boxes',
                          merge=False, prune=True)
            try:
                outs = ex.exec_function(fn, dict(self=obj, i=ci, j=cj, k=ck,
                                                 x=X, y=Y, z=Z),
                                        State(pc=list(pre)))
            except VCError as e:
                ctx.outside('boxes27.%s' % cls, str(e))
                break
            offs = [(a, b, c) for a in (-1, 0, 1) for b in (-1, 0, 1)
                    for c in (-1, 0, 1)
                    if (pat[0] or a >= 0) and (pat[1] or b >= 0) and
                    (pat[2] or c >= 0)]
            tag = 'boxes27.%s.%s' % (cls, ''.join('0' if b_ == 0 else 'p'
                                                   for b_ in pat))
            if len(outs) != 1 or not isinstance(outs[0].value, int):
                obs.append(Obligation(tag + '.one_path', [],
                                      z3.BoolVal(False), W_))
                continue
            o = outs[0]
            n_ = o.value
            xs, ys, zs = (o.state.env[a_] for a_ in 'xyz')
            obs.append(Obligation(tag + '.count', [], z3.BoolVal(
                n_ == len(offs) and all(v is None for v in xs[n_:])), W_,
                extra=dict(returned=n_, expected=len(offs))))
            if n_ != len(offs):
                continue
            got = [(S.to_z3(xs[q]), S.to_z3(ys[q]), S.to_z3(zs[q]))
                   for q in range(n_)]
            goals = []
            for g in got:
                goals.append(z3.Or(*[z3.And(g[0] == ci + a, g[1] == cj + b,
                                            g[2] == ck + c)
                                     for (a, b, c) in offs]))
            for q1 in range(n_):
                for q2 in range(q1 + 1, n_):
                    goals.append(z3.Or(got[q1][0] != got[q2][0],
                                       got[q1][1] != got[q2][1],
                                       got[q1][2] != got[q2][2]))
            obs.append(Obligation(tag + '.exactly_the_adjacent_cells', o.pc,
                                  z3.And(*goals), W_))
        else:
            ctx.function(m, fn, cls + '._neighbor_boxes')
    ctx.prove('boxes27.exactly_the_adjacent_cells', z3only(obs),
              use_nf=False)


# ----------------------------------------------------------------- sentinel
def task_sentinel(ctx, repo):
    """The z-order / stratified-SFC tables mark "no such cell" by -1
    (key_to_idx and nbr_boxes are filled with -1 on refresh; index 0 is the
    first, lowest-key cell and perfectly valid).  Every test of a table
    lookup result (`found_idx`, `start_idx`) compares it with that marker
    only: `== -1`, `!= -1` or `< 0` -- never `> 0`, `>= 1`, truthiness."""
    obs = []
    nsites = 0
    for rel in ('pysph/base/z_order_nnps.pyx',
                'pysph/base/stratified_sfc_nnps.pyx'):
        m = repo.cython_module(rel)
        W_ = m.path
        # the marker the tables are initialised with
        # initialising loops:  for v in range(..): table[v] = <constant>
        inits = []
        for cn in m.classes:
            for f in m.methods(cn).values():
                for lp in ast.walk(f):
                    if isinstance(lp, ast.For) and isinstance(
                            lp.target, ast.Name) and len(lp.body) == 1 and \
                            isinstance(lp.body[0], ast.Assign):
                        a_ = lp.body[0]
                        t_ = a_.targets[0]
                        if isinstance(t_, ast.Subscript) and isinstance(
                                t_.slice, ast.Name) and \
                                t_.slice.id == lp.target.id and \
                                ast.unparse(t_.value).replace(
                                    'deref(', '').rstrip(')') in (
                                    'current_key_to_idx',
                                    'current_nbr_boxes'):
                            inits.append(ast.unparse(a_.value))
        obs.append(Obligation('sentinel.%s.tables_start_at_minus_one' %
                              rel.split('/')[-1], [], z3.BoolVal(
                                  bool(inits) and set(inits) == {'-1'}), W_,
                              extra=dict(initialisers=str(inits)[:200])))
        for cn in sorted(m.classes):
            for fname, fn in sorted(m.methods(cn).items()):
                bad, n_here = [], 0
                for node in ast.walk(fn):
                    # bare truth tests
                    if isinstance(node, (ast.If, ast.While, ast.IfExp)) and \
                            isinstance(node.test, ast.Name) and \
                            node.test.id in ('found_idx', 'start_idx'):
                        bad.append(ast.unparse(node.test))
                    if not isinstance(node, ast.Compare):
                        continue
                    names = [x.id for x in [node.left] + node.comparators
                             if isinstance(x, ast.Name)]
                    if not any(n_ in ('found_idx', 'start_idx')
                               for n_ in names):
                        continue
                    n_here += 1
                    txt = ast.unparse(node).replace(' ', '')
                    if txt not in ('found_idx!=-1', 'found_idx==-1',
                                   'start_idx<0', 'start_idx==-1',
                                   'start_idx!=-1', 'found_idx<0',
                                   'found_idx>=0', 'start_idx>=0'):
                        bad.append(ast.unparse(node))
                if n_here or bad:
                    nsites += n_here
                    ctx.function(m, fn, '%s.%s' % (cn, fname))
                    obs.append(Obligation(
                        'sentinel.%s.%s' % (cn, fname), [],
                        z3.BoolVal(not bad), W_,
                        extra=dict(tests_against_something_else=bad[:4])))
    obs.append(Obligation('sentinel.sites_found', [],
                          z3.BoolVal(nsites >= 6), 'lookup tests',
                          extra=dict(sites=nsites)))
    ctx.prove('sentinel.lookups_are_tested_against_the_empty_marker', obs)


# ----------------------------------------------------------------- sortnbrs
class _CppVector(object):
    """std::vector with value semantics for its elements"""

    def __init__(self, name):
        self.name, self.items = name, []

    def vc_clone(self, memo, _c=None):
        if id(self) in memo:
            return memo[id(self)]
        c = _CppVector(self.name)
        c.items = [(_copy_pair(x) if isinstance(x, SymObject) else x)
                   for x in self.items]
        memo[id(self)] = c
        return c

    def vc_getattr(self, a, ex, st, node):
        if a == 'resize':
            def rs(e, s_, ar, kw, nd):
                if not isinstance(ar[0], int):
                    raise VCError('vector.resize(symbolic)')
                self.items = [None] * ar[0]
            return Native(rs)
        if a in ('begin', 'end'):
            return Native(lambda e, s_, ar, kw, nd: ('iter', self, a))
        raise VCError('vector.%s' % a)

    def vc_getitem(self, idx, ex, st, node):
        if not isinstance(idx, int) or not 0 <= idx < len(self.items):
            raise VCError('vector index')
        if self.items[idx] is None:
            raise VCError('read of an unset vector element')
        return self.items[idx]

    def vc_setitem(self, idx, v, ex, st, node):
        if not isinstance(idx, int) or not 0 <= idx < len(self.items):
            raise VCError('vector index')
        self.items[idx] = _copy_pair(v) if isinstance(v, SymObject) else v


def _copy_pair(p):
    return SymObject(None, dict(p.attrs), p.name)


def task_sortnbrs(ctx, repo):
    """NNPS._sort_neighbors(nbrs, length, gids), the shared sort_gids helper,
    for segments of length 0..3 (std::sort assumed to return a permutation
    ordered by the comparison): afterwards nbrs[0:length] is a permutation of
    the LOCAL INDICES it held before, in increasing index order when the
    array has no global ids (gids[0] == UINT_MAX) and in non-decreasing gid
    order otherwise; nothing beyond the segment is written."""
    import itertools
    m = repo.cython_module(NB)
    W_ = m.path
    fn = m.methods('NNPS')['_sort_neighbors']
    ctx.function(m, fn, 'NNPS._sort_neighbors')
    G = z3.Function('gid_of', z3.IntSort(), z3.IntSort())
    obs = []
    for L in (0, 1, 2, 3):
        for has_gids in (False, True):
            nb0 = [z3.Int('nbr%d' % q) for q in range(L)] + [z3.Int('guard')]
            nbrs = list(nb0)

            class Gids(object):
                def vc_getitem(self, idx, ex, st, node):
                    return G(S.to_z3(idx))

                def vc_clone(self, memo, _c=None):
                    return self
            ids, data = _CppVector('_ids'), _CppVector('_data')
            entry = SymObject(None, dict(first=None, second=None), '_entry')
            fresh = []

            def sort_c(e, st, a, kw, nd):
                vec = a[0][1]
                old = list(vec.items)
                n_ = len(old)
                by_gid = len(a) > 2
                new = []
                for q in range(n_):
                    if by_gid:
                        o_ = SymObject(None, dict(
                            first=z3.Int('s_first%d' % q),
                            second=z3.Int('s_second%d' % q)), 'sorted')
                    else:
                        o_ = z3.Int('s_id%d' % q)
                    new.append(o_)
                # a permutation of the old elements ...
                alts = []
                for perm in itertools.permutations(range(n_)):
                    c = []
                    for q, r in enumerate(perm):
                        if by_gid:
                            c += [new[q].attrs['first'] ==
                                  S.to_z3(old[r].attrs['first']),
                                  new[q].attrs['second'] ==
                                  S.to_z3(old[r].attrs['second'])]
                        else:
                            c.append(new[q] == S.to_z3(old[r]))
                    alts.append(z3.And(*c) if c else z3.BoolVal(True))
                st.pc.append(z3.Or(*alts))
                # ... in non-decreasing order of the key
                for q in range(n_ - 1):
                    if by_gid:
                        st.pc.append(new[q].attrs['second'] <=
                                     new[q + 1].attrs['second'])
                    else:
                        st.pc.append(new[q] <= new[q + 1])
                vec.items = new
            ex = Executor(repo, m, qualname='NNPS._sort_neighbors',
                          merge=False, prune=True)
            ex.spec_env.update(_ids=ids, _data=data, _entry=entry,
                               UINT_MAX=UINT_MAX, sort=Native(sort_c),
                               _compare_gids='cmp',
                               addr_of=Native(lambda e, st, a, kw, nd: a[0]))
            obj = SymObject('NNPS', {}, 'self')
            obj.module = m
            pre = [(G(0) != UINT_MAX) if has_gids else (G(0) == UINT_MAX)]
            try:
                outs = ex.exec_function(fn, dict(self=obj, nbrs=nbrs,
                                                 length=L, gids=Gids()),
                                        State(pc=pre))
            except VCError as e:
                ctx.outside('sortnbrs', str(e))
                return
            tag = 'sortnbrs.len%d.%s' % (L, 'gids' if has_gids else 'nogids')
            if not outs:
                obs.append(Obligation(tag + '.nopath', [], z3.BoolVal(False),
                                      W_))
            for q_, o in enumerate(outs):
                fin = o.state.env['nbrs']
                fz = [S.to_z3(v) for v in fin]
                perm_ok = z3.Or(*[z3.And(*[fz[q] == nb0[r]
                                          for q, r in enumerate(perm)])
                                  if L else z3.BoolVal(True)
                                  for perm in itertools.permutations(
                                      range(L))])
                if has_gids:
                    order = z3.And(*[G(fz[q]) <= G(fz[q + 1])
                                     for q in range(L - 1)]) if L > 1 else \
                        z3.BoolVal(True)
                else:
                    order = z3.And(*[fz[q] <= fz[q + 1]
                                     for q in range(L - 1)]) if L > 1 else \
                        z3.BoolVal(True)
                obs.append(Obligation('%s.%d' % (tag, q_), o.pc, z3.And(
                    perm_ok, order, fz[L] == nb0[L]), W_))
    ctx.prove('sortnbrs.segment_is_permuted_into_gid_order', z3only(obs),
              use_nf=False, replay=replay_sorted_gids)


SORTED_GIDS = r"""
import json, sys
d = json.load(sys.stdin)
if d.get('built'): sys.path.insert(0, d['built'])
import numpy as np
from pysph.base.utils import get_particle_array
from pysph.base import nnps
from cyarray.api import UIntArray
rng = np.random.RandomState(2)
bad = None
n = 80
for cls in ('LinkedListNNPS', 'SpatialHashNNPS', 'OctreeNNPS', 'CellIndexingNNPS'):
    for cache in (False, True):
        x, y = rng.rand(n), rng.rand(n)
        pa = get_particle_array(name='a', x=x, y=y, h=0.12)
        pa.gid[:] = 1000 + rng.permutation(n)          # a real global numbering, different from the local index
        nn = getattr(nnps, cls)(dim=2, particles=[pa], sort_gids=True, cache=cache)
        nb = UIntArray()
        for i in range(n):
            nn.get_nearest_particles(0, 0, i, nb)
            ids = nb.get_npy_array().tolist()
            d2 = (x - x[i])**2 + (y - y[i])**2
            want = set(np.where(d2 < 0.24**2)[0].tolist())
            if set(ids) != want or any(j >= n for j in ids):
                bad = dict(algorithm=cls, cache=cache, particle=i, returned=ids[:10], expected_set=sorted(want)[:10], note='gids 1000..1079: the list must hold local indices'); break
            g = pa.gid[ids].astype(np.int64)
            if not np.all(np.diff(g) >= 0):
                bad = dict(algorithm=cls, cache=cache, particle=i, gids_of_returned=g.tolist()[:10]); break
        if bad: break
    if bad: break
print(json.dumps(dict(bad=bad)))
"""


def replay_sorted_gids(model, ob):
    if os.environ.get('PYVC_NO_BUILD_REPLAY'):
        return dict(reproduced=False, note='build replay disabled')
    try:
        tree, msg = native.shared_build()
        if tree is None:
            return dict(reproduced=False, note=msg)
        r = native.run_venv(SORTED_GIDS, dict(built=tree), timeout=900,
                            cwd='/tmp')
    except Exception as e:
        return dict(reproduced=False, note=str(e)[-300:])
    if r['bad']:
        return dict(reproduced=True, how='extensions built from the working '
                    'tree; sort_gids=True with real global ids', **r['bad'])
    return dict(reproduced=False)


# ------------------------------------------------------------------ shreach
def task_shreach(ctx, repo):
    """StratifiedHashNNPS.find_nearest_neighbors, per level: the cells of a
    level have size hmax_level / self.H (the size handed to
    find_cell_id_raw), and the number of cell layers searched around the
    query's cell, times that size, covers the needed radius
    max(radius_scale * h_query, hmax_level):
          layers * (hmax_level / H) >= max(radius_scale*h, hmax_level)
    (abstracting executor: loops cut, the calls are observed on every
    path)."""
    from pyvc.abstract import AbstractExecutor
    from pyvc.symexec import _FuncRef
    rel = 'pysph/base/stratified_hash_nnps.pyx'
    m = repo.cython_module(rel)
    pxd = repo.cython_module(PXD)
    W_ = m.path
    cls = 'StratifiedHashNNPS'
    fn = m.methods(cls)['find_nearest_neighbors']
    n = [z3.Int('n0'), z3.Int('n1')]
    ws = wrappers(n)
    for w in ws:
        w.attrs['gid'] = C17.carr('gid')
    events = []
    nbrs = NbrsModel(events)
    cells_seen, boxes_seen = [], []
    hmax_level = z3.Real('hmax_level')
    Hdiv = z3.Int('H_subdivision')
    rs = z3.Real('rs')
    level = SymObject(None, dict(
        number_of_particles=Native(lambda e, st, a, k, nd: z3.Int('n_lvl')),
        get=Native(lambda e, st, a, k, nd: None)), 'hash_level')

    class Levels(object):
        def vc_getitem(self, idx, ex, st, node):
            return level

        def vc_clone(self, memo, _c=None):
            return self
    obj = SymObject(cls, dict(
        src=ws[1], dst=ws[0], pa_wrappers=ws, radius_scale=rs,
        radius_scale2=z3.Real('rs2'), sort_gids=False, src_index=1,
        dst_index=0, num_levels=z3.Int('num_levels'), H=Hdiv,
        current_hash=Levels(), current_cells=('cells',),
        xmin=C17.carr('xmin', length=z3.IntVal(3), elem='real')), 'self')
    obj.module = m
    obj.attrs['_get_h_max'] = Native(lambda e, st, a, k, nd: hmax_level)

    def nb(e, st, a, k, nd):
        boxes_seen.append((list(st.pc), a[-1]))
        return z3.Int('num_boxes')
    obj.attrs['_neighbor_boxes'] = Native(nb)

    def cellid(e, st, a, k, nd):
        cells_seen.append((list(st.pc), a[3]))
        for b in a[4:7]:
            if isinstance(b, list):
                b[0] = S.fresh('cell', 'int')
    ex = AbstractExecutor(repo, m, qualname=cls + '.find_nearest_neighbors',
                          int_names=index_names(fn), inline=set())
    ex.spec_env['UINT_MAX'] = UINT_MAX
    ex.spec_env['norm2'] = _FuncRef(pxd, pxd.functions['norm2'])
    ex.spec_env['find_cell_id_raw'] = Native(cellid)
    ex.spec_env['fmax'] = Native(lambda e, st, a, k, nd: z3.If(
        S.to_real(a[0]) >= S.to_real(a[1]), S.to_real(a[0]),
        S.to_real(a[1])))

    def ceil_c(e, st, a, k, nd):
        c = S.fresh('ceil', 'int')
        v = S.to_real(a[0])
        st.pc.append(z3.And(z3.ToReal(c) - 1 < v, v <= z3.ToReal(c)))
        return c
    ex.spec_env['ceil'] = Native(ceil_c)
    ex.spec_env['malloc'] = Native(lambda e, st, a, k, nd: ('buffer',))
    ex.spec_env['free'] = Native(lambda e, st, a, k, nd: None)
    ex.spec_env['sizeof_type'] = 4
    try:
        ex.exec_function(fn, dict(self=obj, nbrs=nbrs, d_idx=z3.Int('d_idx')),
                         State(pc=[hmax_level > 0, Hdiv >= 1, rs > 0]))
    except VCError as e:
        ctx.outside('shreach', str(e))
        return
    ctx.function(m, fn, cls + '.find_nearest_neighbors (reach per level)',
                 set('abstracted: ' + a_ for a_ in ex.abstracted[:20]))
    obs = [Obligation('shreach.calls_observed', [], z3.BoolVal(
        len(cells_seen) >= 1 and len(boxes_seen) >= 1), W_)]
    hq = None
    for pc_, csz in cells_seen:
        obs.append(Obligation('shreach.cell_size_of_the_level', pc_ + [
            hmax_level > 0, Hdiv >= 1], S.to_real(csz) == hmax_level /
            z3.ToReal(Hdiv), W_))
    hsym = z3.Real('h_query_any')
    for q, (pc_, layers) in enumerate(boxes_seen):
        # radius_scale*h of the query: whatever real the code read into `h`
        # -- the obligation must hold for the value on the path; the path
        # condition ties `layers` to it through the ceil model
        lay = S.to_real(layers)
        goal = z3.And(lay * (hmax_level / z3.ToReal(Hdiv)) >= hmax_level)
        obs.append(Obligation('shreach.layers_cover_the_level_radius.%d' % q,
                              pc_ + [hmax_level > 0, Hdiv >= 1], goal, W_))
        # and the query's own radius: find the fmax term in the path
        # condition's ceil constraint
        terms = []
        for c_ in pc_:
            for t_ in _subterms_z3(c_):
                if z3.is_app(t_) and t_.decl().kind() == z3.Z3_OP_ITE:
                    terms.append(t_)
        ok_r = bool(terms)
        obs.append(Obligation('shreach.radius_term_found.%d' % q, [],
                              z3.BoolVal(ok_r), W_))
        for t_ in terms[:1]:
            obs.append(Obligation(
                'shreach.layers_cover_the_needed_radius.%d' % q,
                pc_ + [hmax_level > 0, Hdiv >= 1],
                lay * (hmax_level / z3.ToReal(Hdiv)) >= t_, W_))
    ctx.prove('shreach.layers_searched_cover_the_search_radius',
              z3only(obs, 60000), use_nf=False,
              replay=replay_oracle(['hvar', 'hdiff'], algs=(
                  'StratifiedHashNNPS',), knobs=True))


def _subterms_z3(t, seen=None):
    seen = set() if seen is None else seen
    if t.get_id() in seen:
        return
    seen.add(t.get_id())
    yield t
    for c in t.children():
        for x in _subterms_z3(c, seen):
            yield x


# ---------------------------------------------------------------- pidslices
def task_pidslices(ctx, repo):
    """Parallel octree build, first level (_c_build_tree_level1 of Octree and
    CompressedOctree): one pass of the child-creation loop for an arbitrary
    octant.  A non-empty octant gets the slice [c, c + count) of self.pids:
    start_index = c, num_particles = count, the write cursor of the octant
    becomes c, and c advances by count ON EVERY PATH (leaf child or not), so
    the slices of the children are disjoint and contiguous; an empty octant
    changes nothing."""
    m = repo.cython_module(OCT_PYX)
    W_ = m.path
    obs = []
    for cname in ('Octree', 'CompressedOctree'):
        fn = m.methods(cname).get('_c_build_tree_level1')
        if fn is None:
            obs.append(Obligation('pidslices.%s.present' % cname, [],
                                  z3.BoolVal(False), W_))
            continue
        # the innermost loop whose body assigns new_node.start_index
        body = None
        for lp in ast.walk(fn):
            if isinstance(lp, ast.For) and any(
                    isinstance(st_, ast.Assign) and
                    ast.unparse(st_.targets[0]) == 'new_node.start_index'
                    for st_ in lp.body):
                body = lp.body
        if body is None:
            obs.append(Obligation('pidslices.%s.loop_found' % cname, [],
                                  z3.BoolVal(False), W_))
            continue
        ctx.function(m, fn, '%s._c_build_tree_level1 (child-creation pass)'
                     % cname)
        for (i, j, k) in [(a, b, c_) for a in (0, 1) for b in (0, 1)
                          for c_ in (0, 1)]:
            oct_id = k + 2 * j + 4 * i
            count0 = [z3.Int('count%d' % q) for q in range(8)]
            c0 = z3.Int('c_cursor')
            made = []

            def new_node(e, st, a, kw, nd):
                nn = SymObject(None, dict(start_index=None,
                                          num_particles=None, is_leaf=False,
                                          xmin=[None] * 3, xmax=[None] * 3),
                               'new_node%d' % len(made))
                made.append(nn)
                return nn
            pushed = []
            me = SymObject(cname, dict(
                leaf_max_particles=z3.Int('leaf_max'),
                _new_node=Native(new_node),
                _get_eps=Native(lambda e, st, a, kw, nd: z3.Real('eps_new'))),
                'self')
            me.module = m
            node = SymObject(None, dict(children=[None] * 8), 'node')
            env = dict(
                self=me, i=i, j=j, k=k, c=c0, count=list(count0), node=node,
                xmin=[z3.Real('xmin%d' % q) for q in range(3)],
                xmin_new=[None] * 3 if cname == 'Octree' else [
                    [z3.Real('xmn%d_%d' % (q, r)) for r in range(3)]
                    for q in range(8)],
                xmax_new=[[z3.Real('xMn%d_%d' % (q, r)) for r in range(3)]
                          for q in range(8)],
                eps=z3.Real('eps'),
                length=z3.Real('length'), length_padded=z3.Real('lpad'),
                hmax_children=[z3.Real('hmaxc%d' % q) for q in range(8)],
                next_level_nodes=SymObject(None, dict(push_back=Native(
                    lambda e, st, a, kw, nd: pushed.append(a[0]))), 'next'),
                # CompressedOctree keeps the tight boxes of the children
                xmin_children=[[z3.Real('xmc%d_%d' % (q, r)) for r in
                                range(3)] for q in range(8)],
                xmax_children=[[z3.Real('xMc%d_%d' % (q, r)) for r in
                                range(3)] for q in range(8)],
                xmin_current=[z3.Real('xcur%d' % q) for q in range(3)],
                xmax_current=[z3.Real('xCur%d' % q) for q in range(3)],
                length_current=z3.Real('lcur'), oct_id=oct_id, new_node=None,
                eps_new=None, depth_child=z3.Int('depth_child'),
                num_threads=z3.Int('nthr'))
            ex = Executor(repo, m, qualname='%s._c_build_tree_level1' % cname,
                          merge=False, prune=True)
            ex.spec_env['EPS_MAX'] = z3.Real('EPS_MAX')
            ex.spec_env['fmax'] = Native(lambda e, st, a, kw, nd: z3.If(
                S.to_real(a[0]) >= S.to_real(a[1]), S.to_real(a[0]),
                S.to_real(a[1])))
            st0 = State(pc=[c0 >= 0] + [q >= 0 for q in count0])
            st0.env = env
            try:
                ends = ex.exec_block(body, st0)
            except VCError as e:
                ctx.outside('pidslices.%s' % cname, str(e))
                break
            tag = 'pidslices.%s.oct%d' % (cname, oct_id)
            if not ends:
                obs.append(Obligation(tag + '.nopath', [], z3.BoolVal(False),
                                      W_))
            for q, (s1, sig) in enumerate(ends):
                e1 = s1.env
                cnew = S.to_z3(e1['c'])
                nn = e1.get('new_node')
                if nn is None:
                    # the empty octant: nothing changes
                    obs.append(Obligation('%s.%d.empty_octant' % (tag, q),
                                          s1.pc, z3.And(
                                              count0[oct_id] == 0,
                                              cnew == c0), W_))
                    continue
                g = [count0[oct_id] != 0,
                     S.to_z3(nn.attrs['start_index']) == c0,
                     S.to_z3(nn.attrs['num_particles']) == count0[oct_id],
                     S.to_z3(e1['count'][oct_id]) == c0,
                     cnew == c0 + count0[oct_id],
                     z3.BoolVal(e1['node'].attrs['children'][oct_id] is nn)]
                g += [S.to_z3(e1['count'][r]) == count0[r]
                      for r in range(8) if r != oct_id]
                obs.append(Obligation('%s.%d.slice' % (tag, q), s1.pc,
                                      z3.And(*g), W_))
    ctx.prove('pidslices.children_get_disjoint_contiguous_slices',
              z3only(obs), use_nf=False, replay=replay_oct_threads)


# -------------------------------------------------------------- stalecount
NNPS_FILES = ['pysph/base/nnps_base.pyx', LL, 'pysph/base/box_sort_nnps.pyx',
              'pysph/base/spatial_hash_nnps.pyx', CI_PYX,
              'pysph/base/z_order_nnps.pyx',
              'pysph/base/stratified_hash_nnps.pyx',
              'pysph/base/stratified_sfc_nnps.pyx',
              'pysph/base/octree_nnps.pyx', OCT_PYX]


def task_stalecount(ctx, repo):
    """NNPSParticleArrayWrapper.np is the particle count AT CONSTRUCTION of
    the wrapper (set once in __init__, never refreshed); particles are added
    and removed afterwards (inlets, ghosts).  No function of the neighbour
    search reads it: every scan over an array takes its bound from
    get_number_of_particles() or from the length of the array it scans."""
    obs = []
    m0 = repo.cython_module(NB)
    init = m0.methods('NNPSParticleArrayWrapper')['__init__']
    sets = [ast.unparse(n_) for n_ in ast.walk(init)
            if isinstance(n_, ast.Assign) and
            ast.unparse(n_.targets[0]) == 'self.np']
    obs.append(Obligation('stalecount.np_is_set_once_at_construction', [],
                          z3.BoolVal(sets == [
                              'self.np = pa.get_number_of_particles()']),
                          m0.path, extra=dict(assignments=sets)))
    ctx.function(m0, init, 'NNPSParticleArrayWrapper.__init__')
    reads = []
    nfun = 0
    for rel in NNPS_FILES:
        m = repo.cython_module(rel)
        for cn in m.classes:
            for fname, fn in m.methods(cn).items():
                nfun += 1
                for n_ in ast.walk(fn):
                    if isinstance(n_, ast.Attribute) and n_.attr == 'np' \
                            and isinstance(n_.ctx, ast.Load) and not (
                                isinstance(n_.value, ast.Name) and
                                n_.value.id in ('numpy',)):
                        reads.append('%s:%s.%s: %s' % (
                            rel.split('/')[-1], cn, fname, ast.unparse(n_)))
    obs.append(Obligation('stalecount.nobody_reads_the_construction_count',
                          [], z3.BoolVal(not reads and nfun > 100), NB,
                          extra=dict(reads=reads[:5], functions=nfun)))
    ctx.prove('stalecount.scans_use_the_current_particle_count', obs,
              replay=replay_added_particles)


ADDED = r"""
import json, sys
d = json.load(sys.stdin)
if d.get('built'): sys.path.insert(0, d['built'])
import numpy as np
from pysph.base.utils import get_particle_array
from pysph.base import nnps
from cyarray.api import UIntArray
bad = None
for cls in ('LinkedListNNPS', 'BoxSortNNPS', 'SpatialHashNNPS', 'CellIndexingNNPS', 'OctreeNNPS'):
    for dim in (1, 2):
        for cache in (False, True):
            x0 = np.arange(0.05, 1.0, 0.1)
            if dim == 2:
                X, Y = np.meshgrid(x0, x0); X, Y = X.ravel(), Y.ravel()
            else:
                X, Y = x0, np.zeros_like(x0)
            pa = get_particle_array(name='a', x=X, y=Y, h=0.11)
            nn = getattr(nnps, cls)(dim=dim, particles=[pa], radius_scale=2.0, cache=cache)
            # an inlet appends four layers into cells that were empty
            for layer in range(4):
                xs = np.full_like(x0, 1.05 + 0.1 * layer) if dim == 2 else np.array([1.05 + 0.1 * layer])
                ys = x0 if dim == 2 else np.zeros(1)
                pa.add_particles(x=xs, y=ys, h=np.full_like(xs, 0.11))
                nn.update_domain(); nn.update()
            xa = pa.get('x', only_real_particles=False); ya = pa.get('y', only_real_particles=False)
            nb = UIntArray()
            for i in range(len(xa)):
                nn.get_nearest_particles(0, 0, i, nb)
                got = nb.get_npy_array().tolist()
                d2 = (xa - xa[i])**2 + (ya - ya[i])**2
                want = set(np.where(d2 < 0.22**2 * (1 - 1e-9))[0].tolist()); tie = set(np.where(np.abs(d2 - 0.22**2) <= 1e-9 * 0.22**2)[0].tolist())
                if len(got) != len(set(got)) or (set(got) ^ want) - tie:
                    bad = dict(algorithm=cls, dim=dim, cache=cache, particle=i, returned=sorted(got)[:12], expected=sorted(want)[:12],
                               note='particles were appended after the NNPS was constructed'); break
            if bad: break
        if bad: break
    if bad: break
print(json.dumps(dict(bad=bad)))
"""


def replay_added_particles(model, ob):
    if os.environ.get('PYVC_NO_BUILD_REPLAY'):
        return dict(reproduced=False, note='build replay disabled')
    try:
        tree, msg = native.shared_build()
        if tree is None:
            return dict(reproduced=False, note=msg)
        r = native.run_venv(ADDED, dict(built=tree), timeout=900, cwd='/tmp')
    except Exception as e:
        return dict(reproduced=False, note=str(e)[-300:])
    if r['bad']:
        return dict(reproduced=True, how='extensions built from the working '
                    'tree; particles appended after construction', **r['bad'])
    return dict(reproduced=False)


# ------------------------------------------------------------------ context
class Elem(object):
    """self.<table>[index](.attr)* -- the per-array structure of a class"""

    def __init__(self, table, index, path=()):
        self.table, self.index, self.path = table, index, tuple(path)

    def vc_getattr(self, a, ex, st, node):
        return Elem(self.table, self.index, self.path + (a,))

    def vc_clone(self, memo, _c=None):
        return self


class Table(object):
    def __init__(self, name):
        self.name = name

    def vc_getitem(self, idx, ex, st, node):
        return Elem(self.name, idx)

    def vc_clone(self, memo, _c=None):
        return self


class OptCtx(object):
    """self.current_cache: None until NNPSBase.set_context ran"""

    def __init__(self, is_none):
        self.is_none = is_none

    def vc_clone(self, memo, _c=None):
        return self


CONTEXT_CLASSES = [
    ('pysph/base/linked_list_nnps.pyx', 'LinkedListNNPS'),
    ('pysph/base/spatial_hash_nnps.pyx', 'SpatialHashNNPS'),
    ('pysph/base/spatial_hash_nnps.pyx', 'ExtendedSpatialHashNNPS'),
    ('pysph/base/cell_indexing_nnps.pyx', 'CellIndexingNNPS'),
    ('pysph/base/octree_nnps.pyx', 'OctreeNNPS'),
    ('pysph/base/octree_nnps.pyx', 'CompressedOctreeNNPS'),
    ('pysph/base/stratified_hash_nnps.pyx', 'StratifiedHashNNPS'),
    ('pysph/base/stratified_sfc_nnps.pyx', 'StratifiedSFCNNPS'),
    ('pysph/base/z_order_nnps.pyx', 'ZOrderNNPS'),
    ('pysph/base/z_order_nnps.pyx', 'ExtendedZOrderNNPS'),
]


def task_context(ctx, repo):
    m = repo.cython_module(NB)
    W = m.path
    si, di, s, d = z3.Ints('self_src_index self_dst_index src_index '
                           'dst_index')
    gs, gd = z3.Ints('loaded_src loaded_dst')
    N = z3.Int('narrays')
    no_ctx = z3.Bool('no_context_loaded')
    uc = z3.Bool('use_cache')
    INV = z3.Implies(z3.Not(no_ctx), z3.And(gs == si, gd == di))

    def mk_self():
        class CacheTable(object):
            def vc_getitem(self, idx, ex, st, node):
                def get_neighbors(e, s_, a, k, nd):
                    me = s_.env['self']
                    s_.trace.append(('query', idx, dict(
                        none=me.attrs['current_cache'].is_none,
                        gs=me.attrs['loaded_src'],
                        gd=me.attrs['loaded_dst'])))
                return SymObject(None, dict(get_neighbors=Native(
                    get_neighbors)), 'cache_entry')

            def vc_clone(self, memo, _c=None):
                return self
        o = SymObject('NNPSBase', dict(
            narrays=N, use_cache=uc, src_index=si, dst_index=di,
            loaded_src=gs, loaded_dst=gd, current_cache=OptCtx(no_ctx),
            cache=CacheTable()), 'self')
        o.module = m
        return o

    def set_context(e, s_, a, k, nd):
        me = a[0]
        me.attrs['src_index'] = a[1]
        me.attrs['dst_index'] = a[2]
        me.attrs['loaded_src'] = a[1]
        me.attrs['loaded_dst'] = a[2]
        me.attrs['current_cache'] = OptCtx(z3.BoolVal(False))
        s_.trace.append(('set_context', a[1], a[2]))

    def find(e, s_, a, k, nd):
        me = a[0]
        s_.trace.append(('query', None, dict(
            none=me.attrs['current_cache'].is_none,
            gs=me.attrs['loaded_src'], gd=me.attrs['loaded_dst'])))

    def goal_of(o):
        q = [t for t in o.state.trace if t[0] == 'query']
        if len(q) != 1:
            return z3.BoolVal(False)
        g = q[0][2]
        out = [z3.Not(S.to_z3(g['none'])), S.to_z3(g['gs']) == s,
               S.to_z3(g['gd']) == d]
        if q[0][1] is not None:
            out.append(S.to_z3(q[0][1]) == d * N + s)
        return z3.And(*out)
    obs = []
    fn = m.methods('NNPSBase')['get_nearest_particles']
    ex = Executor(repo, m, qualname='NNPSBase.get_nearest_particles',
                  merge=False, prune=True, inline={
                      'NNPSBase.get_nearest_particles_no_cache'},
                  contracts={'NNPSBase.set_context': CalleeContract(
                      set_context), 'NNPSBase.find_nearest_neighbors':
                      CalleeContract(find)})
    outs = ex.exec_function(fn, dict(self=mk_self(), src_index=s,
                                     dst_index=d, d_idx=z3.Int('d_idx'),
                                     nbrs=NbrsModel()),
                            State(pc=[INV, N >= 1, 0 <= s, s < N, 0 <= d,
                                      d < N]))
    ctx.function(m, fn, 'NNPSBase.get_nearest_particles', ex.dropped)
    ctx.function(m, m.methods('NNPSBase')['get_nearest_particles_no_cache'],
                 'NNPSBase.get_nearest_particles_no_cache', set())
    for i_, o in enumerate(outs):
        obs.append(Obligation('context.query_runs_in_requested_context.%d'
                              % i_, o.pc, goal_of(o), W))
    obs.append(Obligation('context.paths', [], z3.BoolVal(len(outs) >= 3),
                          W))
    ctx.prove('context.get_nearest_particles_loads_the_requested_pair',
              z3only(obs), use_nf=False, replay=replay_oracle(
                  ['single', 'two'], algs=['LinkedListNNPS',
                                           'SpatialHashNNPS'],
                  caches=[True]))
    # NNPSBase.set_context itself
    fn = m.methods('NNPSBase')['set_context']
    o_ = mk_self()
    ex = Executor(repo, m, qualname='NNPSBase.set_context', merge=False)
    outs = ex.exec_function(fn, dict(self=o_, src_index=s, dst_index=d),
                            State(pc=[]))
    ctx.function(m, fn, 'NNPSBase.set_context', ex.dropped)
    obs = []
    for i_, o in enumerate(outs):
        me = o.state.env['self']
        cc = me.attrs['current_cache']
        obs.append(Obligation('set_context.base.%d' % i_, o.pc, z3.And(
            S.to_z3(me.attrs['src_index']) == s,
            S.to_z3(me.attrs['dst_index']) == d,
            z3.BoolVal(isinstance(cc, SymObject) and cc.name ==
                       'cache_entry')), W))
    ctx.prove('context.base_set_context_records_the_pair', z3only(obs),
              use_nf=False)
    # overriding get_nearest_particles_no_cache: context first
    for rel, cls in (('pysph/base/cell_indexing_nnps.pyx',
                      'CellIndexingNNPS'),
                     ('pysph/base/z_order_nnps.pyx', 'ZOrderNNPS')):
        m2 = repo.cython_module(rel)
        if 'get_nearest_particles_no_cache' not in m2.methods(cls):
            continue
        fn = m2.methods(cls)['get_nearest_particles_no_cache']
        o_ = mk_self()
        o_.cls = cls
        o_.module = m2
        ex = Executor(repo, m2, qualname=cls + '.get_nearest_particles_no_'
                      'cache', merge=False, contracts={
                          cls + '.set_context': CalleeContract(set_context),
                          cls + '.find_nearest_neighbors': CalleeContract(
                              find)})
        outs = ex.exec_function(fn, dict(
            self=o_, src_index=s, dst_index=d, d_idx=z3.Int('d_idx'),
            nbrs=NbrsModel(), prealloc=z3.Bool('prealloc')), State(pc=[INV]))
        ctx.function(m2, fn, cls + '.get_nearest_particles_no_cache',
                     ex.dropped)
        obs = [Obligation('context.%s.no_cache.%d' % (cls, i_), o.pc,
                          goal_of(o), m2.path) for i_, o in enumerate(outs)]
        ctx.prove('context.%s.no_cache_query_loads_the_pair' % cls,
                  z3only(obs), use_nf=False)
    # every subclass set_context: parent first with the same pair, src/dst
    # wrappers and every cached structure taken from the right index
    for rel, cls in CONTEXT_CLASSES:
        m2 = repo.cython_module(rel)
        nm = 'context.%s.set_context_selects_structures_of_the_pair' % cls
        if cls not in m2.classes or 'set_context' not in m2.methods(cls):
            ctx.prove(nm, [Obligation(nm + '.present', [], z3.BoolVal(False),
                                      m2.path)])
            continue
        fn = m2.methods(cls)['set_context']
        o_ = SymObject(cls, {}, 'self')
        o_.module = m2
        o_.lazy_factory = lambda a: Table(a)
        parents = {}
        for c in list(m2.classes) + ['NNPS', 'NNPSBase']:
            parents[c + '.set_context'] = CalleeContract(
                lambda e, s_, a, k, nd, c=c: s_.trace.append(
                    ('parent', c, a[1], a[2])))
        parents.pop(cls + '.set_context', None)
        # Base.set_context(self, ...) through the class object
        parents['set_context'] = CalleeContract(
            lambda e, s_, a, k, nd: s_.trace.append(('parent', '?', a[1],
                                                     a[2])))
        ex = Executor(repo, m2, qualname=cls + '.set_context', merge=False,
                      contracts=parents)
        for c in ('NNPS', 'NNPSBase'):
            ex.spec_env[c] = SymObject(None, dict(set_context=Native(
                lambda e, s_, a, k, nd, c=c: s_.trace.append(
                    ('parent', c, a[1], a[2])))), c)
        try:
            outs = ex.exec_function(fn, dict(self=o_, src_index=s,
                                             dst_index=d), State(pc=[]))
        except VCError as e:
            ctx.outside(nm, str(e))
            continue
        ctx.function(m2, fn, cls + '.set_context', ex.dropped)
        obs = []
        for i_, o in enumerate(outs):
            me = o.state.env['self']
            par = [t for t in o.state.trace if t[0] == 'parent']
            g = [z3.BoolVal(len(par) == 1 and o.state.trace[0][0] ==
                            'parent')]
            if par:
                g += [S.to_z3(par[0][2]) == s, S.to_z3(par[0][3]) == d]
            bad = []
            for a, v in me.attrs.items():
                if isinstance(v, Table):
                    continue
                if not isinstance(v, Elem):
                    bad.append(a)
                    continue
                want = d if (a == 'dst' or a.endswith('_dst')) else s
                if a in ('src', 'dst') and v.table != 'pa_wrappers':
                    bad.append(a)
                g.append(S.to_z3(v.index) == want)
            g.append(z3.BoolVal(not bad and 'src' in me.attrs and 'dst' in
                                me.attrs or cls == 'ExtendedZOrderNNPS'))
            obs.append(Obligation('%s.%d' % (nm, i_), o.pc, z3.And(*g),
                                  m2.path, extra=dict(bad=bad)))
        ctx.prove(nm, z3only(obs), use_nf=False, replay=replay_oracle(
            ['two', 'sparse_src'], algs=[cls]))


# -------------------------------------------------------------------- query
def task_query(ctx, repo):
    """LinkedListNNPS.find_nearest_neighbors: stencil, walks, acceptance"""
    from pyvc.symexec import _FuncRef
    m = repo.cython_module(LL)
    pxd = repo.cython_module(PXD)
    fn = m.methods('LinkedListNNPS')['find_nearest_neighbors']
    W = m.path
    n = [z3.Int('n_dst'), z3.Int('n_src')]
    ws = wrappers(n)
    for w in ws:
        w.attrs['gid'] = C17.carr('gid')
    dst, src = ws
    nc = z3.Int('n_cells')
    rs = z3.Real('radius_scale')
    cs = z3.Real('cell_size')
    head = C17.carr('head', length=nc)
    nxt = C17.carr('next', length=n[1])
    H, Nx = head.attrs['data'].arr, nxt.attrs['data'].arr
    shifts = C17.carr('cell_shifts', length=z3.IntVal(3))
    ncd = C17.carr('ncells_per_dim', length=z3.IntVal(3))
    xmin = C17.carr('xmin', length=z3.IntVal(3), elem='real')
    d_idx = z3.Int('d_idx')
    SH = shifts.attrs['data'].arr
    kq = z3.Int('kq')
    pre = [nc >= 1, n[0] >= 0, n[1] >= 0, n[1] < UINT_MAX, cs > 0,
           0 <= d_idx, d_idx < n[0],
           # object invariant of NNPSBase.__init__ (checked below)
           z3.Select(SH, 0) == -1, z3.Select(SH, 1) == 0,
           z3.Select(SH, 2) == 1,
           # representation invariant of heads/nexts (C17 refresh/bin)
           z3.ForAll([kq], z3.And(
               z3.Implies(z3.And(0 <= kq, kq < nc), z3.Or(
                   z3.Select(H, kq) == UINT_MAX, z3.And(
                       z3.Select(H, kq) >= 0, z3.Select(H, kq) < n[1]))),
               z3.Implies(z3.And(0 <= kq, kq < n[1]), z3.Or(
                   z3.Select(Nx, kq) == UINT_MAX, z3.And(
                       z3.Select(Nx, kq) >= 0, z3.Select(Nx, kq) < n[1])))))]
    ncx, ncy, ncz = [z3.Select(ncd.attrs['data'].arr, i) for i in range(3)]

    def valid_spec(e, s_, a, k, nd):
        cx, cy, cz = [S.to_z3(v) for v in a[1:4]]
        flat = cx + ncx * cy + ncx * ncy * cz
        inside = z3.And(0 <= cx, cx < ncx, 0 <= cy, cy < ncy, 0 <= cz,
                        cz < ncz)
        s_.trace.append(('cell', (cx, cy, cz)))
        return z3.If(z3.And(inside, 0 <= flat, flat < S.to_z3(a[6])), flat,
                     -1)
    events = []
    nbrs = NbrsModel(events)
    obj = ll_obj(m, n_cells=nc, dim=z3.Int('dim'), cell_shifts=shifts,
                 src=src, dst=dst, head=head, next=nxt, xmin=xmin,
                 radius_scale=rs, cell_size=cs, ncells_per_dim=ncd,
                 sort_gids=False)
    inner = LoopSpec(inv=[('node', lambda ex, st: z3.Or(
        S.to_z3(st.env['_next']) == UINT_MAX, z3.And(
            S.to_z3(st.env['_next']) >= 0,
            S.to_z3(st.env['_next']) < n[1])))])
    loops = C17.loops_in(fn)
    wk = [i for i, l in enumerate(loops) if isinstance(l, ast.While)]
    ex = Executor(repo, m, qualname='LinkedListNNPS.find_nearest_neighbors',
                  merge=True, prune=False, inline={'*'},
                  loop_specs={('find_nearest_neighbors', wk[0]): inner},
                  contracts={'LinkedListNNPS._get_valid_cell_index':
                             CalleeContract(valid_spec)})
    ex.spec_env['UINT_MAX'] = UINT_MAX
    for nm in ('find_cell_id_raw', 'real_to_int', 'norm2'):
        ex.spec_env[nm] = _FuncRef(pxd, pxd.functions[nm])
    ctx.cover('query.pre_satisfiable', pre, 20000)
    outs = ex.exec_function(fn, dict(self=obj, d_idx=d_idx, nbrs=nbrs),
                            State(pc=pre))
    ctx.function(m, fn, 'LinkedListNNPS.find_nearest_neighbors', ex.dropped)
    obs = [o for o in ex.obligations if o.kind in ('inv-entry', 'inv-step',
                                                   'index')]
    X, Y, Z, Hd = [z3.Select(dst.attrs[a].attrs['data'].arr, d_idx)
                   for a in 'xyzh']
    sx, sy, sz, sh = [src.attrs[a].attrs['data'].arr for a in 'xyzh']
    q = [z3.Real('q%d' % i) for i in range(3)]
    XM = xmin.attrs['data'].arr
    qdef = [q[0] * cs == X - z3.Select(XM, 0), q[1] * cs == Y - z3.Select(
        XM, 1), q[2] * cs == Z - z3.Select(XM, 2)]
    cd = [z3.ToInt(q[i]) for i in range(3)]
    offsets = []
    for li, log in enumerate(inner.logs):
        ent, hd = log['entry'], log['head']
        cells = [t for t in ent.trace if t[0] == 'cell']
        cell = cells[-1][1]
        off = []
        for a in range(3):
            dlt = z3.simplify(cell[a] - cd[a])
            # the offset of this stencil cell from the destination's cell
            obs_off = None
            for cand in (-1, 0, 1):
                r_ = z3.Solver()
                r_.set('timeout', 5000)
                r_.add(*[S.to_z3(p) for p in ent.pc])
                r_.add(*qdef)
                r_.add(cell[a] - cd[a] != cand)
                if r_.check() == z3.unsat:
                    obs_off = cand
                    break
            off.append(obs_off)
        offsets.append(tuple(off))
        # the walk starts at the head of that cell
        cidx = cells[-1]
        vi = S.to_z3(ent.env['cell_index'])
        obs.append(Obligation('query.walk%d.starts_at_head' % li, ent.pc,
                              S.to_z3(ent.env['_next']) == z3.Select(H, vi),
                              W))
        cur = S.to_z3(hd.env['_next'])
        n0 = len([e_ for e_ in events])
        d2 = (z3.Select(sx, cur) - X) * (z3.Select(sx, cur) - X) + \
            (z3.Select(sy, cur) - Y) * (z3.Select(sy, cur) - Y) + \
            (z3.Select(sz, cur) - Z) * (z3.Select(sz, cur) - Z)
        hi2 = (rs * Hd) * (rs * Hd)
        hj2 = (rs * z3.Select(sh, cur)) * (rs * z3.Select(sh, cur))
        for jn, (s1, sig) in enumerate(log['ends']):
            # events appended on this path: those whose pc is this path's
            mine = [e_ for e_ in events if e_[0] == 'append' and
                    len(e_[2]) <= len(s1.pc) and
                    all(a_ is b_ or a_.eq(b_) for a_, b_ in
                        zip(e_[2], s1.pc)) and len(e_[2]) > len(hd.pc)]
            appended = len(mine) >= 1
            g = [S.to_z3(s1.env['_next']) == z3.Select(Nx, cur)]
            if appended:
                g.append(z3.BoolVal(len(mine) == 1))
                g.append(S.to_z3(mine[0][1]) == cur)
                g.append(z3.Or(d2 <= hi2, d2 <= hj2))
            else:
                g.append(z3.Not(z3.Or(d2 < hi2, d2 < hj2)))
            obs.append(Obligation('query.walk%d.node.%d' % (li, jn), s1.pc,
                                  z3.And(*g), W))
    want = sorted((a, b, c) for a in (-1, 0, 1) for b in (-1, 0, 1)
                  for c in (-1, 0, 1))
    obs.append(Obligation('query.stencil_is_27_distinct_offsets', [],
                          z3.BoolVal(sorted(offsets) == want), W,
                          extra=dict(offsets=[str(o) for o in offsets])))
    ctx.prove('query.linked_list_visits_stencil_and_filters_by_distance',
              z3only(obs, 60000), use_nf=False, replay=replay_oracle(
                  ['uniform', 'two', 'hvar', 'faces']))
    # cell_shifts = (-1, 0, 1): object invariant set by NNPSBase.__init__
    nb = repo.cython_module(NB)
    init = nb.methods('NNPSBase')['__init__']
    vals = {}
    others = []
    for rel in ALL_FILES:
        mm = repo.cython_module(rel)
        for c in mm.classes:
            for f_ in mm.methods(c).values():
                for nd in ast.walk(f_):
                    if isinstance(nd, ast.Assign):
                        for t in nd.targets:
                            s_ = ast.unparse(t).replace(' ', '')
                            if s_.startswith('self.cell_shifts.data['):
                                if f_ is init:
                                    vals[s_] = ast.unparse(nd.value)
                                else:
                                    others.append('%s.%s' % (c, f_.name))
                            elif s_ == 'self.cell_shifts' and f_ is not \
                                    init:
                                others.append('%s.%s' % (c, f_.name))
    ok = vals == {'self.cell_shifts.data[0]': '-1',
                  'self.cell_shifts.data[1]': '0',
                  'self.cell_shifts.data[2]': '1'} and not others
    ctx.prove('query.cell_shifts_invariant', [Obligation(
        'cell_shifts', [], z3.BoolVal(ok), nb.path, extra=dict(
            vals=vals, others=others))])


ALL_FILES = [NB, LL, 'pysph/base/box_sort_nnps.pyx',
             'pysph/base/spatial_hash_nnps.pyx',
             'pysph/base/cell_indexing_nnps.pyx',
             'pysph/base/octree_nnps.pyx',
             'pysph/base/stratified_hash_nnps.pyx',
             'pysph/base/stratified_sfc_nnps.pyx',
             'pysph/base/z_order_nnps.pyx']


# ----------------------------------------------------------------- complete
def task_complete(ctx, repo):
    """Glue over the contracts above (pure arithmetic, discharged by z3): a
    source particle j that passes the acceptance test for destination d
    lives in one of the 27 stencil cells of d and that cell has a valid id,
    so the walk of `query` meets it (the lists hold exactly the binned
    particles of their cell: C17 refresh/bin)."""
    cs, rs = z3.Reals('cell_size radius_scale')
    hd, hj = z3.Reals('h_d h_j')
    lo = [z3.Real('xmin%d' % i) for i in range(3)]
    hi = [z3.Real('xmax%d' % i) for i in range(3)]
    pd = [z3.Real('d%d' % i) for i in range(3)]
    pj = [z3.Real('j%d' % i) for i in range(3)]
    qd = [z3.Real('qd%d' % i) for i in range(3)]
    qj = [z3.Real('qj%d' % i) for i in range(3)]
    ncs = [z3.Int('nc%d' % i) for i in range(3)]
    n_cells = z3.Int('n_cells')
    d2 = sum((pj[i] - pd[i]) * (pj[i] - pd[i]) for i in range(3))
    hyp = [cs > 0, rs > 0, hd >= 0, hj >= 0,
           # cellsize contract
           cs >= rs * hd, cs >= rs * hj,
           # acceptance (strict: these are the pairs that MUST be found)
           z3.Or(d2 < (rs * hd) * (rs * hd), d2 < (rs * hj) * (rs * hj))]
    for i in range(3):
        hyp += [qd[i] * cs == pd[i] - lo[i], qj[i] * cs == pj[i] - lo[i]]
    cd = [z3.ToInt(qd[i]) for i in range(3)]
    cj = [z3.ToInt(qj[i]) for i in range(3)]
    obs = []
    # (a) per axis |dx| < cell_size
    for i in range(3):
        obs.append(Obligation('complete.axis%d.within_cell_size' % i, hyp,
                              z3.And(pj[i] - pd[i] < cs, pd[i] - pj[i] < cs),
                              'lemma'))
    # (b) hence cells differ by at most one (stencil lemma instance)
    close = [z3.And(pj[i] - pd[i] < cs, pd[i] - pj[i] < cs)
             for i in range(3)]
    for i in range(3):
        obs.append(Obligation('complete.axis%d.cell_offset_in_stencil' % i,
                              hyp + close, z3.And(cj[i] - cd[i] <= 1,
                                                  cj[i] - cd[i] >= -1),
                              'lemma'))
    # (c) the source particle's cell is inside the grid with id < n_cells
    #     (ncells contract), so get_valid_cell_index (arith contract)
    #     returns its flattened id, not -1
    inside = z3.And(*[z3.And(0 <= cj[i], cj[i] < ncs[i]) for i in range(3)])
    flat = cj[0] + ncs[0] * cj[1] + ncs[0] * ncs[1] * cj[2]
    spec = z3.If(z3.And(inside, 0 <= flat, flat < n_cells), flat, -1)
    obs.append(Obligation('complete.visited_cell_id_is_the_particles_cell',
                          [inside, 0 <= flat, flat < n_cells],
                          z3.And(spec == flat, spec > -1), 'lemma'))
    ctx.cover('complete.hypotheses_satisfiable', hyp + close, 20000)
    ctx.canary('complete.must_fail_without_cell_size_contract', Obligation(
        'c', [h_ for h_ in hyp if not (h_.eq(cs >= rs * hd) or
                                       h_.eq(cs >= rs * hj))],
        z3.And(pj[0] - pd[0] < cs, pd[0] - pj[0] < cs)))
    ctx.prove('complete.accepted_pairs_lie_in_the_visited_stencil',
              z3only(obs, 120000), use_nf=False, replay=replay_oracle(
                  ['uniform', 'faces', 'hvar', 'clustered']))


# --------------------------------------------------------------------- list
def task_list(ctx, repo):
    """the linked-list representation: C17's contracts on _refresh, _bin and
    the walk are obligations of this property too"""
    C17.task_refresh(ctx, repo)
    C17.task_bin(ctx, repo)
    for r in ctx.results:
        if not r['name'].startswith('list.'):
            r['name'] = 'list.' + r['name']


# ------------------------------------------------------------------ repoint
def _class_methods(repo, rel, cls):
    """methods of cls and of its bases defined in the same file (own first)"""
    m = repo.cython_module(rel)
    out = {}
    todo = [cls]
    seen = set()
    while todo:
        c = todo.pop(0)
        if c in seen or c not in m.classes:
            continue
        seen.add(c)
        for k, f in m.methods(c).items():
            out.setdefault(k, f)
        for b in m.classes[c].bases:
            if isinstance(b, ast.Name):
                todo.append(b.id)
    return m, out


def _update_reloads_context(repo):
    """NNPS.update (nnps_base.pyx) calls self.set_context(self.src_index,
    self.dst_index) at its top level after self._refresh() and after the
    binning loop, guarded at most by `self.current_cache is not None` (with no
    context loaded the next cached query loads one itself, fix 613605a)."""
    m = repo.cython_module('pysph/base/nnps_base.pyx')
    fn = m.methods('NNPS').get('update')
    if fn is None:
        return False

    def is_self_attr(e, a):
        return isinstance(e, ast.Attribute) and e.attr == a and \
            isinstance(e.value, ast.Name) and e.value.id == 'self'

    def is_reload(st):
        return isinstance(st, ast.Expr) and isinstance(st.value, ast.Call) \
            and is_self_attr(st.value.func, 'set_context') and \
            len(st.value.args) == 2 and not st.value.keywords and \
            is_self_attr(st.value.args[0], 'src_index') and \
            is_self_attr(st.value.args[1], 'dst_index')

    def calls(st, name):
        return any(isinstance(x, ast.Call) and is_self_attr(x.func, name)
                   for x in ast.walk(st))
    seen_refresh = seen_bin = False
    for st in fn.body:
        if calls(st, '_refresh'):
            seen_refresh = True
            seen_bin = False
        if calls(st, '_bin'):
            seen_bin = True
        if not (seen_refresh and seen_bin):
            continue
        if is_reload(st):
            return True
        if isinstance(st, ast.If) and not st.orelse and \
                isinstance(st.test, ast.Compare) and \
                is_self_attr(st.test.left, 'current_cache') and \
                len(st.test.ops) == 1 and \
                isinstance(st.test.ops[0], ast.IsNot) and \
                isinstance(st.test.comparators[0], ast.Constant) and \
                st.test.comparators[0].value is None and \
                any(is_reload(b) for b in st.body):
            return True
    return False


def task_nnpsinit(ctx, repo):
    """NNPSBase.__init__: the domain manager that will compute the cell size
    -- the one the caller gave, or the default one -- is told the arrays and
    the radius scale (a manager that never hears the radius scale bins with
    a cell of size 1 whatever h is), and is the one stored."""
    m = repo.cython_module(NB)
    fn = m.methods('NNPSBase')['__init__']
    W = m.path
    obs = []
    rs = z3.Real('radius_scale')
    for given in (True, False):
        made = []

        def mkdom(tag):
            d_ = SymObject(None, dict(manager=SymObject(None, dict(
                is_periodic=z3.Bool('is_periodic')), 'manager')), tag)
            d_.attrs['set_pa_wrappers'] = Native(
                lambda e, s_, a, k, n, t_=tag: s_.trace.append(
                    ('set_pa_wrappers', t_, a[0])))
            d_.attrs['set_radius_scale'] = Native(
                lambda e, s_, a, k, n, t_=tag: s_.trace.append(
                    ('set_radius_scale', t_, a[0])))
            return d_
        dom = mkdom('given') if given else None
        obj = SymObject('NNPSBase', {}, 'self')
        obj.module = m
        ex = Executor(repo, m, qualname='NNPSBase.__init__', merge=False)
        ex.spec_env['DomainManager'] = Native(
            lambda e, s_, a, k, n: (made.append(mkdom('default')),
                                    made[-1])[1])
        ex.spec_env['NNPSParticleArrayWrapper'] = Native(
            lambda e, s_, a, k, n: ('wrapper', a[0]))
        ex.spec_env['IntArray'] = Native(
            lambda e, s_, a, k, n: C17.carr('cell_shifts',
                                           length=S.to_z3(a[0])))
        try:
            outs = ex.exec_function(fn, dict(
                self=obj, dim=z3.Int('dim'), particles=['pa0', 'pa1'],
                radius_scale=rs, ghost_layers=1, domain=dom, cache=False,
                sort_gids=False))
        except VCError as e:
            ctx.outside('nnpsinit.%s' % ('given' if given else 'default'),
                        str(e))
            continue
        ok = len(outs) == 1
        why = ''
        if ok:
            at = outs[0].state.env['self'].attrs
            use = dom if given else (made[0] if made else None)
            tag = 'given' if given else 'default'
            tr = [t for t in outs[0].state.trace if t[0].startswith('set_')]
            wr = at.get('pa_wrappers')
            ok = at.get('domain') is use and use is not None and \
                wr == [('wrapper', 'pa0'), ('wrapper', 'pa1')] and \
                [t[:2] for t in tr] == [('set_pa_wrappers', tag),
                                        ('set_radius_scale', tag)] and \
                tr[0][2] == wr and S.same(tr[1][2], rs) and \
                S.same(at.get('radius_scale'), rs)
            why = 'calls on the domain: %r' % ([t[:2] for t in tr],)
        obs.append(Obligation('nnpsinit.%s_domain' % (
            'given' if given else 'default'), [], z3.BoolVal(bool(ok)), W,
            extra=dict(why=why, backends=['z3'])))
    ctx.function(m, fn, 'NNPSBase.__init__')
    # NNPS.set_use_cache(True): while the cache was off update() skipped it,
    # so whatever it holds is from before -- EVERY cache is invalidated
    # (NeighborCache.update is the only place the cached flags are cleared),
    # unconditionally; switching off only drops the flag
    fsc = m.methods('NNPS')['set_use_cache']
    for on in (True, False):
        caches = [SymObject(None, dict(update=Native(
            lambda e, s_, a, k, n, i=i: s_.trace.append(('cache_update',
                                                         i)))), 'cache%d' % i)
            for i in range(4)]
        o_ = SymObject('NNPS', dict(cache=caches, use_cache=not on), 'self')
        o_.module = m
        ex = Executor(repo, m, qualname='NNPS.set_use_cache', merge=False)
        try:
            outs = ex.exec_function(fsc, dict(self=o_, use_cache=on))
            ok = all(
                o.state.env['self'].attrs.get('use_cache') is on and
                [t[1] for t in o.state.trace if t[0] == 'cache_update'] ==
                ([0, 1, 2, 3] if on else []) for o in outs) and len(outs) >= 1
        except VCError as e:
            ok = False
        obs.append(Obligation('nnpsinit.set_use_cache.%s' % on, [],
                              z3.BoolVal(bool(ok)), W,
                              extra=dict(backends=['z3'])))
    ctx.function(m, fsc, 'NNPS.set_use_cache')
    ctx.prove('nnpsinit.domain_in_use_is_told_arrays_and_radius_scale', obs,
              use_nf=False, replay=_replay_script(EXPLICIT_DOMAIN))


EXPLICIT_DOMAIN = r'''
import json, sys
d = json.load(sys.stdin)
if d.get('built'): sys.path.insert(0, d['built'])
import numpy as np
from pysph.base.utils import get_particle_array
from pysph.base import nnps
from cyarray.api import UIntArray
bad = None
rng = np.random.RandomState(4)
for cls in ('LinkedListNNPS', 'BoxSortNNPS', 'SpatialHashNNPS', 'CellIndexingNNPS', 'OctreeNNPS'):
    for explicit in (False, True):
        n = 60
        pa = get_particle_array(name='a', x=rng.rand(n) * 6, y=rng.rand(n) * 6, h=0.8 * np.ones(n))
        dm = nnps.DomainManager(xmin=-1, xmax=7, ymin=-1, ymax=7) if explicit else None
        nn = getattr(nnps, cls)(dim=2, particles=[pa], radius_scale=2.0, domain=dm)
        nb = UIntArray()
        for i in range(n):
            nn.get_nearest_particles(0, 0, i, nb)
            got = set(nb.get_npy_array().tolist())
            d2 = (pa.x - pa.x[i]) ** 2 + (pa.y - pa.y[i]) ** 2
            want = set(np.where(d2 < (2.0 * 0.8) ** 2 * (1 - 1e-9))[0].tolist())
            if want - got:
                bad = dict(algorithm=cls, explicit_domain_manager=explicit, h=0.8, radius_scale=2.0, particle=i, missing=sorted(want - got)[:6], cell_size=float(nn.cell_size)); break
        if bad: break
    if bad: break
print(json.dumps(dict(bad=bad)))
'''


def _replay_script(script):
    def rp(model, ob):
        if os.environ.get('PYVC_NO_BUILD_REPLAY'):
            return dict(reproduced=False, note='build replay disabled')
        try:
            dst, msg = native.shared_build()
            if dst is None:
                return dict(reproduced=False, note=msg)
            r = native.run_venv(script, dict(built=dst), timeout=900,
                                cwd='/tmp')
        except Exception as e:
            return dict(reproduced=False, note=str(e)[-300:])
        if r['bad']:
            return dict(reproduced=True, how='extensions built from the '
                        'working tree', **r['bad'])
        return dict(reproduced=False)
    return rp


def task_repoint(ctx, repo):
    """Whatever set_context caches from a per-array table must be refreshed
    by _refresh when _refresh replaces that table's entries: otherwise the
    cached structure of the current context dangles after update() and a
    cached query (which does not reload an unchanged pair) reads freed
    memory."""
    base_reloads = _update_reloads_context(repo)
    for rel, cls in CONTEXT_CLASSES:
        m, meths = _class_methods(repo, rel, cls)
        nm = 'repoint.%s.refresh_keeps_the_loaded_context_valid' % cls
        if 'set_context' not in meths or '_refresh' not in meths:
            ctx.prove(nm, [Obligation(nm + '.present', [], z3.BoolVal(False),
                                      m.path)])
            continue
        # tables read by set_context (of the class and its in-file bases)
        dep = {}
        c_ = cls
        sc = []
        mm, own = _class_methods(repo, rel, cls)
        for c in m.classes:
            if 'set_context' in m.methods(c) and (
                    c == cls or c in [b.id for b in m.classes[cls].bases
                                      if isinstance(b, ast.Name)]):
                sc.append(m.methods(c)['set_context'])
        for f in sc:
            for nd in ast.walk(f):
                if isinstance(nd, ast.Assign) and len(nd.targets) == 1 and \
                        isinstance(nd.targets[0], ast.Attribute):
                    x = nd.targets[0].attr
                    for e in ast.walk(nd.value):
                        if isinstance(e, ast.Subscript) and \
                                isinstance(e.value, ast.Attribute) and \
                                isinstance(e.value.value, ast.Name) and \
                                e.value.value.id == 'self':
                            dep.setdefault(e.value.attr, set()).add(x)
        dep.pop('pa_wrappers', None)
        # transitive closure of _refresh over self.<method>() calls
        todo, seen = ['_refresh'], []
        while todo:
            k = todo.pop()
            if k in seen or k not in meths:
                continue
            seen.append(k)
            for nd in ast.walk(meths[k]):
                if isinstance(nd, ast.Call) and isinstance(
                        nd.func, ast.Attribute) and isinstance(
                            nd.func.value, ast.Name) and \
                        nd.func.value.id == 'self':
                    todo.append(nd.func.attr)
        replaced, restored, reloads = set(), set(), False
        for k in seen:
            for nd in ast.walk(meths[k]):
                tg = []
                if isinstance(nd, ast.Assign):
                    tg = nd.targets
                elif isinstance(nd, ast.Delete):
                    tg = nd.targets
                for t in tg:
                    if isinstance(t, ast.Subscript) and isinstance(
                            t.value, ast.Attribute) and isinstance(
                                t.value.value, ast.Name) and \
                            t.value.value.id == 'self' and \
                            t.value.attr in dep:
                        replaced.add(t.value.attr)
                    if isinstance(t, ast.Attribute) and isinstance(
                            t.value, ast.Name) and t.value.id == 'self':
                        if t.attr in dep:
                            replaced.add(t.attr)
                        restored.add(t.attr)
                if isinstance(nd, ast.Call) and isinstance(
                        nd.func, ast.Attribute) and \
                        nd.func.attr == 'set_context':
                    reloads = True
        need = set()
        for t in replaced:
            need |= dep[t]
        # ... or NNPS.update, the only caller of _refresh, loads the pair
        # again after the rebuild (and the class does not replace update)
        if base_reloads and 'update' not in meths:
            reloads = True
        missing = sorted(need - restored) if not reloads else []
        ctx.function(m, meths['_refresh'], cls + '._refresh (stores to '
                     'per-array tables only)', set())
        ctx.prove(nm, [Obligation(nm, [], z3.BoolVal(not missing), m.path,
                                  extra=dict(replaced=sorted(replaced),
                                             not_reloaded=missing))],
                  replay=replay_oracle(['uniform', 'line', 'hvar'],
                                       algs=[cls], caches=[True],
                                       history=True))


# -------------------------------------------------------------------- zrows
class _Boxes(object):
    """nbr_boxes[i] of the z-order classes: loads and stores are logged"""

    def __init__(self, i, log):
        self.i, self.log = i, log

    def vc_setitem(self, idx, v, ex, st, node):
        self.log.append(('store', self.i, idx, v, list(st.pc), node.lineno))

    def vc_getitem(self, idx, ex, st, node):
        self.log.append(('load', self.i, idx, None, list(st.pc),
                         node.lineno))
        return S.fresh('start_idx', 'int')

    def vc_clone(self, memo, _c=None):
        return self


def task_zrows(ctx, repo):
    """Z-order classes: the query for (src, dst) reads row cid(dst particle)
    of src's neighbour-box table; _fill_nbr_boxes must have filled it."""
    from pyvc.abstract import AbstractExecutor
    rel = 'pysph/base/z_order_nnps.pyx'
    m = repo.cython_module(rel)
    W = m.path
    ML = z3.Int('mask_len')
    for cls in ('ZOrderNNPS', 'ExtendedZOrderNNPS'):
        mm, meths = _class_methods(repo, rel, cls)
        fill = meths['_fill_nbr_boxes']
        n = [z3.Int('n0'), z3.Int('n1')]
        ws = wrappers(n)
        log = []

        def mk(nm):
            return [SymArray('%s%d' % (nm, i), elem='int') for i in range(2)]
        cids, pids = mk('cids'), mk('pids')
        attrs = dict(narrays=2, pa_wrappers=ws, keys=mk('keys'),
                     key_to_idx=mk('k2i'), cids=cids, pids=pids,
                     nbr_boxes=[_Boxes(0, log), _Boxes(1, log)],
                     lengths=mk('lengths'), mask_len=ML,
                     max_cid=z3.Int('max_cid'), h_sub=z3.Real('h_sub'),
                     xmin=C17.carr('xmin', length=z3.IntVal(3),
                                   elem='real'))
        obj = SymObject(cls, attrs, 'self')
        obj.module = m
        obj.lazy_factory = lambda a: None
        ex = AbstractExecutor(repo, m, qualname=cls + '._fill_nbr_boxes',
                              int_names=index_names(fill) | {
                                  'found_idx', 'num_boxes'}, inline=set())
        nm = 'zrows.%s' % cls
        try:
            ex.exec_function(fill, dict(self=obj), State(pc=[]))
        except VCError as e:
            ctx.outside(nm, str(e))
            continue
        ctx.function(m, fill, cls + '._fill_nbr_boxes',
                     set('abstracted: ' + a for a in ex.abstracted[:30]))
        stores = [e for e in log if e[0] == 'store']
        rows = []
        bad = []
        for (_, i, idx, v, pc, line) in stores:
            if not S.is_sym(v) and v == -1:
                continue            # the initial fill with -1
            idx = S.to_z3(idx)
            found = None
            cands = [z3.IntVal(0)] + [x for x in _free_ints(idx)]
            for J in cands:
                rest = z3.simplify(idx - ML * z3.Select(
                    cids[i].arr, z3.Select(pids[i].arr, J)))
                if z3.is_const(rest) and rest.decl().kind() == \
                        z3.Z3_OP_UNINTERPRETED:
                    found = J
                    break
            if found is None:
                bad.append((line, str(idx)[:80]))
            rows.append((i, line))
        obs = [Obligation(nm + '.rows_written_belong_to_own_cells', [],
                          z3.BoolVal(bool(rows) and not bad), W,
                          extra=dict(bad=bad, rows=rows))]
        ctx.prove(nm + '.fill_writes_only_rows_of_the_arrays_own_cells',
                  obs)
        # the query's load
        fnq = meths['find_nearest_neighbors']
        log2 = []
        attrs2 = dict(attrs)
        d_idx = z3.Int('d_idx')
        obj2 = SymObject(cls, dict(
            src=ws[1], dst=ws[0], radius_scale2=z3.Real('rs2'), mask_len=ML,
            sort_gids=False, current_cids_dst=cids[0],
            current_cids_src=cids[1], current_pids=pids[1],
            current_keys=SymArray('keys1', elem='int'),
            current_lengths=SymArray('lengths1', elem='int'),
            current_nbr_boxes=_Boxes(1, log2), h_sub=z3.Real('h_sub'),
            xmin=attrs['xmin']), 'self')
        obj2.module = m
        for w in ws:
            w.attrs['gid'] = C17.carr('gid')
        ex2 = AbstractExecutor(repo, m, qualname=cls + '.find_nearest_'
                               'neighbors', int_names=index_names(fnq),
                               inline=set())
        try:
            ex2.exec_function(fnq, dict(self=obj2, d_idx=d_idx,
                                        nbrs=NbrsModel()), State(pc=[]))
        except VCError as e:
            ctx.outside(nm + '.query', str(e))
            continue
        loads = [e for e in log2 if e[0] == 'load']
        okl = bool(loads)
        for (_, i, idx, v, pc, line) in loads:
            rest = z3.simplify(S.to_z3(idx) - ML * z3.Select(cids[0].arr,
                                                              d_idx))
            if not (z3.is_const(rest) and rest.decl().kind() ==
                    z3.Z3_OP_UNINTERPRETED):
                okl = False
        ctx.prove(nm + '.query_reads_the_row_of_the_destination_cell',
                  [Obligation(nm + '.query_row', [], z3.BoolVal(okl), W)])
        # coverage: the row read must be one of the rows written
        p = z3.Int('p')
        inv = z3.Function('inv_pids', z3.IntSort(), z3.IntSort())
        k = z3.Int('k')

        def perm(i):
            # pids[i] is a permutation of 0..n_i-1 (std::sort of the
            # identity, assumed): every index has a position
            return z3.ForAll([k], z3.Implies(z3.And(0 <= k, k < n[i]), z3.And(
                0 <= inv(k), inv(k) < n[i],
                z3.Select(pids[i].arr, inv(k)) == k)))
        for (s_, d_, tag) in ((0, 0, 'same_array'), (1, 0, 'cross_array')):
            goal = z3.Exists([p], z3.And(
                0 <= p, p < n[s_], z3.Select(cids[s_].arr, z3.Select(
                    pids[s_].arr, p)) == z3.Select(cids[d_].arr, d_idx)))
            ob = Obligation('%s.row_filled.%s' % (nm, tag),
                            [perm(0), perm(1), 0 <= d_idx, d_idx < n[d_],
                             n[0] >= 1, n[1] >= 1], goal, W)
            ctx.prove('%s.row_of_destination_cell_is_filled.%s' % (nm, tag),
                      z3only([ob], 30000), use_nf=False,
                      replay=replay_oracle(['two', 'sparse_src'],
                                           algs=[cls], caches=[False]))


def _free_ints(e):
    out, seen = [], set()

    def walk(x):
        if x.get_id() in seen:
            return
        seen.add(x.get_id())
        if z3.is_const(x) and x.decl().kind() == z3.Z3_OP_UNINTERPRETED \
                and z3.is_int(x):
            out.append(x)
        for c in x.children():
            walk(c)
    walk(e)
    return out


# ------------------------------------------------------------------- oracle
QUICK_SCEN = ['single', 'coincident', 'two', 'sparse_src', 'empty', 'hvar',
              'faces', 'ghosts', 'hdiff']
ALL_SCEN = ['single', 'coincident', 'line', 'uniform', 'two', 'sparse_src',
            'empty', 'far', 'hvar', 'faces', 'clustered', 'longz', 'ghosts', 'hdiff']


def task_oracle(ctx, repo):
    """BOUNDED stand-in, never counted as proved: the completeness /
    duplicate-freedom / index-validity clauses of the ten classes whose
    structures (hash tables in C++, sorted key arrays, octrees) are outside
    the VC generator, and the end-to-end composition for all twelve."""
    if os.environ.get('PYVC_NO_BUILD_REPLAY'):
        ctx.note('oracle skipped: PYVC_NO_BUILD_REPLAY set (development)')
        return
    thorough = ctx.tier == 'thorough'
    which = ALL_SCEN if thorough else QUICK_SCEN
    bad, info = run_oracle(which, history=True, knobs=True)
    bound = ('%d distributions (%s) x dims 1,2,3 x 12 classes x cache on/off '
             '(+ knob variants on two/hvar/clustered: sort_gids, table_size=4,'
             ' H, num_levels, leaf_max_particles, asymmetric), each followed '
             'by 2 rounds of move/h-change + update_domain + update; every '
             '(src,dst) pair and every destination particle compared with '
             'the definition; ties within 1e-9 relative ignored' % (
                 len(which), ','.join(which)))
    if bad is None:
        raise RuntimeError('oracle could not be built: %s' % info)
    ncases = int(info.split('=')[1])
    by_alg = {}
    for b in bad:
        by_alg.setdefault(b['case'].split('.')[0], []).append(b)
    for alg in ALL_ALGS:
        ctx.bounded_check('oracle.%s.passing_cases' % alg, bound,
                          ncases // 12 - len(by_alg.get(alg, [])), True,
                          'cases of this class that agree with the '
                          'definition')
    for b in bad:
        ctx.bounded_check('oracle.' + b['case'], bound, 1, False, b)


# ------------------------------------------------------------------ sortseg
def task_sortseg(ctx, repo):
    """sort_gids: what is handed to _sort_neighbors is exactly the segment of
    nbrs appended by THIS call -- it starts where nbrs ended on entry (or at
    0 when the function resets nbrs first) and its length is the number of
    entries appended since.  (A cache appends many particles' lists to one
    long buffer, so sorting from the start of the buffer shuffles earlier
    particles' lists.)"""
    from pyvc.abstract import AbstractExecutor
    from pyvc.symexec import _FuncRef
    pxd = repo.cython_module(PXD)
    for rel, cls, fname, classes in SOUND_SITES:
        m = repo.cython_module(rel)
        if fname == '_get_neighbors':
            cls_, fname_ = 'OctreeNNPS', 'find_nearest_neighbors'
        else:
            cls_, fname_ = cls, fname
        name = 'sortseg.%s.%s' % (cls_, fname_)
        if cls_ not in m.classes or fname_ not in m.methods(cls_):
            ctx.prove(name, [Obligation(name + '.present', [],
                                        z3.BoolVal(False), m.path)])
            continue
        fn = m.methods(cls_)[fname_]
        W = m.path
        n = [z3.Int('n0'), z3.Int('n1')]
        ws = wrappers(n)
        for w in ws:
            w.attrs['gid'] = C17.carr('gid')
        events = []
        calls = []

        class Nb(NbrsModel):
            def vc_getattr(self, a, ex, st, node):
                if a == 'length':
                    self.reads += 1
                    napp = len([e for e in self.events if e[0] in (
                        'append', 'reset', 'set_length')])
                    v = z3.Int('nbrs_length_read_%d' % self.reads)
                    self.events.append(('read', v, napp))
                    return v
                if a in ('reset', 'c_reset'):
                    return Native(lambda e, s_, ar, kw, nd:
                                  self.events.append(('reset',)))
                return NbrsModel.vc_getattr(self, a, ex, st, node)

            def vc_setattr(self, a, v, ex, st, node):
                self.events.append(('set_' + a, v))
        nbrs = Nb(events)
        obj = SymObject(cls_, dict(
            src=ws[1], dst=ws[0], pa_wrappers=ws,
            radius_scale=z3.Real('rs'), radius_scale2=z3.Real('rs2'),
            sort_gids=True, src_index=1, dst_index=0,
            xmin=C17.carr('xmin', length=z3.IntVal(3), elem='real'),
            cell_size=z3.Real('cell_size'), dim=z3.Int('dim'),
            n_cells=z3.Int('n_cells'), head=C17.carr('head'),
            next=C17.carr('next'),
            cell_shifts=C17.carr('cell_shifts', length=z3.IntVal(3)),
            ncells_per_dim=C17.carr('ncells_per_dim', length=z3.IntVal(3)),
        ), 'self')
        obj.module = m

        def sort_c(e, s_, a, k, nd):
            calls.append((a, list(events)))
        # NNPS._sort_neighbors (nnps_base.pyx, std::sort: assumed to permute
        # the given segment) is modelled on the object
        obj.attrs['_sort_neighbors'] = Native(sort_c)
        ex = AbstractExecutor(repo, m, qualname='%s.%s' % (cls_, fname_),
                              int_names=index_names(fn), inline=set())
        ex.spec_env['UINT_MAX'] = UINT_MAX
        ex.spec_env['norm2'] = _FuncRef(pxd, pxd.functions['norm2'])
        ex.spec_env['addr_of'] = Native(lambda e, s_, a, k, nd: ('addr',
                                                                 a[0]))
        ex.spec_env['cPoint_new'] = Native(lambda e, s_, a, k, nd: SymObject(
            None, dict(x=a[0], y=a[1], z=a[2]), 'pnt'))
        args = dict(self=obj, nbrs=nbrs, d_idx=z3.Int('d_idx'))
        try:
            if fname_ == 'get_nearest_particles_no_cache':
                for pre_ in (False, True):
                    args.update(src_index=1, dst_index=0, prealloc=pre_)
                    del events[:]
                    nbrs.reads = 0
                    ex.exec_function(fn, args, State(pc=[]))
            else:
                ex.exec_function(fn, args, State(pc=[]))
        except VCError as e:
            ctx.outside(name, str(e))
            continue
        ctx.function(m, fn, '%s.%s (sort_gids on)' % (cls_, fname_),
                     set('abstracted: ' + a_ for a_ in ex.abstracted[:20]))
        ok = len(calls) >= 1
        why = []
        for cargs, evs in calls:
            start, count = cargs[0], cargs[1]
            reads = [e for e in evs if e[0] == 'read']
            resets = [i for i, e in enumerate(evs) if e[0] in ('reset',) or
                      (e[0] == 'set_length' and not S.is_sym(e[1]) and
                       e[1] == 0)]
            appended_before_reset = any(e[0] == 'append' for e in
                                        evs[:resets[0]]) if resets else None
            if resets and not appended_before_reset:
                # the function empties nbrs first: segment = everything,
                # i.e. (nbrs.data, nbrs.length read after the last append)
                good = isinstance(start, NbrsData) and reads and \
                    S.is_sym(count) and count.eq(reads[-1][1])
            else:
                first = reads[0][1] if reads else None
                good = isinstance(start, tuple) and start[0] == 'addr' and \
                    isinstance(start[1], tuple) and \
                    start[1][0] == 'nbrs.data' and first is not None and \
                    S.is_sym(start[1][1]) and start[1][1].eq(first) and \
                    reads[0][2] == 0 and S.is_sym(count) and \
                    z3.simplify(count - (reads[-1][1] - first)).eq(
                        z3.IntVal(0))
            if not good:
                ok = False
                why.append('start=%s count=%s' % (str(start)[:60],
                                                  str(count)[:60]))
        ctx.prove(name, [Obligation(name + '.segment', [], z3.BoolVal(
            bool(ok)), W, extra=dict(calls=len(calls), why=why[:3]))],
            replay=replay_sorted(classes))


def task_sortflag(ctx, repo):
    """object invariant behind sort_gids: the constructor of every class (or
    a base constructor it calls) stores the flag it is given"""
    nb = repo.cython_module(NB)

    def stores(fn):
        for nd in ast.walk(fn):
            if isinstance(nd, ast.Assign) and any(
                    ast.unparse(t).replace(' ', '') == 'self.sort_gids'
                    for t in nd.targets) and \
                    ast.unparse(nd.value) == 'sort_gids':
                return True
        return False
    base_ok = any(stores(nb.methods(c)['__init__']) for c in ('NNPS',
                                                              'NNPSBase'))
    obs = []
    for rel, cls in CONTEXT_CLASSES + [
            ('pysph/base/box_sort_nnps.pyx', 'BoxSortNNPS'),
            ('pysph/base/box_sort_nnps.pyx', 'DictBoxSortNNPS')]:
        m, meths = _class_methods(repo, rel, cls)
        ok = base_ok
        # own constructor, or the one inherited from LinkedListNNPS
        cands = [meths.get('__init__')]
        if cls == 'BoxSortNNPS':
            ll = repo.cython_module(LL)
            cands = [ll.methods('LinkedListNNPS')['__init__']]
        todo = [c for c in cands if c is not None]
        # constructors of in-file bases are reached through Base.__init__
        for c in m.classes:
            if c != cls and c in [b.id for b in m.classes[cls].bases
                                  if isinstance(b, ast.Name)] and \
                    '__init__' in m.methods(c):
                todo.append(m.methods(c)['__init__'])
        ok = ok or any(stores(f) for f in todo)
        obs.append(Obligation('sortflag.%s' % cls, [], z3.BoolVal(bool(ok)),
                              m.path))
    ctx.prove('sortseg.every_constructor_records_sort_gids', obs,
              replay=replay_sorted(ALL_ALGS))


SORTED = r'''
import json, sys
d = json.load(sys.stdin)
if d.get('built'): sys.path.insert(0, d['built'])
import numpy as np
from pysph.base.utils import get_particle_array
from pysph.base import nnps
from cyarray.api import UIntArray
rng = np.random.RandomState(1)
n = 60
bad = None
for cls in d['classes']:
    for cache in (False, True):
        pa = get_particle_array(name='a', x=rng.rand(n), y=rng.rand(n), h=0.15)
        pa.gid[:] = rng.permutation(n)
        nn = getattr(nnps, cls)(dim=2, particles=[pa], sort_gids=True, cache=cache)
        nb = UIntArray()
        for i in range(n):
            nn.get_nearest_particles(0, 0, i, nb)
            ids = nb.get_npy_array()
            g = pa.gid[ids].astype(np.int64)
            d2 = (pa.x - pa.x[i])**2 + (pa.y - pa.y[i])**2
            want = set(np.where(d2 < (2.0*0.15)**2)[0].tolist())
            if not np.all(np.diff(g) >= 0):
                bad = dict(algorithm=cls, cache=cache, particle=i, gids_of_returned_neighbours=g.tolist()[:12]); break
            if set(ids.tolist()) != want:
                bad = dict(algorithm=cls, cache=cache, particle=i, problem='with sort_gids the returned set is not the neighbour set',
                           missing=sorted(want - set(ids.tolist()))[:6], extra=sorted(set(ids.tolist()) - want)[:6]); break
        if bad: break
    if bad: break
print(json.dumps(dict(bad=bad)))
'''


def replay_sorted(classes):
    def rp(model, ob):
        if os.environ.get('PYVC_NO_BUILD_REPLAY'):
            return dict(reproduced=False, note='build replay disabled')
        try:
            tree, msg = native.shared_build()
            if tree is None:
                return dict(reproduced=False, note=msg)
            r = native.run_venv(SORTED, dict(built=tree, classes=[
                c for c in classes if c not in ('ExtendedZOrderNNPS',)]),
                timeout=900, cwd='/tmp')
        except Exception as e:
            return dict(reproduced=False, note=str(e)[-300:])
        if r['bad']:
            return dict(reproduced=True, how='extensions built from the '
                        'working tree; sort_gids=True must return '
                        'neighbours in increasing gid order', **r['bad'])
        return dict(reproduced=False)
    return rp
