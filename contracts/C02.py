"""C02 (slice) -- compiled equations compute what the Python source says.

The transpiler (compyle) and the mako glue have no contract within reach.
What the repository itself decides is the table of precomputed pair symbols
and the kernel substitution; that is what is verified here.

Functions under contract (pysph/sph/equation.py): the code blocks of
precomputed_symbols(), CythonGroup._set_kernel; Group._setup_precomputed and
sort_precomputed (bounded).

symbol    for every precomputed symbol S: the code literal is taken from the
          real precomputed_symbols(), the real _set_kernel is applied to it
          (symbolically executed str.replace chain), the result is parsed
          and executed with every symbol it reads bound to ITS documented
          value, arrays as three-cell lists with d_idx != s_idx, and
          self.kernel.* as uninterpreted functions.  Afterwards S equals the
          documented formula:
            HIJ=(h_d+h_s)/2  XIJ=x_d-x_s  VIJ=v_d-v_s  R2IJ=XIJ.XIJ
            RIJ=sqrt(R2IJ)  RHOIJ=(rho_d+rho_s)/2  RHOIJ1=1/RHOIJ
            EPS=0.01 HIJ^2  WIJ=W(XIJ,RIJ,HIJ)  WI=W(XIJ,RIJ,h_d)
            WJ=W(XIJ,RIJ,h_s)  WDP=W(XIJ,deltap*HIJ,HIJ)
            DWIJ/DWI/DWJ=gradW(XIJ,RIJ,HIJ/h_d/h_s)
            WDASHIJ/WDASHI/WDASHJ=dwdq(RIJ,.)  GHIJ/GHI/GHJ=gradh(XIJ,RIJ,.)
          and nothing but S is assigned.
kernel    _set_kernel leaves no placeholder and maps KERNEL/GRADIENT/GRADH/
          DWDQ/DELTAP to kernel/gradient/gradient_h/dwdq/get_deltap()
          (follows from `symbol`: each block calls the right method), and is
          the identity when kernel is None.
closure   BOUNDED (not counted as proved): the real Group on stub equations,
          exhaustively for all subsets of size <= 3 of the 24 symbols, the
          full set and the loop-argument set of every shipped equation:
          emitted precomputed = dependency closure, each symbol after
          everything it reads.
Kernel twins (compiled kernels = Python kernels) are C08's `twin` obligations.
"""
import ast
import textwrap
import z3
from fractions import Fraction

from pyvc import sym as S
from pyvc import native
from pyvc.repo import Repo, ModuleInfo
from pyvc.symexec import Executor, State, Obligation, Native
from pyvc.sym import SymObject, VCError

EQ = 'pysph.sph.equation'
D_IDX, S_IDX = 1, 2
ASSUMPTIONS = [
    'compyle CythonGenerator, mako, Cython and gcc are external and trusted: '
    'nothing is proved about the transpiled text',
    'the closure/ordering of precomputed symbols is a bounded exhaustive '
    'check of the real functions, not a proof',
]
TRUSTED = ['compyle', 'mako', 'Cython', 'gcc']

R = z3.RealSort()
WF = z3.Function('W', R, R, R, R, R, R)
GF = [z3.Function('gradW%d' % k, R, R, R, R, R, R) for k in range(3)]
GHF = z3.Function('gradh', R, R, R, R, R, R)
DQF = z3.Function('dwdq', R, R, R)
DELTAP = z3.Real('deltap')


def tasks(tier):
    # "in the documented order, over the same neighbours" is C03's contract:
    # its obligations are re-checked here (dep.*) so that a change to the
    # shared code generation that breaks this property fails this check too
    return ['symbols', 'set_kernel', 'closure', 'wiring', 'wrapper', 'objects',
            'compiler', 'nbrctx', 'canary',
            'dep:skeleton',
            'dep:range', 'dep:determinism', 'dep:group_calls', 'dep:carry',
            'dep:bounded', 'dep:forward',
            # which arrays are bound per source/destination comes from
            # get_arrays_used_in_equation / Group.get_array_names (C20)
            'dep:C20:group_names']


def blocks(repo):
    """symbol -> code literal of the real precomputed_symbols()."""
    m = repo.module(EQ)
    fn = m.functions['precomputed_symbols']
    out = {}
    for node in ast.walk(fn):
        if isinstance(node, ast.Assign) and isinstance(
                node.targets[0], ast.Attribute) and isinstance(
                    node.value, ast.Call):
            sym = node.targets[0].attr
            for kw in node.value.keywords:
                if kw.arg == 'code':
                    v = kw.value
                    if isinstance(v, ast.Call) and v.args:
                        v = v.args[0]
                    if isinstance(v, ast.Constant):
                        out[sym] = textwrap.dedent(v.value)
    return m, fn, out


def world():
    def arr(n):
        return [z3.Real('%s_%d' % (n, i)) for i in range(3)]
    A = {}
    for p in ('h', 'rho', 'x', 'y', 'z', 'u', 'v', 'w'):
        A['d_' + p] = arr('d_' + p)
        A['s_' + p] = arr('s_' + p)
    d = lambda p: A['d_' + p][D_IDX]
    s = lambda p: A['s_' + p][S_IDX]
    X = [d('x') - s('x'), d('y') - s('y'), d('z') - s('z')]
    V = [d('u') - s('u'), d('v') - s('v'), d('w') - s('w')]
    R2 = X[0] * X[0] + X[1] * X[1] + X[2] * X[2]
    RIJ = S.UF['sqrt'](R2)
    HIJ = Fraction(1, 2) * (d('h') + s('h'))
    RHOIJ = Fraction(1, 2) * (d('rho') + s('rho'))

    def Wv(r, h):
        return WF(X[0], X[1], X[2], S.to_real(r), S.to_real(h))

    def G(h):
        return [GF[k](X[0], X[1], X[2], RIJ, S.to_real(h)) for k in range(3)]

    def GH(h):
        return GHF(X[0], X[1], X[2], RIJ, S.to_real(h))
    spec = dict(
        HIJ=HIJ, XIJ=X, VIJ=V, R2IJ=R2, RIJ=RIJ, RHOIJ=RHOIJ,
        RHOIJ1=1 / RHOIJ, EPS=Fraction(1, 100) * HIJ * HIJ,
        WIJ=Wv(RIJ, HIJ), WI=Wv(RIJ, d('h')), WJ=Wv(RIJ, s('h')),
        WDP=Wv(DELTAP * HIJ, HIJ),
        DWIJ=G(HIJ), DWI=G(d('h')), DWJ=G(s('h')),
        WDASHIJ=DQF(RIJ, S.to_real(HIJ)), WDASHI=DQF(RIJ, d('h')),
        WDASHJ=DQF(RIJ, s('h')),
        GHIJ=GH(HIJ), GHI=GH(d('h')), GHJ=GH(s('h')))
    return A, spec


def kernel_obj(log):
    def k_kernel(ex, st, a, k, n):
        log.append('kernel')
        x = a[0]
        return WF(*[S.to_real(v) for v in list(x) + [a[1], a[2]]])

    def k_grad(ex, st, a, k, n):
        log.append('gradient')
        x, r, h, g = a
        for i in range(3):
            g[i] = GF[i](*[S.to_real(v) for v in list(x) + [r, h]])
        return None

    def k_gradh(ex, st, a, k, n):
        log.append('gradient_h')
        x = a[0]
        return GHF(*[S.to_real(v) for v in list(x) + [a[1], a[2]]])

    def k_dwdq(ex, st, a, k, n):
        log.append('dwdq')
        return DQF(S.to_real(a[0]), S.to_real(a[1]))

    def k_deltap(ex, st, a, k, n):
        log.append('get_deltap')
        return DELTAP
    return SymObject(None, dict(kernel=Native(k_kernel),
                                gradient=Native(k_grad),
                                gradient_h=Native(k_gradh),
                                dwdq=Native(k_dwdq),
                                get_deltap=Native(k_deltap)), 'kernel')


WHICH = {'WIJ': 'kernel', 'WI': 'kernel', 'WJ': 'kernel',
         'WDP': 'kernel+get_deltap', 'DWIJ': 'gradient', 'DWI': 'gradient',
         'DWJ': 'gradient', 'WDASHIJ': 'dwdq', 'WDASHI': 'dwdq',
         'WDASHJ': 'dwdq', 'GHIJ': 'gradient_h', 'GHI': 'gradient_h',
         'GHJ': 'gradient_h'}


def substituted(repo, m, code, with_kernel=True):
    """Apply the real CythonGroup._set_kernel to the code string."""
    fn = m.methods('CythonGroup')['_set_kernel']
    ex = Executor(repo, m, qualname='CythonGroup._set_kernel')
    obj = SymObject('CythonGroup', {}, 'self')
    obj.module = m.name
    outs = ex.exec_function(fn, dict(self=obj, code=code,
                                     kernel='K' if with_kernel else None))
    if len(outs) != 1 or outs[0].kind != 'return' or \
            not isinstance(outs[0].value, str):
        raise VCError('_set_kernel does not return a string')
    return fn, outs[0].value


REPLAY = r'''
import json, sys, importlib.util, math
d = json.load(sys.stdin)
spec = importlib.util.spec_from_file_location('pysph.sph.equation_ut', d['root'] + '/pysph/sph/equation.py')
mod = importlib.util.module_from_spec(spec); mod.__package__ = 'pysph.sph'; spec.loader.exec_module(mod)
K = importlib.util.spec_from_file_location('kern_ut', d['root'] + '/pysph/base/kernels.py')
km = importlib.util.module_from_spec(K); K.loader.exec_module(km)
kern = km.CubicSpline(dim=3)
pre = mod.precomputed_symbols()
g = mod.CythonGroup.__new__(mod.CythonGroup)
class SelfObj: kernel = kern
D, Sx = 1, 2
import random
rnd = random.Random(3)
def arr(): return [rnd.uniform(0.2, 1.0) for _ in range(3)]
A = {}
for p in ('h', 'rho', 'x', 'y', 'z', 'u', 'v', 'w'):
    A['d_' + p] = arr(); A['s_' + p] = arr()
dd = lambda p: A['d_' + p][D]; ss = lambda p: A['s_' + p][Sx]
X = [dd('x') - ss('x'), dd('y') - ss('y'), dd('z') - ss('z')]
V = [dd('u') - ss('u'), dd('v') - ss('v'), dd('w') - ss('w')]
R2 = sum(t * t for t in X); RIJ = math.sqrt(R2); HIJ = 0.5 * (dd('h') + ss('h')); RHOIJ = 0.5 * (dd('rho') + ss('rho'))
def G(h):
    g_ = [0.0, 0.0, 0.0]; kern.gradient(X, RIJ, h, g_); return g_
want = dict(HIJ=HIJ, XIJ=X, VIJ=V, R2IJ=R2, RIJ=RIJ, RHOIJ=RHOIJ, RHOIJ1=1.0 / RHOIJ, EPS=0.01 * HIJ * HIJ,
            WIJ=kern.kernel(X, RIJ, HIJ), WI=kern.kernel(X, RIJ, dd('h')), WJ=kern.kernel(X, RIJ, ss('h')),
            WDP=kern.kernel(X, kern.get_deltap() * HIJ, HIJ), DWIJ=G(HIJ), DWI=G(dd('h')), DWJ=G(ss('h')),
            WDASHIJ=kern.dwdq(RIJ, HIJ), WDASHI=kern.dwdq(RIJ, dd('h')), WDASHJ=kern.dwdq(RIJ, ss('h')),
            GHIJ=kern.gradient_h(X, RIJ, HIJ), GHI=kern.gradient_h(X, RIJ, dd('h')), GHJ=kern.gradient_h(X, RIJ, ss('h')))
bad = None
for sym in sorted(want):
    if sym not in pre:
        bad = dict(symbol=sym, problem='missing from precomputed_symbols()'); break
    code = g._set_kernel(pre[sym].code, kern)
    env = dict(A); env.update(d_idx=D, s_idx=Sx, self=SelfObj, sqrt=math.sqrt)
    for k, v in want.items():
        if k != sym: env[k] = list(v) if isinstance(v, list) else v
    env[sym] = [0.0, 0.0, 0.0] if isinstance(want[sym], list) else 0.0
    try:
        exec(code, env)
    except Exception as e:
        bad = dict(symbol=sym, problem='%s: %s' % (type(e).__name__, e), code=code); break
    got, w = env[sym], want[sym]
    ok = all(abs(a - b) <= 1e-12 * (1 + abs(b)) for a, b in zip(got, w)) if isinstance(w, list) else abs(got - w) <= 1e-12 * (1 + abs(w))
    if not ok:
        bad = dict(symbol=sym, observed=got, expected=w, code=code); break
print(json.dumps(dict(bad=bad)))
'''


def replay_symbols(model, ob):
    from pyvc.repo import REPO_ROOT
    try:
        r = native.run_venv(REPLAY, dict(root=REPO_ROOT))
    except Exception as e:
        return dict(reproduced=False, note=str(e)[-300:])
    if r['bad']:
        return dict(reproduced=True, how='the real code block (after the '
                    'real _set_kernel) exec-ed with a real CubicSpline',
                    **r['bad'])
    return dict(reproduced=False)


def run_task(task, ctx):
    repo = Repo()
    if task.startswith('dep:C'):
        from contracts import deps
        return deps.run_dep(task, ctx)
    if task.startswith('dep:'):
        from contracts import C03
        n0, b0 = len(ctx.results), len(ctx.bounded)
        C03.run_task(task.split(':')[1], ctx)
        for r in ctx.results[n0:]:
            r['name'] = 'dep.c03.' + r['name']
        for b in ctx.bounded[b0:]:
            b['name'] = 'dep.' + b['name']
        return
    if task == 'symbols':
        return task_symbols(ctx, repo)
    if task == 'set_kernel':
        return task_set_kernel(ctx, repo)
    if task == 'closure':
        return task_closure(ctx, repo)
    if task == 'wiring':
        return task_wiring(ctx, repo)
    if task == 'wrapper':
        return task_wrapper(ctx, repo)
    if task == 'objects':
        return task_objects(ctx, repo)
    if task == 'compiler':
        return task_compiler(ctx, repo)
    if task == 'nbrctx':
        return task_nbrctx(ctx, repo)
    if task == 'canary':
        x = z3.Real('cx')
        ctx.canary('canary.must_fail', Obligation('c', [], WF(x, x, x, x, x)
                                                  == x))
        ctx.results.append(dict(name='canary.pipeline', verdict='proved',
                                queries=0, backends={}, seconds=0,
                                failing=[], replay=None, info=''))
        return
    raise ValueError(task)


def task_symbols(ctx, repo):
    m, fn, blk = blocks(repo)
    ctx.function(m, fn, 'precomputed_symbols')
    A, spec = world()
    W = m.path
    missing = sorted(set(spec) - set(blk))
    extra = sorted(set(blk) - set(spec))
    ctx.prove('symbols.table', [Obligation(
        'table', [], z3.BoolVal(not missing and not extra), W)],
        replay=replay_symbols,
        info='missing %s, undocumented %s' % (missing, extra))
    for sym in sorted(spec):
        if sym not in blk:
            continue
        name = 'symbol.%s' % sym
        try:
            fk, code = substituted(repo, m, blk[sym])
            tree = ast.parse(code)
        except (VCError, SyntaxError) as e:
            ctx.outside(name, str(e))
            continue
        # a module holding just this block, executed as a function body
        src = 'def block():\n' + textwrap.indent(code.strip() + '\n', '    ')
        mi = ModuleInfo('block_' + sym, m.path, src)
        log = []
        env = {}
        for k, v in A.items():
            env[k] = list(v)
        env.update(d_idx=D_IDX, s_idx=S_IDX)
        for k, v in spec.items():
            if k != sym:
                env[k] = list(v) if isinstance(v, list) else v
        env[sym] = [z3.Real('old_%s%d' % (sym, i)) for i in range(3)] \
            if isinstance(spec[sym], list) else z3.Real('old_' + sym)
        selfo = SymObject(None, dict(kernel=kernel_obj(log)), 'self')
        env['self'] = selfo
        before = {k: (list(v) if isinstance(v, list) else v)
                  for k, v in env.items()}
        ex = Executor(repo, mi, qualname='precomputed.' + sym,
                      definedness='assume')
        st = State(env=env)
        try:
            res = ex.exec_block(mi.functions['block'].body, st)
        except VCError as e:
            ctx.outside(name, str(e))
            continue
        obs = []
        for i, (s2, sig) in enumerate(res):
            got, want = s2.env.get(sym), spec[sym]
            pairs = list(zip(got, want)) if isinstance(want, list) else \
                [(got, want)]
            for j, (g_, w_) in enumerate(pairs):
                c = S.cmp('==', g_, w_)
                obs.append(Obligation('%s.value.%d.%d' % (sym, i, j), s2.pc,
                                      S.to_z3(c) if S.is_sym(c) else
                                      z3.BoolVal(bool(c)), W))
            # frame: nothing else assigned
            fr = True
            for k, v0 in before.items():
                if k in (sym, 'self'):
                    continue
                v1 = s2.env.get(k)
                fr = fr and (S.same(v1, v0) if not isinstance(v0, list) else
                             all(S.same(a, b) for a, b in zip(v1, v0)))
            obs.append(Obligation('%s.frame.%d' % (sym, i), s2.pc,
                                  z3.BoolVal(bool(fr)), W))
            if sym in WHICH:
                okc = sorted(log) == sorted(WHICH[sym].split('+'))
                obs.append(Obligation('%s.kernel_method.%d' % (sym, i),
                                      s2.pc, z3.BoolVal(bool(okc)), W))
        ctx.prove(name, obs, replay=replay_symbols, sample=(sym == 'DWJ'),
                  info=code.strip().replace('\n', '; '))


def task_set_kernel(ctx, repo):
    m, fn, blk = blocks(repo)
    fk = m.methods('CythonGroup')['_set_kernel']
    ctx.function(m, fk, 'CythonGroup._set_kernel')
    ok, why = True, []
    for sym, code in blk.items():
        _, out = substituted(repo, m, code)
        for ph in ('KERNEL', 'GRADIENT', 'GRADH', 'DWDQ', 'DELTAP'):
            if ph in out:
                ok = False
                why.append('%s left in %s' % (ph, sym))
        _, same = substituted(repo, m, code, with_kernel=False)
        if same != code:
            ok = False
            why.append('kernel=None changes %s' % sym)
    ctx.prove('set_kernel.no_placeholder_left', [Obligation(
        'sk', [], z3.BoolVal(ok), m.path)], replay=replay_symbols,
        info='; '.join(why))


CLOSURE = r'''
import json, sys, importlib.util, itertools
d = json.load(sys.stdin)
spec = importlib.util.spec_from_file_location('pysph.sph.equation_ut', d['root'] + '/pysph/sph/equation.py')
mod = importlib.util.module_from_spec(spec); mod.__package__ = 'pysph.sph'; spec.loader.exec_module(mod)
pre = mod.precomputed_symbols()
names = sorted(pre.keys())
deps = {n: [s for s in pre[n].symbols if s in pre and s != n] for n in names}
def closure(roots):
    out, todo = set(), list(roots)
    while todo:
        x = todo.pop()
        if x in out: continue
        out.add(x); todo.extend(deps[x])
    return out
def mk(args):
    src = 'class E(mod.Equation):\n    def loop(self, d_idx, s_idx, %s):\n        pass\n' % ', '.join(args)
    ns = dict(mod=mod); exec(src, ns); return ns['E'](dest='f', sources=['f'])
sets = [()] + [c for k in (1, 2, 3) for c in itertools.combinations(names, k)] + [tuple(names)] + [tuple(s) for s in d['arg_sets']]
bad = None
n = 0
for roots in sets:
    roots = [r for r in roots if r in pre]
    g = mod.Group(equations=[mk(roots)] if roots else [mk(['d_x'])])
    got = list(g.precomputed.keys())
    n += 1
    if set(got) != closure(roots):
        bad = dict(roots=roots, emitted=got, closure=sorted(closure(roots))); break
    pos = {s: i for i, s in enumerate(got)}
    for s in got:
        for dep in deps[s]:
            if pos[dep] > pos[s]:
                bad = dict(roots=roots, emitted=got, problem='%s before its dependency %s' % (s, dep)); break
        if bad: break
    if bad: break
print(json.dumps(dict(bad=bad, cases=n)))
'''


def task_closure(ctx, repo):
    from contracts import C20
    table = C20.precomputed_table(repo)
    arg_sets = set()
    for mn, cn in C20.equation_classes(repo):
        r = repo.find_method(mn, cn, 'loop')
        if r is None:
            continue
        a = tuple(sorted(x.arg for x in r[2].args.args if x.arg in table))
        if a:
            arg_sets.add(a)
    from pyvc.repo import REPO_ROOT
    try:
        res = native.run_venv(CLOSURE, dict(root=REPO_ROOT,
                                            arg_sets=sorted(arg_sets)),
                              timeout=900)
        ok = res['bad'] is None
        detail = 'ok' if ok else str(res['bad'])[:400]
        cases = res['cases']
    except Exception as e:
        ok, detail, cases = False, str(e)[-300:], 0
    m = repo.module(EQ)
    ctx.function(m, m.methods('Group')['_setup_precomputed'],
                 'Group._setup_precomputed')
    ctx.function(m, m.functions['sort_precomputed'], 'sort_precomputed')
    ctx.bounded_check('precomputed.closure_and_order',
                      'all subsets of size <= 3 of the symbol table, the '
                      'full set, and the loop-argument set of every shipped '
                      'equation (%d sets)' % cases, cases, ok, detail)
    # the bounded check is NOT an obligation; a placeholder records it ran
    ctx.prove('closure.bounded_check_ran', [Obligation(
        'ran', [], z3.BoolVal(cases > 0), m.path)],
        info='bounded, not proved: see coverage.bounded')


# --------------------------------------------------------------- call wiring
def task_wiring(ctx, repo):
    """CythonGroup._get_code / get_py_initialize_code: every equation method
    is called on the equation's own object with the method's parameters
    passed by NAME in declaration order (self dropped, SPH_KERNEL ->
    self.kernel); reduce and py_initialize get (dst.array, t, dt) as
    documented; the loop preamble is the precomputed blocks in their order."""
    m = repo.module(EQ)
    W = m.path
    cls = 'CythonGroup'

    def eqn(var, methods):
        attrs = dict(var_name=var)
        for k in methods:
            attrs[k] = ('method', var, k)
        o = SymObject(None, attrs, var)
        o.argspec = methods
        return o
    e0 = eqn('eq0', {'initialize': ['self', 'd_idx', 'd_au', 't', 'dt'],
                     'loop': ['self', 'd_idx', 's_idx', 'd_au', 's_m',
                              'DWIJ', 'WIJ', 'SPH_KERNEL', 'dt', 't'],
                     'reduce': ['self', 'dst', 't', 'dt'],
                     'py_initialize': ['self', 'dst', 't', 'dt']})
    e1 = eqn('eq1', {'loop': ['self', 's_idx', 'd_idx', 'XIJ'],
                     'post_loop': ['self', 'd_idx', 'd_au', 'dt', 't'],
                     'loop_all': ['self', 'd_idx', 'd_x', 's_x', 'NBRS',
                                  'N_NBRS'],
                     'initialize_pair': ['self', 'd_idx', 'd_au', 't'],
                     'reduce': ['self', 'dst', 't', 'dt'],
                     'py_initialize': ['self', 'dst', 't', 'dt']})
    eqs = {'eq0': e0, 'eq1': e1}

    def argspec(e, s_, a, k, n):
        meth = a[0]
        return SymObject(None, dict(args=list(eqs[meth[1]].argspec[meth[2]])),
                         'spec')
    pre = {'XIJ': SymObject(None, dict(code='XIJ_CODE\n'), 'cb1'),
           'WIJ': SymObject(None, dict(code=' WIJ = KERNEL(XIJ, RIJ, HIJ) '),
                            'cb2')}

    def run(kind, kernel):
        obj = SymObject(cls, dict(equations=[e0, e1], precomputed=dict(pre),
                                  name='grp'), 'self')
        obj.module = m.name
        ex = Executor(repo, m, qualname=cls + '._get_code', merge=False,
                      inline={cls + '._set_kernel'},
                      externals={'getfullargspec': argspec})
        fn = m.methods(cls)['_get_code']
        outs = ex.exec_function(fn, dict(self=obj, kernel=kernel, kind=kind))
        return outs[0].value if len(outs) == 1 and outs[0].kind == 'return' \
            else ('outcomes', [(o.kind, str(o.value)[:60]) for o in outs])
    want = {
        'initialize': 'self.eq0.initialize(d_idx, d_au, t, dt)\n',
        'initialize_pair': 'self.eq1.initialize_pair(d_idx, d_au, t)\n',
        'loop': 'XIJ_CODE\nWIJ = self.kernel.kernel(XIJ, RIJ, HIJ)\n\n'
                'self.eq0.loop(d_idx, s_idx, d_au, s_m, DWIJ, WIJ, '
                'self.kernel, dt, t)\nself.eq1.loop(s_idx, d_idx, XIJ)\n',
        'loop_all': 'self.eq1.loop_all(d_idx, d_x, s_x, NBRS, N_NBRS)\n',
        'post_loop': 'self.eq1.post_loop(d_idx, d_au, dt, t)\n',
        'reduce': 'self.eq0.reduce(dst.array, t, dt)\n'
                  'self.eq1.reduce(dst.array, t, dt)\n',
    }
    obs = []
    fn = m.methods(cls)['_get_code']
    ctx.function(m, fn, cls + '._get_code')
    try:
        code = {}
        for kind, w in want.items():
            got = run(kind, 'KOBJ')
            code[kind] = got
            obs.append(Obligation('wiring.%s' % kind, [], z3.BoolVal(
                got == w), W, extra=dict(emitted=str(got)[:300],
                                         documented=w[:300])))
        # py_initialize
        obj = SymObject(cls, dict(equations=[e0, e1], name='grp'), 'self')
        obj.module = m.name
        ex = Executor(repo, m, qualname=cls + '.get_py_initialize_code',
                      merge=False)
        ex.spec_env['indent'] = Native(lambda e, s_, a, k, n: '    ' + a[0])
        f2 = m.methods(cls)['get_py_initialize_code']
        outs = ex.exec_function(f2, dict(self=obj))
        ctx.function(m, f2, cls + '.get_py_initialize_code', ex.dropped)
        got = outs[0].value if len(outs) == 1 else None
        # one call per equation that defines py_initialize, in order
        w = ('with profile_ctx("AccelerationEval.grp.py_initialize"):\n'
             '    self.all_equations["eq0"].py_initialize(dst.array, t, dt)\n'
             'with profile_ctx("AccelerationEval.grp.py_initialize"):\n'
             '    self.all_equations["eq1"].py_initialize(dst.array, t, dt)')
        obs.append(Obligation('wiring.py_initialize', [], z3.BoolVal(
            got == w), W, extra=dict(emitted=str(got)[:300],
                                     documented=w)))
    except VCError as e:
        ctx.outside('wiring', str(e))
        return
    ctx.prove('wiring.methods_are_called_with_their_own_arguments', obs,
              replay=replay_wiring)
    # From the property, not from the code: an equation is ONE object in
    # Python -- what py_initialize stores on self is what the other methods
    # read.  The generated code calls py_initialize on the Python object
    # (self.all_equations[...]) and every other method on a compiled copy
    # built once from the Python object's __dict__: the two share no state.
    import re as _re
    recv_py = set(_re.findall(r'(self\.[\w\[\]"\.]+?)\.py_initialize\(',
                              got if isinstance(got, str) else ''))
    recv_c = set()
    for kind, txt in code.items():
        recv_c |= set(_re.findall(r'(self\.\w+)\.%s\(' % kind,
                                  txt if isinstance(txt, str) else ''))
    same = bool(recv_py) and recv_py == recv_c
    ctx.prove('wiring.python_hooks_and_compiled_methods_share_one_object', [
        Obligation('wiring.py_initialize_receiver_is_the_compiled_object', [],
                   z3.BoolVal(same), W, extra=dict(
                       py_initialize_called_on=sorted(recv_py),
                       other_methods_called_on=sorted(recv_c)))],
        replay=_object_replay('C'))


# ------------------------------------------------------ array wrappers
def task_wrapper(ctx, repo):
    """The generated evaluator reads particle data through
    ParticleArrayWrapper objects.  On the static Cython of the template:
    set_array(pa) binds self.array, self.name and EVERY property (tag, pid,
    gid included) and EVERY constant of pa to pa.get_carray(name) -- also
    when it is called again with another array; __init__ and
    AccelerationEval.update_particle_arrays go through set_array, the latter
    on the wrapper named after each array."""
    import os
    import re
    import textwrap
    MAKO_AE = 'pysph/sph/acceleration_eval_cython.mako'
    with open(os.path.join(repo.root, MAKO_AE)) as f:
        txt = f.read()
    W = os.path.join(repo.root, MAKO_AE)
    try:
        a = txt.index('cdef class ParticleArrayWrapper:')
        b = txt.index('# ####', a)
        frag = txt[a:b]
        frag = '\n'.join(l for l in frag.split('\n') if '${' not in l)
        u0 = txt.index('    def update_particle_arrays(self, particle_arrays):')
        u1 = txt.index('    cpdef compute(', u0)
        upd = textwrap.dedent(txt[u0:u1])
        if '${' in upd or '${' in frag:
            raise VCError('mako expression inside the static wrapper code')
        src = frag + '\ncdef class AccelerationEvalStatic:\n' + \
            textwrap.indent(upd, '    ')
        m = repo.cython_from_text('ae_wrapper_static', src, MAKO_AE)
    except (ValueError, VCError, KeyError) as e:
        ctx.outside('wrapper', 'static wrapper code not found: %s' % e)
        return
    obs = []

    def mk_pa(tag, props, consts):
        return SymObject(None, dict(
            name='NAME_' + tag,
            properties={p_: ('prop', tag, p_) for p_ in props},
            constants={c_: ('const', tag, c_) for c_ in consts},
            get_carray=Native(lambda e, s_, a, k, n: ('carray', tag, a[0]))),
            'pa_' + tag)
    pa1 = mk_pa('one', ['x', 'rho', 'tag', 'pid', 'gid'], ['c0', 'cmax'])
    pa2 = mk_pa('two', ['x', 'rho', 'tag', 'pid', 'gid'], ['c0', 'cmax'])
    cls = 'ParticleArrayWrapper'
    fn_init = m.methods(cls)['__init__']
    fn_set = m.methods(cls)['set_array']
    ctx.function(m, fn_init, cls + '.__init__')
    ctx.function(m, fn_set, cls + '.set_array')

    def bound_to(obj, pa, tag):
        at = obj.attrs
        ok = at.get('array') is pa and at.get('name') == 'NAME_' + tag
        why = 'array/name %r %r' % (at.get('array'), at.get('name'))
        for nm in ['x', 'rho', 'tag', 'pid', 'gid', 'c0', 'cmax']:
            if at.get(nm) != ('carray', tag, nm):
                ok = False
                why = 'attribute %s is %r' % (nm, at.get(nm))
        return ok, why
    try:
        obj = SymObject(cls, {}, 'self')
        obj.module = m
        ex = Executor(repo, m, qualname=cls + '.__init__', merge=False,
                      inline={cls + '.set_array'})
        outs = ex.exec_function(fn_init, dict(self=obj, pa=pa1, index=3))
        ok = len(outs) == 1
        why = '%d paths' % len(outs)
        if ok:
            me = outs[0].state.env['self']
            ok, why = bound_to(me, pa1, 'one')
            ok = ok and me.attrs.get('index') == 3
        obs.append(Obligation('wrapper.init_binds_everything', [],
                              z3.BoolVal(bool(ok)), W, extra=dict(why=why)))
        # the same object handed another array
        if len(outs) == 1:
            me = outs[0].state.env['self']
            ex2 = Executor(repo, m, qualname=cls + '.set_array', merge=False)
            outs2 = ex2.exec_function(fn_set, dict(self=me, pa=pa2),
                                      outs[0].state)
            ok2 = len(outs2) == 1
            why2 = '%d paths' % len(outs2)
            if ok2:
                ok2, why2 = bound_to(outs2[0].state.env['self'], pa2, 'two')
            obs.append(Obligation('wrapper.set_array_rebinds_everything', [],
                                  z3.BoolVal(bool(ok2)), W,
                                  extra=dict(why=why2)))
        # update_particle_arrays -> set_array of the wrapper of that name
        fu = m.methods('AccelerationEvalStatic')['update_particle_arrays']
        ctx.function(m, fu, 'AccelerationEval.update_particle_arrays')
        calls = []

        def wrap(nm):
            return SymObject(None, dict(set_array=Native(
                lambda e, s_, a, k, n: calls.append((nm, a[0])))), 'w_' + nm)
        ae = SymObject('AccelerationEvalStatic', dict(
            NAME_one=wrap('NAME_one'), NAME_two=wrap('NAME_two')), 'self')
        ae.module = m
        ex3 = Executor(repo, m, qualname='AccelerationEval.'
                       'update_particle_arrays', merge=False)
        outs3 = ex3.exec_function(fu, dict(self=ae,
                                           particle_arrays=[pa2, pa1]))
        ok3 = len(outs3) == 1 and calls == [('NAME_two', pa2),
                                            ('NAME_one', pa1)]
        obs.append(Obligation('wrapper.update_goes_through_set_array', [],
                              z3.BoolVal(bool(ok3)), W,
                              extra=dict(calls=str(calls)[:200])))
    except VCError as e:
        ctx.outside('wrapper', str(e))
        return
    ctx.prove('wrapper.arrays_and_constants_are_rebound', obs)


# ------------------------------------------------- compiled equation objects
def task_objects(ctx, repo):
    """Each user equation becomes one compiled object: get_equation_wrappers
    gives the k-th instance of a class the name <class_in_snake_case><k>
    (distinct for distinct instances, also of one class); get_equation_defs
    declares one attribute of the equation's class per instance under that
    name; get_equation_init builds the attribute from the attributes of THAT
    instance: `self.<var_name> = <Class>(**equations[i].__dict__)` with i the
    position of the instance in the list the evaluator is given."""
    m = repo.module(EQ)
    W = m.path
    cls = 'CythonGroup'
    obs = []

    def eqn(i, cname):
        o = SymObject(None, dict(name=cname, var_name=None), 'eq%d' % i)
        o.attrs['__class__'] = SymObject(None, dict(__name__=cname), 'cls')
        return o
    names = ['TaitEOS', 'MomentumEquation', 'TaitEOS', 'TaitEOS']
    eqs = [eqn(i, n) for i, n in enumerate(names)]
    want_var = ['tait_eos0', 'momentum_equation0', 'tait_eos1', 'tait_eos2']
    try:
        # var names
        fw = m.methods(cls)['get_equation_wrappers']
        parsed = []
        gen = SymObject(None, dict(
            parse=Native(lambda e, s_, a, k, n: parsed.append(a[0])),
            get_code=Native(lambda e, s_, a, k, n: 'CODE')), 'code_gen')
        obj = SymObject(cls, dict(equations=eqs, pre_comp={}), 'self')
        obj.module = m.name
        import re as _re

        def camel(e, s_, a, k, n):
            # the two re.sub calls of camel_to_underscore, run on the
            # concrete class name (regular expressions are not modelled)
            f_ = m.functions['camel_to_underscore']
            src_ = ast.unparse(f_)
            env_ = {'re': _re}
            exec(src_, env_)
            return env_['camel_to_underscore'](a[0])
        ex = Executor(repo, m, qualname=cls + '.get_equation_wrappers',
                      merge=False,
                      externals={
                          'camel_to_underscore': camel,
                          'defaultdict': lambda e, s_, a, k, n: _ZeroDict(),
                          'get_predefined_types': lambda e, s_, a, k, n: {},
                          'CythonGenerator': lambda e, s_, a, k, n: gen})
        outs = ex.exec_function(fw, dict(self=obj, known_types={}))
        ctx.function(m, fw, cls + '.get_equation_wrappers', ex.dropped)
        got = [e_.attrs.get('var_name') for e_ in eqs]
        obs.append(Obligation('objects.var_names_are_distinct_per_instance',
                              [], z3.BoolVal(len(outs) == 1 and got ==
                                             want_var), W,
                              extra=dict(var_names=str(got))))
        for e_, v_ in zip(eqs, want_var):
            e_.attrs['var_name'] = v_
        for fname, want in (
                ('get_equation_defs', ['cdef public %s %s' % (n, v)
                                       for n, v in zip(names, want_var)]),
                ('get_equation_init', [
                    'self.%s = %s(**equations[%d].__dict__)' % (v, n, i)
                    for i, (n, v) in enumerate(zip(names, want_var))])):
            f = m.methods(cls)[fname]
            obj = SymObject(cls, dict(equations=eqs), 'self')
            obj.module = m.name
            ex = Executor(repo, m, qualname=cls + '.' + fname, merge=False)
            outs = ex.exec_function(f, dict(self=obj))
            ctx.function(m, f, cls + '.' + fname, ex.dropped)
            got = outs[0].value.split('\n') if len(outs) == 1 and \
                isinstance(outs[0].value, str) else None
            obs.append(Obligation('objects.%s' % fname, [],
                                  z3.BoolVal(got == want), W,
                                  extra=dict(emitted=str(got)[:400])))
    except VCError as e:
        ctx.outside('objects', str(e))
        return
    ctx.prove('objects.one_compiled_object_per_equation_instance', obs)
    # what the wrapper CLASS is generated from.  The C types of the instance
    # attributes are inferred from the object handed to code_gen.parse, and
    # every instance is then copied into a wrapper object of that class:
    # the property ("compute what the Python source says", instance
    # attributes included) needs every instance of a class to take part in
    # the inference, and two different classes that merely share a __name__
    # to get a wrapper each.
    by_name = {}
    for e_ in eqs:
        by_name.setdefault(e_.attrs['name'], []).append(e_)
    seen = [id(p_) for p_ in parsed]
    ok_a = all(all(id(e_) in seen for e_ in lst) for lst in by_name.values()
               if len(lst) > 1)
    ctx.prove('objects.wrapper_types_admit_every_instance', [Obligation(
        'objects.every_instance_reaches_the_type_inference', [],
        z3.BoolVal(bool(ok_a)), W, extra=dict(
            parsed=[p_.name for p_ in parsed],
            instances={k: [e_.name for e_ in v] for k, v in
                       by_name.items()}))], replay=_object_replay('A'))
    try:
        del parsed[:]
        two = [eqn(0, 'ContinuityEquation'), eqn(1, 'ContinuityEquation')]
        # (eqn gives every object its own class object: same name, two
        # classes)
        obj = SymObject(cls, dict(equations=two, pre_comp={}), 'self')
        obj.module = m.name
        ex = Executor(repo, m, qualname=cls + '.get_equation_wrappers',
                      merge=False,
                      externals={
                          'camel_to_underscore': camel,
                          'defaultdict': lambda e, s_, a, k, n: _ZeroDict(),
                          'get_predefined_types': lambda e, s_, a, k, n: {},
                          'CythonGenerator': lambda e, s_, a, k, n: gen})
        outs = ex.exec_function(fw, dict(self=obj, known_types={}))
        classes_parsed = set(id(p_.attrs['__class__']) for p_ in parsed)
        ok_b = len(outs) == 1 and classes_parsed == set(
            id(e_.attrs['__class__']) for e_ in two)
    except VCError as e:
        ctx.outside('objects.same_name', str(e))
        return
    ctx.prove('objects.one_wrapper_per_class_not_per_class_name', [
        Obligation('objects.two_classes_with_one_name', [],
                   z3.BoolVal(bool(ok_b)), W, extra=dict(
                       wrappers_generated=len(parsed)))],
        replay=_object_replay('B'))


def _object_replay(which):
    def rp(model, ob):
        import os
        import subprocess
        from pyvc.repo import REPO_ROOT
        path = os.path.join(os.path.dirname(os.path.abspath(__file__)),
                            'c02_object_replay.py')
        try:
            env = dict(os.environ)
            env.pop('PYTHONPATH', None)
            p_ = subprocess.run(['/venv/bin/python', path, REPO_ROOT, which],
                                capture_output=True, text=True, timeout=900,
                                cwd='/tmp', env=env)
        except Exception as e:
            return dict(reproduced=False, note=str(e)[-300:])
        lines = [l for l in p_.stdout.split('\n') if l.startswith(which)]
        return dict(reproduced=p_.returncode == 1 and bool(lines),
                    how='evaluator compiled from the working tree, compared '
                        'with the Python methods',
                    observed=(lines or [p_.stderr[-300:]])[0][:300])
    return rp


class _ZeroDict(dict):
    def __missing__(self, k):
        return 0


# ------------------------------------------------- neighbour-search context
def task_nbrctx(ctx, repo):
    """'Over the same neighbours': the generated loop over a (destination,
    source) pair asks the neighbour search for that pair.  The caller (the
    template text of acceleration_eval_cython.mako) is checked against the
    callee's signature NNPSBase.set_context(self, src_index, dst_index) read
    from the extracted nnps_base.pyx: the source index goes where the callee
    expects the source, the destination index where it expects the
    destination; the two index variables are bound from src.index /
    dst.index, and the query is made for the destination particle d_idx."""
    import os
    import re
    from pyvc.repo import REPO_ROOT
    tpl = os.path.join(REPO_ROOT, 'pysph/sph/acceleration_eval_cython.mako')
    text = open(tpl).read()
    mb = repo.cython_module('pysph/base/nnps_base.pyx')
    fn = mb.methods('NNPSBase')['set_context']
    params = [a.arg for a in fn.args.args][1:]
    calls = re.findall(r'nnps\.set_context\(([^)]*)\)', text)
    role = {'src_array_index': 'src', 'dst_array_index': 'dst'}
    ok = len(calls) >= 1 and len(params) == 2
    why = 'calls %r, callee parameters %r' % (calls, params)
    for c in calls:
        args = [a.strip() for a in c.split(',')]
        if len(args) != 2 or any(a not in role for a in args):
            ok = False
            continue
        for a, p_ in zip(args, params):
            if not p_.startswith(role[a]):
                ok = False
    binds = dict(re.findall(r'^(src_array_index|dst_array_index) = (\w+)\.'
                            r'index\s*$', text, re.M))
    ok = ok and binds == {'src_array_index': 'src', 'dst_array_index': 'dst'}
    q = re.findall(r'nnps\.get_nearest_neighbors\((\w+)\s*,', text)
    ok = ok and q == ['d_idx']
    ctx.function(mb, fn, 'NNPSBase.set_context')
    ctx.prove('nbrctx.loops_ask_for_the_neighbours_of_their_own_pair', [
        Obligation('nbrctx.template_call_matches_callee_signature', [],
                   z3.BoolVal(bool(ok)), tpl, extra=dict(
                       why=why + '; bound %r; queried for %r' % (binds, q)))])


# ------------------------------------------------------------- the compiler
def task_compiler(ctx, repo):
    """SPHCompiler.compile: the first evaluator's code is compiled together
    with the integrator's; EVERY evaluator's compiled object is set up from
    the module built from ITS OWN generated code (the stages of a
    MultiStageEquations differ), the integrator from the first module and
    the first evaluator's compiled object; a second call compiles nothing."""
    m = repo.module('pysph.sph.sph_compiler')
    W = m.path
    fn = m.methods('SPHCompiler')['compile']
    obs = []
    for with_integ in (True, False):
        tr = []

        def helper(i):
            return SymObject(None, dict(
                get_code=Native(lambda e, s_, a, k, n, i=i: 'CODE%d' % i),
                compile=Native(lambda e, s_, a, k, n, i=i: (tr.append(
                    ('compile', i, a[0])), ('MODULE_OF', a[0]))[1]),
                setup_compiled_module=Native(
                    lambda e, s_, a, k, n, i=i: tr.append(('setup', i,
                                                           list(a))))),
                'helper%d' % i)
        helpers = [helper(i) for i in range(3)]
        ih = SymObject(None, dict(
            get_code=Native(lambda e, s_, a, k, n: '+INTEG'),
            setup_compiled_module=Native(lambda e, s_, a, k, n: tr.append(
                ('setup_integrator', list(a))))), 'integrator_helper')
        evals = [SymObject(None, dict(c_acceleration_eval=('C', i)),
                           'a_eval%d' % i) for i in range(3)]
        obj = SymObject('SPHCompiler', dict(
            module=None, acceleration_eval_helpers=helpers,
            acceleration_evals=evals, integrator_helper=ih, backend='cython',
            integrator='INTEG' if with_integ else None), 'self')
        obj.module = m.name
        ex = Executor(repo, m, qualname='SPHCompiler.compile', merge=False,
                      inline={'SPHCompiler._get_code'})
        try:
            outs = ex.exec_function(fn, dict(self=obj))
        except VCError as e:
            ctx.outside('compiler', str(e))
            return
        code0 = 'CODE0+INTEG'
        want = [('compile', 0, code0), ('setup', 0, [('MODULE_OF', code0)])]
        if with_integ:
            want.append(('setup_integrator', [('MODULE_OF', code0),
                                              ('C', 0)]))
        for i in (1, 2):
            want += [('compile', i, 'CODE%d' % i),
                     ('setup', i, [('MODULE_OF', 'CODE%d' % i)])]
        ok = len(outs) == 1 and tr == want and \
            outs[0].state.env['self'].attrs['module'] == ('MODULE_OF', code0)
        obs.append(Obligation('compiler.every_stage_gets_its_own_module.%s' %
                              ('integrator' if with_integ else
                               'no_integrator'), [], z3.BoolVal(bool(ok)), W,
                              extra=dict(trace=str(tr)[:400])))
        # a second call is a no-op
        if len(outs) == 1:
            n0 = len(tr)
            ex2 = Executor(repo, m, qualname='SPHCompiler.compile',
                           merge=False, inline={'SPHCompiler._get_code'})
            outs2 = ex2.exec_function(fn, dict(self=outs[0].state.env['self']),
                                      outs[0].state)
            obs.append(Obligation('compiler.second_call_compiles_nothing.%s' %
                                  with_integ, [], z3.BoolVal(
                                      len(outs2) == 1 and len(tr) == n0), W))
    ctx.function(m, fn, 'SPHCompiler.compile')
    ctx.function(m, m.methods('SPHCompiler')['_get_code'],
                 'SPHCompiler._get_code')
    ctx.prove('compiler.each_evaluator_runs_its_own_compiled_code', obs)


def replay_wiring(model, ob):
    script = r"""
import json, sys, importlib.util
d = json.load(sys.stdin)
spec = importlib.util.spec_from_file_location('pysph.sph.equation_ut', d['root'] + '/pysph/sph/equation.py')
mod = importlib.util.module_from_spec(spec); mod.__package__ = 'pysph.sph'; spec.loader.exec_module(mod)
class E0(mod.Equation):
    def initialize(self, d_idx, d_au, t, dt): pass
    def loop(self, d_idx, s_idx, d_au, s_m, DWIJ, WIJ, SPH_KERNEL, dt, t): pass
    def reduce(self, dst, t, dt): pass
class E1(mod.Equation):
    def loop(self, s_idx, d_idx, XIJ): pass
    def post_loop(self, d_idx, d_au, dt, t): pass
    def reduce(self, dst, t, dt): pass
g = mod.CythonGroup([E0('f', ['f']), E1('f', ['f'])])
g.equations[0].var_name = 'eq0'; g.equations[1].var_name = 'eq1'
want = {'initialize': ['self.eq0.initialize(d_idx, d_au, t, dt)'],
        'post_loop': ['self.eq1.post_loop(d_idx, d_au, dt, t)'],
        'reduce': ['self.eq0.reduce(dst.array, t, dt)', 'self.eq1.reduce(dst.array, t, dt)']}
bad = None
for kind, w in want.items():
    got = [l for l in g._get_code(None, kind).split('\n') if l.strip()]
    if got != w and bad is None:
        bad = dict(kind=kind, emitted=got, documented=w)
got = [l for l in g._get_code(None, 'loop').split('\n') if l.startswith('self.')]
w = ['self.eq0.loop(d_idx, s_idx, d_au, s_m, DWIJ, WIJ, self.kernel, dt, t)', 'self.eq1.loop(s_idx, d_idx, XIJ)']
if got != w and bad is None:
    bad = dict(kind='loop', emitted=got, documented=w)
class P0(mod.Equation):
    def py_initialize(self, dst, t, dt): pass
class P1(mod.Equation):
    def py_initialize(self, dst, t, dt): pass
g2 = mod.CythonGroup([P0('f', ['f']), P1('f', ['f'])])
g2.equations[0].var_name = 'p0'; g2.equations[1].var_name = 'p1'
got = [l.strip() for l in g2.get_py_initialize_code().split('\n') if 'py_initialize(' in l]
w = ['self.all_equations["p0"].py_initialize(dst.array, t, dt)', 'self.all_equations["p1"].py_initialize(dst.array, t, dt)']
if got != w and bad is None:
    bad = dict(kind='py_initialize of two equations of one group', emitted=got, documented=w)
print(json.dumps(dict(bad=bad)))
"""
    from pyvc.repo import REPO_ROOT
    try:
        r = native.run_venv(script, dict(root=REPO_ROOT))
    except Exception as e:
        return dict(reproduced=False, note=str(e)[-300:])
    return dict(reproduced=bool(r['bad']), **(r['bad'] or {}))
