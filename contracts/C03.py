"""C03 (slice) -- groups run in the documented order, over the documented
particles.

Functions under contract: pysph/sph/acceleration_eval_cython_helper.py
get_iteration_init, get_iteration_check, get_dest_array_setup,
get_parallel_range; pysph/sph/equation.py Group.get_converged_condition;
pysph/sph/acceleration_eval.py MegaGroup._make_data;
pysph/sph/acceleration_eval_cython.mako (do_group).

PROVED
skeleton  the text emitted by the real get_iteration_init / get_iteration_
          check (obtained by executing them; the two integer literals are
          generalised to symbols MIN, MAX) is parsed and verified as a loop
          with ghost pass counter k and an arbitrary convergence predicate
          conv(k): invariant  _iteration_count = k + 1, no earlier pass
          satisfied  stop(j) := j >= MIN and (conv(j) or j = MAX);  on exit
          stop(k) holds for the last pass k, k >= 1, k <= MAX (for 1 <= MAX,
          MIN <= MAX), and _iteration_count is reset to 1.  So an iterated
          group repeats until all equations converge, at least MIN and at
          most MAX times -- and not one pass more.
range     get_dest_array_setup: start None/str/number x stop None/str/number
          (exhaustive over the kinds): D_START_IDX / NP_DEST are the
          documented expressions, NP_DEST = size(real=<group.real>) when no
          stop index is given; pointer set-up for every destination array.
BOUNDED (labelled, not counted as proved; a failing case is still reported)
converged get_converged_condition joins every equation's converged() with
          ' & ' (no short circuit), recursing into sub-groups (<= 3 each).
make_data MegaGroup._make_data: destinations in order of first appearance,
          per-source and all-equation lists in user order, each equation
          once: every equation list of length <= 4 over 3 destinations x
          {no source, [a], [a, b]}.
emission  do_group of the real template rendered with marker stubs for every
          valuation of its 9 guards and 1-2 destinations x 0-2 sources: the
          markers appear in the documented order (dest set-up, py_initialize,
          initialize, no-source loop, per source: set-up, initialize_pair,
          set_context, loop_all, loop; post_loop, reduce; update_domain then
          update; post) and a source with loop_all but no loop still gets
          its neighbour block.
"""
import ast
import textwrap
import z3

from pyvc import sym as S
from pyvc import native
from pyvc.repo import Repo, ModuleInfo
from pyvc.symexec import Executor, State, Obligation, Native, LoopSpec
from pyvc.sym import SymObject, VCError

HP = 'pysph.sph.acceleration_eval_cython_helper'
ASSUMPTIONS = [
    'Cython semantics of the emitted text; compyle get_parallel_range',
    'bounded parts are exhaustive enumerations with stated bounds on list '
    'lengths, not proofs',
]
TRUSTED = ['mako (renders the real template in the bounded emission check)']
SMAX, SMIN = 987654, 123456


def tasks(tier):
    return ['skeleton', 'range', 'determinism', 'group_calls', 'carry',
            'bounded', 'forward', 'canary']


def task_forward(ctx, repo):
    """AccelerationEval (Python side): compute(t, dt) runs the compiled
    evaluator once at the same (t, dt); set_nnps stores the object and hands
    the same object on; update_particle_arrays hands the same arrays on;
    set_compiled_object stores it."""
    m = repo.module('pysph.sph.acceleration_eval')
    W = m.path
    M = m.methods('AccelerationEval')
    obs = []

    def run(fname, args):
        calls = []

        def rec(tag):
            return Native(lambda e, s_, a, k, n: calls.append(
                (tag, list(a), dict(k))))
        c = SymObject(None, dict(compute=rec('c.compute'),
                                 set_nnps=rec('c.set_nnps'),
                                 update_particle_arrays=rec('c.update')),
                      'c_acceleration_eval')
        obj = SymObject('AccelerationEval', dict(c_acceleration_eval=c,
                                                 nnps='old'), 'self')
        obj.module = m.name
        ex = Executor(repo, m, qualname='AccelerationEval.' + fname,
                      merge=False)
        outs = ex.exec_function(M[fname], dict(self=obj, **args))
        ctx.function(m, M[fname], 'AccelerationEval.' + fname, ex.dropped)
        return outs, calls
    t, dt = z3.Real('t'), z3.Real('dt')
    try:
        outs, calls = run('compute', dict(t=t, dt=dt))
        obs.append(Obligation('forward.compute', [], z3.BoolVal(
            len(outs) == 1 and calls == [('c.compute', [t, dt], {})]), W,
            extra=dict(calls=str(calls)[:200])))
        outs, calls = run('set_nnps', dict(nnps='NEW'))
        obs.append(Obligation('forward.set_nnps', [], z3.BoolVal(
            len(outs) == 1 and calls == [('c.set_nnps', ['NEW'], {})] and
            outs[0].state.env['self'].attrs['nnps'] == 'NEW'), W))
        outs, calls = run('update_particle_arrays',
                          dict(particle_arrays='ARRAYS'))
        obs.append(Obligation('forward.update_particle_arrays', [],
                              z3.BoolVal(len(outs) == 1 and calls == [
                                  ('c.update', ['ARRAYS'], {})]), W))
        outs, calls = run('set_compiled_object',
                          dict(c_acceleration_eval='C2'))
        obs.append(Obligation('forward.set_compiled_object', [], z3.BoolVal(
            len(outs) == 1 and not calls and outs[0].state.env['self'].attrs[
                'c_acceleration_eval'] == 'C2'), W))
    except VCError as e:
        ctx.outside('forward', str(e))
        return
    ctx.prove('forward.python_side_reaches_the_compiled_evaluator', obs)


def helper_obj(m):
    o = SymObject('AccelerationEvalCythonHelper', {}, 'self')
    o.module = m.name
    return o


def emitted_skeleton(repo, m):
    cls = 'AccelerationEvalCythonHelper'
    grp = SymObject(None, dict(
        max_iterations=SMAX, min_iterations=SMIN,
        get_converged_condition=Native(lambda e, s_, a, k, n: 'CONVERGED')),
        'group')
    ex = Executor(repo, m, qualname=cls + '.get_iteration_init',
                  externals={'dedent': lambda e, s_, a, k, n:
                             textwrap.dedent(a[0])})
    o1 = ex.exec_function(m.methods(cls)['get_iteration_init'],
                          dict(self=helper_obj(m), group=grp))
    o2 = ex.exec_function(m.methods(cls)['get_iteration_check'],
                          dict(self=helper_obj(m), group=grp))
    if len(o1) != 1 or len(o2) != 1 or not isinstance(o1[0].value, str) \
            or not isinstance(o2[0].value, str):
        raise VCError('iteration helpers do not return text')
    return o1[0].value, o2[0].value


def run_task(task, ctx):
    repo = Repo()
    m = repo.module(HP)
    if task == 'skeleton':
        return task_skeleton(ctx, repo, m)
    if task == 'range':
        return task_range(ctx, repo, m)
    if task == 'bounded':
        return task_bounded(ctx, repo, m)
    if task == 'determinism':
        return task_determinism(ctx, repo)
    if task == 'group_calls':
        return task_group_calls(ctx, repo, m)
    if task == 'carry':
        return task_carry(ctx, repo, m)
    if task == 'forward':
        return task_forward(ctx, repo)
    if task == 'canary':
        k = z3.Int('ck')
        ctx.canary('canary.must_fail', Obligation('c', [k >= 1], k >= 2))
        ctx.results.append(dict(name='canary.pipeline', verdict='proved',
                                queries=0, backends={}, seconds=0,
                                failing=[], replay=None, info=''))
        return
    raise ValueError(task)


def task_group_calls(ctx, repo, m):
    """condition / pre / post of a group are called on THAT group's object:
    the emitted receiver is self.groups[i] for the i-th group and
    self.groups[i].data[j] for its j-th sub-group -- also when groups share
    a name (the name is a profiling label, not an identity)."""
    cls = 'AccelerationEvalCythonHelper'
    W = m.path

    def grp(tag, subs=None):
        return SymObject(None, dict(name='same_name', has_subgroups=bool(
            subs), data=subs or {}), tag)
    s0, s1 = grp('S0'), grp('S1')
    g0, g1, g2 = grp('G0', [s0, s1]), grp('G1'), grp('G2', [grp('T0')])
    obj = SymObject(cls, dict(object=SymObject(None, dict(
        mega_groups=[g0, g1, g2]), 'acceleration_eval')), 'self')
    obj.module = m.name
    ex = Executor(repo, m, qualname=cls + '._compute_group_map', merge=False)
    fn = m.methods(cls)['_compute_group_map']
    try:
        outs = ex.exec_function(fn, dict(self=obj))
    except VCError as e:
        ctx.outside('group_calls', str(e))
        return
    ctx.function(m, fn, cls + '._compute_group_map', ex.dropped)
    obs = [Obligation('group_calls.map_built', [], z3.BoolVal(
        len(outs) == 1), W)]
    if len(outs) == 1:
        me = outs[0].state.env['self']
        # the executor clones objects: find the clones by tag
        def find(tag):
            def walk(v):
                if isinstance(v, SymObject) and v.name == tag:
                    return v
                if isinstance(v, SymObject):
                    for x in v.attrs.values():
                        r = walk(x)
                        if r is not None:
                            return r
                if isinstance(v, (list, tuple)):
                    for x in v:
                        r = walk(x)
                        if r is not None:
                            return r
                return None
            return walk(me)
        want = {'G0': 'self.groups[0]', 'S0': 'self.groups[0].data[0]',
                'S1': 'self.groups[0].data[1]', 'G1': 'self.groups[1]',
                'G2': 'self.groups[2]', 'T0': 'self.groups[2].data[0]'}
        for meth, suffix in (('get_condition_call', '.condition(t, dt)'),
                             ('get_pre_call', '.pre()'),
                             ('get_post_call', '.post()')):
            f2 = m.methods(cls)[meth]
            for tag, recv in sorted(want.items()):
                ex2 = Executor(repo, m, qualname='%s.%s' % (cls, meth),
                               merge=False)
                try:
                    o2 = ex2.exec_function(f2, dict(self=me,
                                                    group=find(tag)))
                    got = o2[0].value if len(o2) == 1 else None
                except (VCError, KeyError) as e:
                    got = 'error: %s' % e
                obs.append(Obligation('group_calls.%s.%s' % (meth, tag), [],
                                      z3.BoolVal(got == recv + suffix), W,
                                      extra=dict(emitted=str(got)[:120],
                                                 documented=recv + suffix)))
            ctx.function(m, f2, '%s.%s' % (cls, meth), set())
    ctx.prove('group_calls.callbacks_are_called_on_their_own_group', obs)


def task_carry(ctx, repo, m):
    """What the code generator reads from a MegaGroup is what the user put on
    the Group (every documented option is carried over unchanged); a source
    loop runs over ALL particles of the source (ghosts included); the
    destination loop range is D_START_IDX .. NP_DEST."""
    ma = repo.module('pysph.sph.acceleration_eval')
    W = ma.path
    obs = []
    fn = ma.methods('MegaGroup')['__init__']
    opts = ('real', 'update_nnps', 'iterate', 'pre', 'post',
            'max_iterations', 'min_iterations', 'has_subgroups',
            'condition', 'start_idx', 'stop_idx', 'name')
    vals = {k: ('VALUE_OF', k) for k in opts}
    grp = SymObject(None, dict(vals), 'group')
    me = SymObject('MegaGroup', {}, 'self')
    me.module = ma.name
    from pyvc.symexec import CalleeContract
    ex = Executor(repo, ma, qualname='MegaGroup.__init__', merge=False,
                  inline={'MegaGroup._copy_props'}, contracts={
                      'MegaGroup._make_data': CalleeContract(
                          lambda e, s_, a, k, n: ('DATA_OF', a[1].name))})
    try:
        outs = ex.exec_function(fn, dict(self=me, group=grp,
                                         group_cls='GROUPCLS'))
        ok = len(outs) == 1
        got = outs[0].state.env['self'].attrs if ok else {}
        missing = [k for k in opts if got.get(k) != vals[k]]
        ok = ok and not missing and got.get('data') == ('DATA_OF', 'group') \
            and got.get('Group') == 'GROUPCLS'
    except VCError as e:
        ok, missing = False, [str(e)]
    ctx.function(ma, fn, 'MegaGroup.__init__')
    ctx.function(ma, ma.methods('MegaGroup')['_copy_props'],
                 'MegaGroup._copy_props')
    obs.append(Obligation('carry.megagroup_has_every_group_option', [],
                          z3.BoolVal(bool(ok)), W,
                          extra=dict(not_carried=missing)))
    # a group of sub-groups: one MegaGroup per sub-group, in order, each
    # left as its own constructor made it (its own real flag, ranges,
    # iteration settings) whatever the parent's options are
    fmd = ma.methods('MegaGroup')['_make_data']
    for parent_real in (False, True):
        subs = [SymObject(None, dict(real=r_, name='sub%d' % i_), 'g%d' % i_)
                for i_, r_ in enumerate((True, False, True))]
        built = []

        def mk(e, s_, a, k, n):
            o_ = SymObject(None, dict(real=a[0].attrs['real'],
                                      name=a[0].attrs['name'],
                                      start_idx=('own', a[0].name),
                                      group_cls=a[1]), 'mg_' + a[0].name)
            built.append((a[0], o_))
            return o_
        pg = SymObject(None, dict(equations=list(subs), has_subgroups=True,
                                  real=parent_real), 'group')
        me3 = SymObject('MegaGroup', dict(Group='GROUPCLS',
                                          real=parent_real), 'self')
        me3.module = ma.name
        ex = Executor(repo, ma, qualname='MegaGroup._make_data', merge=False,
                      externals={'MegaGroup': mk})
        try:
            outs = ex.exec_function(fmd, dict(self=me3, group=pg))
            ok = len(outs) == 1 and isinstance(outs[0].value, list) and \
                [b[0] for b in built] == subs and \
                len(outs[0].value) == 3 and all(
                    v_ is b[1] for v_, b in zip(outs[0].value, built))
            why = 'returned %r' % (outs[0].value if outs else None,)
            if ok:
                for g_, o_ in built:
                    if o_.attrs['real'] != g_.attrs['real'] or \
                            o_.attrs['start_idx'] != ('own', g_.name) or \
                            o_.attrs['group_cls'] != 'GROUPCLS':
                        ok = False
                        why = 'sub-group %s became %r' % (g_.name, o_.attrs)
        except VCError as e:
            ok, why = False, str(e)
        obs.append(Obligation('carry.subgroups_keep_their_own_options.'
                              'parent_real_%s' % parent_real, [],
                              z3.BoolVal(bool(ok)), W, extra=dict(why=why)))
    # the convergence test of an iterated MegaGroup asks EVERY equation of
    # the group (all destinations, all sub-groups), each once
    fn = ma.methods('MegaGroup')['get_converged_condition']

    def cg(cond):
        return SymObject(None, dict(get_converged_condition=Native(
            lambda e, s_, a, k, n: cond)), 'g')
    for sub in (False, True):
        orig = cg('(A) & (B) & (C)')
        if sub:
            data = [cg('(A)'), cg('(B) & (C)')]
        else:
            data = {'d0': (cg(''), {}, cg('(A) & (B)')),
                    'd1': (cg(''), {}, cg('(C)'))}
        me2 = SymObject('MegaGroup', dict(_orig_group=orig, data=data,
                                          has_subgroups=sub), 'self')
        me2.module = ma.name
        ex = Executor(repo, ma, qualname='MegaGroup.get_converged_condition',
                      merge=False)
        try:
            outs = ex.exec_function(fn, dict(self=me2))
            got = outs[0].value if len(outs) == 1 else None
        except VCError as e:
            got = 'error: %s' % e
        terms = sorted(t.strip() for t in str(got).split('&'))
        obs.append(Obligation('carry.converged_condition_asks_every_equation'
                              '.%s' % ('subgroups' if sub else 'plain'), [],
                              z3.BoolVal(terms == ['(A)', '(B)', '(C)']),
                              W, extra=dict(emitted=str(got)[:120])))
    ctx.function(ma, fn, 'MegaGroup.get_converged_condition')
    # source set-up: all particles of the source
    cls = 'AccelerationEvalCythonHelper'
    fn = m.methods(cls)['get_src_array_setup']
    g1 = SymObject(None, dict(get_array_names=Native(
        lambda e, s_, a, k, n: (set(['s_x', 's_m']), set(['d_au'])))), 'g1')
    ex = Executor(repo, m, qualname=cls + '.get_src_array_setup',
                  merge=False)
    outs = ex.exec_function(fn, dict(self=helper_obj(m), src_name='solid',
                                     eq_group=g1))
    ctx.function(m, fn, cls + '.get_src_array_setup')
    want = 'NP_SRC = self.solid.size()\ns_m = src.m.data\ns_x = src.x.data'
    got = outs[0].value if len(outs) == 1 else None
    obs.append(Obligation('carry.source_loop_covers_all_source_particles',
                          [], z3.BoolVal(got == want), m.path,
                          extra=dict(emitted=str(got)[:200],
                                     documented=want)))
    # destination loop range
    fn = m.methods(cls)['get_parallel_range']
    seen = []
    for start, stop in ((0, None), (3, None), (0, 'n_stop'), ('n_start', 7)):
        for nogil in (True, False):
            grp = SymObject(None, dict(start_idx=start, stop_idx=stop),
                            'group')
            ex = Executor(repo, m, qualname=cls + '.get_parallel_range',
                          merge=False, externals={
                              'get_parallel_range': lambda e, s_, a, k, n:
                              ('RANGE', tuple(a), tuple(sorted(k.items())))})
            outs = ex.exec_function(fn, dict(self=helper_obj(m), group=grp,
                                             nogil=nogil))
            got = outs[0].value if len(outs) == 1 else None
            kw = {}
            if stop is not None or start:
                kw.update(schedule='dynamic', chunksize=None)
            if nogil:
                kw['nogil'] = True
            seen.append(got == ('RANGE', ('D_START_IDX', 'NP_DEST'),
                                tuple(sorted(kw.items()))))
    ctx.function(m, fn, cls + '.get_parallel_range')
    obs.append(Obligation('carry.destination_loop_is_start_to_np_dest', [],
                          z3.BoolVal(all(seen)), m.path))
    ctx.prove('carry.group_options_and_loop_ranges_reach_the_generator', obs)


def task_determinism(ctx, repo):
    """The order in which MegaGroup._make_data lays out destinations, sources
    and equations is the order of the generated loops: no loop of it may
    iterate over a set (whose order changes from process to process with the
    string hash seed), and the containers it returns are ordered."""
    ma = repo.module('pysph.sph.acceleration_eval')
    fn = ma.methods('MegaGroup')['_make_data']
    seen = []

    def eq(i, dest, sources):
        return SymObject(None, dict(dest=dest, sources=sources,
                                    no_source=sources is None), 'eq%d' % i)
    eqs = [eq(0, 'f', ['f', 'b']), eq(1, 'b', ['f']), eq(2, 'f', None),
           eq(3, 'f', ['b', 's'])]
    grp = SymObject(None, dict(equations=eqs, has_subgroups=False), 'group')
    me = SymObject('MegaGroup', dict(Group=Native(
        lambda e, s_, a, k, n: ('Group', list(a[0])))), 'self')
    me.module = ma.name
    ex = Executor(repo, ma, qualname='MegaGroup._make_data', merge=False)
    class DD(dict):
        # collections.defaultdict(list): insertion ordered like a dict
        def __missing__(self, k):
            self[k] = []
            return self[k]
    ex.spec_env['OrderedDict'] = Native(lambda e, s_, a, k, n: dict())
    ex.spec_env['defaultdict'] = Native(lambda e, s_, a, k, n: DD())
    ex.iterable_hook = lambda node, it, st: seen.append(
        (node.lineno, type(it).__name__, isinstance(it, (set, frozenset))))
    outs = ex.exec_function(fn, dict(self=me, group=grp))
    ctx.function(ma, fn, 'MegaGroup._make_data', ex.dropped)
    bad = [x for x in seen if x[2]]
    obs = [Obligation('make_data.no_loop_over_a_set', [], z3.BoolVal(
        bool(seen) and not bad), ma.path, extra=dict(loops=seen[:12]))]
    ok = len(outs) == 1
    if ok:
        d = outs[0].value
        ok = isinstance(d, dict) and list(d.keys()) == ['f', 'b'] and \
            list(d['f'][1].keys()) == ['f', 'b', 's'] and \
            list(d['b'][1].keys()) == ['f']
    obs.append(Obligation('make_data.layout_in_user_order', [],
                          z3.BoolVal(bool(ok)), ma.path))

    def rp(model, ob):
        script = r"""
import json, sys, subprocess
d = json.load(sys.stdin)
code = '''
import importlib.util, sys
spec = importlib.util.spec_from_file_location("ae_ut", sys.argv[1] + "/pysph/sph/acceleration_eval.py")
m = importlib.util.module_from_spec(spec); m.__package__ = "pysph.sph"; spec.loader.exec_module(m)
class Q:
    def __init__(s, dest, sources): s.dest, s.sources, s.no_source = dest, sources, sources is None
class G(list): pass
mg = m.MegaGroup.__new__(m.MegaGroup); mg.Group = G
class Grp: pass
g = Grp(); g.equations = [Q("f", ["fluid", "boundary", "solid", "inlet"])]; g.has_subgroups = False
print(",".join(mg._make_data(g)["f"][1].keys()))
'''
outs = set()
for seed in range(1, 9):
    import os
    env = dict(os.environ, PYTHONHASHSEED=str(seed))
    p = subprocess.run([sys.executable, '-c', code, d['root']], capture_output=True, text=True, env=env)
    outs.add(p.stdout.strip())
bad = None
if outs != {'fluid,boundary,solid,inlet'}:
    bad = dict(source_orders_seen_across_processes=sorted(outs), documented='fluid,boundary,solid,inlet')
print(json.dumps(dict(bad=bad)))
"""
        from pyvc.repo import REPO_ROOT
        r = native.run_venv(script, dict(root=REPO_ROOT))
        return dict(reproduced=bool(r['bad']), **(r['bad'] or {}))
    ctx.prove('make_data.order_is_deterministic', obs, replay=rp)


REPLAY_ITER = r'''
import json, sys, importlib.util, textwrap
d = json.load(sys.stdin)
spec = importlib.util.spec_from_file_location('hp_ut', d['root'] + '/pysph/sph/acceleration_eval_cython_helper.py')
mod = importlib.util.module_from_spec(spec); mod.__package__ = 'pysph.sph'; spec.loader.exec_module(mod)
H = mod.AccelerationEvalCythonHelper.__new__(mod.AccelerationEvalCythonHelper)
bad = None
for mn in range(0, 5):
    for mx in range(max(mn, 1), 6):
        for conv_from in range(1, 8):
            class G: max_iterations = mx; min_iterations = mn
            G.get_converged_condition = staticmethod(lambda: 'CONV()')
            src = H.get_iteration_init(G) + '\n    PASSES.append(1)\n' + textwrap.indent(H.get_iteration_check(G), '    ')
            passes = []
            env = dict(PASSES=passes, CONV=lambda: len(passes) >= conv_from)
            try:
                exec(compile(src + '\n', 'gen', 'exec'), env)
            except Exception as e:
                bad = dict(min=mn, max=mx, converged_from_pass=conv_from, error=repr(e)); break
            want = min(max(mn, 1, conv_from), mx)
            if len(passes) != want or env['_iteration_count'] != 1:
                bad = dict(min=mn, max=mx, converged_from_pass=conv_from, passes=len(passes), expected=want); break
        if bad: break
    if bad: break
print(json.dumps(dict(bad=bad)))
'''


def task_skeleton(ctx, repo, m):
    cls = 'AccelerationEvalCythonHelper'
    init, chk = emitted_skeleton(repo, m)
    ctx.function(m, m.methods(cls)['get_iteration_init'],
                 cls + '.get_iteration_init',
                 extraction='the emitted text is obtained by executing the '
                 'real function on a stub group; literals %d/%d generalised '
                 'to MAX/MIN' % (SMAX, SMIN))
    ctx.function(m, m.methods(cls)['get_iteration_check'],
                 cls + '.get_iteration_check')
    if str(SMAX) not in init or str(SMIN) not in init or \
            'CONVERGED' not in chk:
        raise VCError('emitted skeleton does not mention min/max/converged')
    init = init.replace(str(SMAX), 'MAX').replace(str(SMIN), 'MIN')
    body = '    k = k + 1\n    conv = conv_at(k)\n'
    chk = chk.replace('CONVERGED', 'conv')
    src = 'def skeleton(MIN, MAX):\n    k = 0\n' + textwrap.indent(
        init, '    ') + '\n' + textwrap.indent(body, '    ') + \
        textwrap.indent(chk, '        ') + '\n    return k\n'
    try:
        mi = ModuleInfo('skeleton', m.path, src)
    except SyntaxError as e:
        raise VCError('emitted skeleton does not parse: %s' % e)
    CONV = z3.Function('conv', z3.IntSort(), z3.BoolSort())
    MIN, MAX = z3.Int('MIN'), z3.Int('MAX')

    def stop(j):
        return z3.And(j >= MIN, z3.Or(CONV(j), j == MAX))

    def inv(ex, st):
        e = st.env
        j = z3.Int('ji')
        return z3.And(S.to_z3(S.cmp('==', e['_iteration_count'],
                                    S.add(e['k'], 1))),
                      S.to_z3(S.cmp('>=', e['k'], 0)),
                      S.to_z3(S.cmp('<', e['k'], MAX)),
                      z3.ForAll([j], z3.Implies(z3.And(
                          j >= 1, j <= S.to_z3(e['k'])), z3.Not(stop(j)))))
    spec = LoopSpec(inv=[('passes', inv)])
    ex = Executor(repo, mi, qualname='skeleton', merge=False,
                  loop_specs={('skeleton', 0): spec})
    ex.spec_env['conv_at'] = Native(lambda e, s_, a, k, n: CONV(S.to_z3(
        a[0])))
    pre = [MAX >= 1, MIN <= MAX]
    outs = ex.exec_function(mi.functions['skeleton'], dict(MIN=MIN, MAX=MAX),
                            State(pc=pre))
    obs = [o for o in ex.obligations if o.kind in ('inv-entry', 'inv-step')]
    if not outs:
        obs.append(Obligation('noexit', [], z3.BoolVal(False), m.path))
    for i, o in enumerate(outs):
        k = S.to_z3(o.value)
        j = z3.Int('jo')
        obs.append(Obligation('exit.%d' % i, o.pc, z3.And(
            k >= 1, k <= MAX, stop(k),
            z3.ForAll([j], z3.Implies(z3.And(j >= 1, j < k),
                                      z3.Not(stop(j)))),
            S.to_z3(S.cmp('==', o.state.env['_iteration_count'], 1))),
            m.path))
    for o_ in obs:
        o_.extra = dict(o_.extra or {}, backends=['z3'])

    def rp(model, ob):
        from pyvc.repo import REPO_ROOT
        try:
            r = native.run_venv(REPLAY_ITER, dict(root=REPO_ROOT))
        except Exception as e:
            return dict(reproduced=False, note=str(e)[-300:])
        if r['bad']:
            return dict(reproduced=True, how='the emitted skeleton executed '
                        'with a counting body', **r['bad'])
        return dict(reproduced=False)
    ctx.prove('iteration.skeleton', obs, replay=rp, sample=True,
              use_nf=False, info=src)


def task_range(ctx, repo, m):
    cls = 'AccelerationEvalCythonHelper'
    fn = m.methods(cls)['get_dest_array_setup']
    obs = []
    # numeric indices are SYMBOLIC integers (any value, 0 and negatives
    # included): they are printed into the emitted text as opaque markers
    START, STOP = z3.Int('start_idx'), z3.Int('stop_idx')
    for start_kind, start in (('num', START), ('str', 'n_start')):
        for stop_kind, stop in (('none', None), ('str', 'n_stop'),
                                ('num', STOP)):
            for real in (True, False):
                g0 = SymObject(None, dict(get_array_names=Native(
                    lambda e, s_, a, k, n: (set(['s_m']), set(['d_rho'])))),
                    'g0')
                g1 = SymObject(None, dict(get_array_names=Native(
                    lambda e, s_, a, k, n: (set(['s_x']),
                                            set(['d_au', 'd_x'])))), 'g1')
                grp = SymObject(None, dict(start_idx=start, stop_idx=stop,
                                           real=real), 'group')
                ex = Executor(repo, m, qualname=cls + '.get_dest_array_setup',
                              merge=False,
                              externals={'isinstance': lambda e, s_, a, k, n:
                                         isinstance(a[0], str)})
                outs = ex.exec_function(fn, dict(
                    self=helper_obj(m), dest_name='fluid',
                    eqs_with_no_source=g0, sources={'solid': g1},
                    group=grp))
                tag = '%s.%s.%s' % (start_kind, stop_kind, real)
                w0 = 'D_START_IDX = self.fluid.n_start[0]' \
                    if start_kind == 'str' else 'D_START_IDX = <<start_idx>>'
                w1 = {'none': 'NP_DEST = self.fluid.size(real=%s)' % real,
                      'str': 'NP_DEST = self.fluid.n_stop[0]',
                      'num': 'NP_DEST = <<stop_idx>>'}[stop_kind]
                want = [w0, w1, 'd_au = dst.au.data', 'd_rho = dst.rho.data',
                        'd_x = dst.x.data']
                obs.append(Obligation('range.%s.returns' % tag, [],
                                      z3.BoolVal(len(outs) >= 1), m.path))
                for k_, o in enumerate(outs):
                    good = isinstance(o.value, str) and \
                        o.value.split('\n') == want
                    obs.append(Obligation(
                        'range.%s.path%d' % (tag, k_), o.pc,
                        z3.BoolVal(bool(good)), m.path,
                        extra=dict(start=start_kind, stop=stop_kind,
                                   real=real, emitted=str(o.value)[:300],
                                   backends=['z3'])))
    ctx.function(m, fn, cls + '.get_dest_array_setup')

    def rp(model, ob):
        script = r"""
import json, sys, importlib.util
d = json.load(sys.stdin)
spec = importlib.util.spec_from_file_location('hp_ut', d['root'] + '/pysph/sph/acceleration_eval_cython_helper.py')
mod = importlib.util.module_from_spec(spec); mod.__package__ = 'pysph.sph'; spec.loader.exec_module(mod)
H = mod.AccelerationEvalCythonHelper.__new__(mod.AccelerationEvalCythonHelper)
class G0:
    def get_array_names(self): return set(), set(['d_rho'])
bad = None
for start in d['starts']:
  for stop in d['stops']:
    for real in (True, False):
        class Gr: pass
        Gr.start_idx = start; Gr.stop_idx = stop; Gr.real = real
        out = H.get_dest_array_setup('fluid', G0(), {}, Gr).split('\n')
        w0 = 'D_START_IDX = self.fluid.%s[0]' % start if isinstance(start, str) else 'D_START_IDX = %s' % start
        w1 = ('NP_DEST = self.fluid.size(real=%s)' % real) if stop is None else ('NP_DEST = self.fluid.%s[0]' % stop if isinstance(stop, str) else 'NP_DEST = %s' % stop)
        if out[:2] != [w0, w1] and bad is None:
            bad = dict(start_idx=start, stop_idx=stop, real=real, emitted=out[:2], documented=[w0, w1])
print(json.dumps(dict(bad=bad)))
"""
        from pyvc.repo import REPO_ROOT

        def val(k):
            try:
                return int(str(model.get(k, 0)).split('/')[0])
            except Exception:
                return 0
        r = native.run_venv(script, dict(
            root=REPO_ROOT, starts=sorted(set([0, 3, val('start_idx')])) +
            ['n_start'], stops=[None, 'n_stop'] + sorted(set(
                [0, 5, val('stop_idx')]))))
        return dict(reproduced=bool(r['bad']), **(r['bad'] or {}))
    ctx.prove('range.selection', obs, replay=rp, use_nf=False)


BOUNDED = r'''
import json, sys, importlib.util, itertools, re
d = json.load(sys.stdin)
root = d['root']
def load(name, rel, pkg):
    spec = importlib.util.spec_from_file_location(name, root + '/' + rel)
    m = importlib.util.module_from_spec(spec); m.__package__ = pkg; spec.loader.exec_module(m); return m
eqm = load('pysph.sph.equation_ut', 'pysph/sph/equation.py', 'pysph.sph')
aem = load('pysph.sph.acceleration_eval_ut', 'pysph/sph/acceleration_eval.py', 'pysph.sph')
res = {}
# ---- converged condition
class E:
    def __init__(s, v): s.var_name = v
def grp(eqs, sub=False):
    g = eqm.Group.__new__(eqm.Group); g.equations = eqs; g.has_subgroups = sub; return g
bad = None; n = 0
for k in (1, 2, 3):
    eqs = [E('e%d' % i) for i in range(k)]
    got = grp(eqs).get_converged_condition(); n += 1
    want = ' & '.join('(self.e%d.converged() > 0)' % i for i in range(k))
    if got != want: bad = dict(equations=k, emitted=got, expected=want)
    sub = grp([grp(eqs[:1]), grp(eqs)], True).get_converged_condition(); n += 1
    w2 = '(self.e0.converged() > 0) & ' + want
    if sub != w2: bad = dict(subgroups=True, emitted=sub, expected=w2)
    # a sub-group without equations (a callback-only group) has nothing to
    # converge: it must not leave a dangling operator in the condition
    for pos in (0, 1, 2):
        subs = [grp(eqs[:1]), grp(eqs)]
        subs.insert(pos, grp([]))
        sub = grp(subs, True).get_converged_condition(); n += 1
        if sub != w2 and bad is None: bad = dict(subgroups=True, empty_subgroup_at=pos, emitted=sub, expected=w2)
res['converged'] = dict(cases=n, bad=bad)
# ---- _make_data
class Q:
    def __init__(s, i, dest, sources): s.i, s.dest, s.sources, s.no_source = i, dest, sources, sources is None
    def __repr__(s): return 'Q%d(%s<-%s)' % (s.i, s.dest, s.sources)
class FakeGroup(list):
    def __init__(s, eqs): list.__init__(s, eqs)
mg = aem.MegaGroup.__new__(aem.MegaGroup); mg.Group = FakeGroup
kinds = [(dd, ss) for dd in 'xyz' for ss in (None, ['a'], ['a', 'b'])]
bad = None; n = 0
for L in range(1, d['maxlen'] + 1):
    for combo in itertools.product(range(len(kinds)), repeat=L):
        eqs = [Q(i, kinds[c][0], kinds[c][1]) for i, c in enumerate(combo)]
        class G_: pass
        g = G_(); g.equations = eqs; g.has_subgroups = False
        data = mg._make_data(g); n += 1
        want_d = []
        for e in eqs:
            if e.dest not in want_d: want_d.append(e.dest)
        ok = list(data.keys()) == want_d
        for dest in want_d:
            if not ok: break
            nos, srcs, alle = data[dest]
            mine = [e for e in eqs if e.dest == dest]
            ok = ok and list(alle) == mine and list(nos) == [e for e in mine if e.no_source]
            ws = []
            for e in mine:
                for s_ in (e.sources or []):
                    if s_ not in ws: ws.append(s_)
            ok = ok and list(srcs.keys()) == ws
            for s_ in ws:
                ok = ok and list(srcs[s_]) == [e for e in mine if e.sources and s_ in e.sources]
        if not ok:
            bad = dict(equations=[repr(e) for e in eqs], emitted_dest_order=list(data.keys()), expected_dest_order=want_d); break
    if bad: break
res['make_data'] = dict(cases=n, bad=bad)
# ---- emission order of do_group
from mako.template import Template
tsrc = open(root + '/pysph/sph/acceleration_eval_cython.mako').read()
# the two defs (indent, do_group) followed by one call of do_group
end = tsrc.index('</%def>', tsrc.index('name="do_group')) + len('</%def>')
dg = Template(tsrc[:end] + '\n${do_group(helper, group, 0)}\n')
class EG:
    def __init__(s, tag, flags): s.tag, s.f = tag, flags; s.equations = [1] if flags.get('nonempty', True) else []
    def has_initialize(s): return s.f.get('init', False)
    def has_loop(s): return s.f.get('loop', False)
    def has_loop_all(s): return s.f.get('loop_all', False)
    def has_initialize_pair(s): return s.f.get('init_pair', False)
    def has_post_loop(s): return s.f.get('post_loop', False)
    def has_reduce(s): return s.f.get('reduce', False)
    def get_py_initialize_code(s): return '@py_initialize:%s' % s.tag
    def get_initialize_code(s, k): return '@initialize:%s' % s.tag
    def get_loop_code(s, k): return '@loop:%s' % s.tag
    def get_loop_all_code(s, k): return '@loop_all:%s' % s.tag
    def get_initialize_pair_code(s, k): return '@initialize_pair:%s' % s.tag
    def get_post_loop_code(s, k): return '@post_loop:%s' % s.tag
    def get_reduce_code(s): return '@reduce:%s' % s.tag
    def get_variable_array_setup(s): return ''
class Hlp:
    class object: kernel = None
    def get_pre_call(s, g): return '@pre'
    def get_post_call(s, g): return '@post'
    def get_dest_array_setup(s, dest, a, b, g): return '@dest_setup:%s' % dest
    def get_src_array_setup(s, src, g): return '@src_setup:%s' % src
    def get_parallel_range(s, g, nogil=True): return 'RANGE'
    def get_parallel_block(s): return 'if True:'
from collections import OrderedDict
bad = None; n = 0
flagnames = ['pre', 'post', 'update_nnps', 'init', 'nosrc_loop', 'init_pair', 'loop', 'loop_all', 'post_loop', 'reduce']
for vals in itertools.product((False, True), repeat=len(flagnames)):
    F = dict(zip(flagnames, vals))
    for ndest in (1, 2):
        for nsrc in (0, 1, 2):
            class Grp: name = 'g'; pre = F['pre']; post = F['post']; update_nnps = F['update_nnps']
            Grp.data = OrderedDict()
            want = []
            if F['pre']: want.append('@pre')
            for di in range(ndest):
                dn = 'D%d' % di
                alle = EG('all' + dn, dict(init=F['init'], post_loop=F['post_loop'], reduce=F['reduce']))
                nos = EG('nos' + dn, dict(loop=F['nosrc_loop']))
                srcs = OrderedDict()
                want += ['@dest_setup:' + dn, '@py_initialize:all' + dn]
                if F['init']: want.append('@initialize:all' + dn)
                if F['nosrc_loop']: want.append('@loop:nos' + dn)
                for si in range(nsrc):
                    sn = 'S%d' % si
                    srcs[sn] = EG(dn + sn, dict(init_pair=F['init_pair'], loop=F['loop'], loop_all=F['loop_all']))
                    want.append('@src_setup:' + sn)
                    if F['init_pair']: want.append('@initialize_pair:' + dn + sn)
                    if F['loop'] or F['loop_all']: want.append('set_context')
                    if F['loop_all']: want.append('@loop_all:' + dn + sn)
                    if F['loop']: want.append('@loop:' + dn + sn)
                if F['post_loop']: want.append('@post_loop:all' + dn)
                if F['reduce']: want.append('@reduce:all' + dn)
                Grp.data[dn] = (nos, srcs, alle)
            if F['update_nnps']: want += ['update_domain', 'nnps.update()']
            if F['post']: want.append('@post')
            out = dg.render(helper=Hlp(), group=Grp, level=0)
            got = re.findall(r'@[a-z_]+(?::\w+)?|nnps\.set_context|nnps\.update_domain|nnps\.update\(\)', out)
            got = [g.replace('nnps.set_context', 'set_context').replace('nnps.update_domain', 'update_domain') for g in got]
            n += 1
            if got != want:
                bad = dict(flags=F, ndest=ndest, nsrc=nsrc, emitted=got, expected=want); break
        if bad: break
    if bad: break
res['emission'] = dict(cases=n, bad=bad)

# ---- nesting of the mega-group loop of compute(): which emitted block sits
# ---- under which condition / iteration loop
start = tsrc.index('% for g_idx, group in enumerate(helper.object.mega_groups):')
stop = tsrc.index('% endfor', tsrc.index('# Group ${group.name} done.')) + len('% endfor')
tc = Template(tsrc[:end] + '\n' + tsrc[start:stop] + '\n')
class HC(Hlp):
    def get_condition_call(s, g): return 'COND_%s()' % g.name
    def get_iteration_init(s, g): return 'ITER_INIT_%s = 1\nwhile True:' % g.name
    def get_iteration_check(s, g): return 'ITER_CHECK_%s = 1' % g.name
def plain(name, cond, iterate=False):
    class G_: pass
    g = G_(); g.name = name; g.condition = (lambda t, dt: True) if cond else None
    g.iterate = iterate; g.has_subgroups = False; g.pre = None; g.post = None; g.update_nnps = False
    g.data = OrderedDict([('D0', (EG('nos' + name, {}), OrderedDict(), EG('all' + name, dict(init=True))))])
    return g
def nesting(text):
    """marker -> list of enclosing header lines (by indentation)"""
    out = {}; stack = []
    for line in text.split('\n'):
        if not line.strip() or line.strip().startswith('#'): continue
        ind = len(line) - len(line.lstrip())
        while stack and stack[-1][0] >= ind: stack.pop()
        t = line.strip()
        for mk in re.findall(r'@initialize:\w+|ITER_CHECK_\w+|ITER_INIT_\w+|@pre|@post|nnps\.update_domain|nnps\.update\(\)', t):
            out[mk] = [h for _, h in stack if h.startswith('if COND_') or h.startswith('while True')]
        if t.endswith(':'): stack.append((ind, t))
    return out
bad = None; n = 0
for pc in (False, True):
  for it in (False, True):
    for nsub in (0, 2, 3):
      for conds in itertools.product((False, True), repeat=max(nsub, 0)):
       for ppu in (itertools.product((False, True), repeat=3) if nsub else [(False, False, False)]):
        par = plain('P', pc, it)
        if nsub:
            par.has_subgroups = True
            par.data = [plain('S%d' % k, conds[k]) for k in range(nsub)]
            par.pre = (lambda: None) if ppu[0] else None
            par.post = (lambda: None) if ppu[1] else None
            par.update_nnps = ppu[2]
        class Obj: kernel = None; mega_groups = [par, plain('Q', False)]
        class H2(HC): object = Obj
        try:
            text = tc.render(helper=H2(), level=0)
        except Exception as e:
            bad = dict(parent_condition=pc, iterate=it, subgroup_conditions=list(conds), error=str(e)[:200]); break
        got = nesting(text); n += 1
        pre_, post_, upd_ = ppu
        base = (['if COND_P():'] if pc else []) + (['while True:'] if it else [])
        want = {}
        if it:
            want['ITER_INIT_P'] = ['if COND_P():'] if pc else []
            want['ITER_CHECK_P'] = base
        if nsub:
            for k in range(nsub):
                want['@initialize:allS%d' % k] = base + (['if COND_S%d():' % k] if conds[k] else [])
            if pre_: want['@pre'] = base
            if post_: want['@post'] = base
            if upd_:
                want['nnps.update_domain'] = base
                want['nnps.update()'] = base
        else:
            want['@initialize:allP'] = base
        want['@initialize:allQ'] = []
        if got != want:
            bad = dict(parent_condition=pc, iterate=it, subgroup_conditions=list(conds), pre_post_update=list(ppu), emitted_nesting=got, documented_nesting=want); break
       if bad: break
      if bad: break
    if bad: break
  if bad: break
res['nesting'] = dict(cases=n, bad=bad)
# ---- which hook blocks a group has: an equation that INHERITS a hook from a
# parent class defines it (equations "defining any subset of the hook
# methods"); has_<hook>() is true iff some equation of the group has it
HOOKS = ['initialize', 'initialize_pair', 'loop', 'loop_all', 'post_loop', 'reduce']
bad = None; n = 0
for r_ in range(0, len(HOOKS) + 1):
    for sub in itertools.combinations(HOOKS, r_):
        ns = {h_: (lambda self, d_idx: None) for h_ in sub}
        Parent = type('Parent', (object,), ns)
        Child = type('Child', (Parent,), {'extra': lambda self: None})
        for cls, how in ((Parent, 'defined in the class'), (Child, 'inherited from the parent class')):
            for others in ([], [type('Plain', (object,), {})()]):
                g = grp(others + [cls()] + others)
                for h_ in HOOKS:
                    got = bool(getattr(g, 'has_' + h_)()); n += 1
                    if got != (h_ in sub) and bad is None:
                        bad = dict(hooks_of_the_equation=list(sub), how=how, asked='has_%s()' % h_, returned=got, expected=(h_ in sub))
res['hooks'] = dict(cases=n, bad=bad)
print(json.dumps(res))
'''


NEST_NATIVE = r'''"""parent condition must govern a conditioned last sub-group and the parent's post"""
import importlib.util, os, sys
root = os.path.abspath(sys.argv[1])
import pysph, pysph.sph
def load(name, rel):
    spec = importlib.util.spec_from_file_location(name, os.path.join(root, rel))
    mod = importlib.util.module_from_spec(spec); sys.modules[name] = mod
    spec.loader.exec_module(mod); setattr(pysph.sph, name.rsplit('.', 1)[1], mod); return mod
eqm = load('pysph.sph.equation', 'pysph/sph/equation.py')
hm = load('pysph.sph.acceleration_eval_cython_helper', 'pysph/sph/acceleration_eval_cython_helper.py')
am = load('pysph.sph.acceleration_eval', 'pysph/sph/acceleration_eval.py')
import numpy as np
from pysph.base.utils import get_particle_array
from pysph.base.kernels import CubicSpline
from pysph.base.nnps import LinkedListNNPS
from pysph.sph.sph_compiler import SPHCompiler
Equation, Group = eqm.Equation, eqm.Group
class SetA(Equation):
    def initialize(self, d_idx, d_a):
        d_a[d_idx] = 1.0
class SetB(Equation):
    def initialize(self, d_idx, d_b):
        d_b[d_idx] = 1.0
log = []
pa = get_particle_array(name='f', x=np.linspace(0, 1, 5), h=0.3, m=1.0)
for p in 'ab': pa.add_property(p)
groups = [Group(equations=[Group([SetA('f', None)]),
                           Group([SetB('f', None)], condition=lambda t, dt: True)],
                condition=lambda t, dt: t > 1.0, post=lambda: log.append('POST'))]
ae = am.AccelerationEval([pa], groups, CubicSpline(dim=1))
comp = SPHCompiler(ae, None); comp.compile()
ae.set_nnps(LinkedListNNPS(dim=1, particles=[pa]))
ae.compute(0.0, 0.1)     # parent condition false: nothing may run
ran = ''.join(p for p in 'ab' if np.all(pa.get(p) == 1.0))
print('ran', repr(ran), 'callbacks', log)
sys.exit(1 if (ran or log) else 0)
'''


def nest_native():
    """compile and run a real evaluator: parent condition false, conditioned
    last sub-group and parent post must not run (about 15 s)"""
    import subprocess
    import tempfile
    import os
    from pyvc.repo import REPO_ROOT
    with tempfile.NamedTemporaryFile('w', suffix='.py', delete=False) as f:
        f.write(NEST_NATIVE)
        path = f.name
    try:
        env = dict(os.environ)
        env.pop('PYTHONPATH', None)
        p_ = subprocess.run(['/venv/bin/python', path, REPO_ROOT],
                            capture_output=True, text=True, timeout=900,
                            cwd='/tmp', env=env)
        return dict(exit=p_.returncode, output=(p_.stdout + p_.stderr)[-300:])
    except Exception as e:
        return dict(exit=None, output=str(e)[-200:])
    finally:
        os.unlink(path)


def task_bounded(ctx, repo, m):
    from pyvc.repo import REPO_ROOT
    maxlen = 4 if ctx.tier == 'quick' else 5
    try:
        res = native.run_venv(BOUNDED, dict(root=REPO_ROOT, maxlen=maxlen),
                              timeout=1800)
    except Exception as e:
        res = None
        err = str(e)[-400:]
    bounds = dict(
        converged='1-3 equations, one level of sub-groups',
        make_data='every equation list of length <= %d over 3 destinations '
                  'x {no source, [a], [a,b]}' % maxlen,
        emission='all 2^10 guard valuations x 1-2 destinations x 0-2 '
                 'sources of the real do_group',
        nesting='mega-group loop of compute(): parent condition x iterate x '
                '{no sub-groups, 2, 3 sub-groups} x every valuation of the '
                'sub-group conditions x parent pre/post/update_nnps, followed '
                'by a second plain group: every '
                'block sits under exactly its own condition(s) and loop',
        hooks='every subset of the six hook methods, defined in the '
              'equation class or inherited from a parent class, alone or '
              'between equations without hooks: Group.has_<hook>() is true '
              'iff the equation has the hook')
    for k in ('converged', 'make_data', 'emission', 'nesting', 'hooks'):
        if res is None:
            ctx.bounded_check('c03.' + k, bounds[k], 0, False, err)
        else:
            r = res[k]
            det = json_short(r['bad']) if r['bad'] else 'ok'
            if k == 'nesting' and r['bad']:
                det = dict(case=r['bad'], compiled_demo=nest_native())
            ctx.bounded_check('c03.' + k, bounds[k], r['cases'],
                              r['bad'] is None, det)
    me = repo.module('pysph.sph.equation')
    ctx.function(me, me.methods('Group')['get_converged_condition'],
                 'Group.get_converged_condition')
    ma = repo.module('pysph.sph.acceleration_eval')
    ctx.function(ma, ma.methods('MegaGroup')['_make_data'],
                 'MegaGroup._make_data')
    ctx.prove('bounded_checks_ran', [Obligation(
        'ran', [], z3.BoolVal(res is not None), m.path)],
        info='bounded, not proved: see coverage.bounded')


def json_short(x):
    import json
    return json.dumps(x, default=str)[:1200]
