"""C04 (slice) -- the compiled integrator performs one_timestep as written.

Functions under contract:
  pysph/sph/integrator_cython.mako  Integrator.step, do_post_stage,
      compute_accelerations, update_domain  (the four static Cython methods
      are cut out of the template text between `cpdef compute_accelerations`
      and `cdef one_timestep` and extracted mechanically, pyvc/cy2py.py)
  pysph/sph/integrator.py  Integrator.compute_accelerations, update_domain,
      and `one_timestep` of every shipped Integrator subclass
  every initialize / stageN of every shipped IntegratorStep subclass (frame)
  integrator_cython_helper.py get_timestep_code + the stage-wrapper part of
      the template (bounded)

step       step(t, dt): orig_t = t, t = t, dt = dt, then one_timestep(t, dt)
           exactly once
poststage  do_post_stage(sdt, n): t = orig_t + sdt; the callback, if set, is
           called exactly once with (orig_t + sdt, dt, n)
delegate   compute_accelerations(i, u) / update_domain() forward unchanged
accel      Integrator.compute_accelerations(i, u): u => [pm.update() first if
           a parallel manager is set] nnps.update() strictly before
           acceleration_evals[i].compute(c.t, c.dt); not u => no refresh
trace      each one_timestep: stages in increasing order 1..N, each stageK()
           followed, before the next stage, by exactly one
           do_post_stage(c*dt, K) with 0 < c <= 1, the last with c = 1
frames     every stepper method writes only d_P[s*d_idx + r], 0 <= r < s
BOUNDED    get_timestep_code returns the body of one_timestep unchanged, for
           every shipped integrator; the stage wrapper emits py_stage before
           the loop, NP_DEST = dst.size(real=True), one stepper call per index
           (real template rendered with stubs, all has-loop/py-stage
           valuations x 1-2 arrays).
"""
import ast
import re
import z3
from fractions import Fraction

from pyvc import sym as S
from pyvc import native
from pyvc import frames as F
from pyvc.repo import Repo
from pyvc.symexec import Executor, State, Obligation, Native
from pyvc.sym import SymObject, VCError

MAKO = 'pysph/sph/integrator_cython.mako'
INT = 'pysph.sph.integrator'
ASSUMPTIONS = [
    'compyle transpiles the stepper methods and the body of one_timestep '
    'faithfully; Cython semantics of the template text',
    'user-defined integrators/steppers are covered only in that the same '
    'trace and frame checkers apply to any class placed in the package',
]
TRUSTED = ['mako (bounded emission check)']


def integrator_classes(repo):
    out = []
    for mn in repo.walk_modules('pysph.sph'):
        try:
            m = repo.module(mn)
        except Exception:
            continue
        for cn in m.classes:
            names = [c.name for _, c in repo.mro(mn, cn)]
            if 'Integrator' in names and cn != 'IntegratorStep':
                if any(isinstance(n, ast.FunctionDef) and
                       n.name == 'one_timestep' for n in m.classes[cn].body):
                    out.append((mn, cn))
    return sorted(set(out))


def tasks(tier):
    return ['static', 'accel', 'traces', 'frames', 'bounded', 'canary',
            'helper_text', 'forward']


def static_module(repo):
    import os
    with open(os.path.join(repo.root, MAKO)) as f:
        txt = f.read()
    # from set_nnps (the first method after the templated constructor) to
    # the templated one_timestep
    a = txt.index('    def set_nnps(self')
    b = txt.index('    cdef one_timestep')
    frag = txt[a:b]
    if '${' in frag or '\n%' in frag:
        raise VCError('the static methods of the template now contain mako '
                      'expressions')
    import textwrap
    body = textwrap.dedent(frag)
    src = 'cdef class Integrator:\n' + textwrap.indent(body, '    ')
    return repo.cython_from_text('integrator_static', src, MAKO), frag


def run_task(task, ctx):
    repo = Repo()
    if task == 'static':
        return task_static(ctx, repo)
    if task == 'accel':
        return task_accel(ctx, repo)
    if task == 'traces':
        return task_traces(ctx, repo)
    if task == 'frames':
        return task_frames(ctx, repo)
    if task == 'bounded':
        return task_bounded(ctx, repo)
    if task == 'helper_text':
        return task_helper_text(ctx, repo)
    if task == 'forward':
        return task_forward(ctx, repo)
    if task == 'canary':
        t = z3.Real('ct')
        ctx.canary('canary.must_fail', Obligation('c', [], t + 1 == t))
        ctx.results.append(dict(name='canary.pipeline', verdict='proved',
                                queries=0, backends={}, seconds=0,
                                failing=[], replay=None, info=''))
        return
    raise ValueError(task)


def _bool(x):
    return z3.BoolVal(bool(x))


def task_static(ctx, repo):
    mc, frag = static_module(repo)
    W = mc.path
    cls = 'Integrator'
    t, dt, sdt = z3.Real('t'), z3.Real('dt'), z3.Real('stage_dt')
    # step
    ev = []
    obj = SymObject(cls, dict(orig_t=z3.Real('orig0'), t=z3.Real('t0'),
                              dt=z3.Real('dt0'),
                              one_timestep=Native(lambda e, s_, a, k, n:
                                                  ev.append(('ots', a)))),
                    'self')
    obj.module = mc
    ex = Executor(repo, mc, qualname=cls + '.step')
    outs = ex.exec_function(mc.methods(cls)['step'],
                            dict(self=obj, t=t, dt=dt))
    ctx.function(mc, mc.methods(cls)['step'], cls + '.step', ex.dropped)
    a = outs[0].state.env['self'].attrs if outs else {}
    ok = len(outs) == 1 and len(ev) == 1 and S.same(ev[0][1][0], t) and \
        S.same(ev[0][1][1], dt) and S.same(a.get('orig_t'), t) and \
        S.same(a.get('t'), t) and S.same(a.get('dt'), dt)
    obs = [Obligation('step', [], _bool(ok), W)]
    # do_post_stage, callback set / not set
    for has_cb in (True, False):
        ev2 = []
        cb = Native(lambda e, s_, a_, k, n: ev2.append(a_)) if has_cb \
            else None
        o0, d0 = z3.Real('orig_t'), z3.Real('dt_')
        obj = SymObject(cls, dict(orig_t=o0, t=z3.Real('t0'), dt=d0,
                                  _post_stage_callback=cb), 'self')
        obj.module = mc
        ex = Executor(repo, mc, qualname=cls + '.do_post_stage')
        stage = z3.Int('stage')
        outs = ex.exec_function(mc.methods(cls)['do_post_stage'],
                                dict(self=obj, stage_dt=sdt, stage=stage))
        ctx.function(mc, mc.methods(cls)['do_post_stage'],
                     cls + '.do_post_stage', ex.dropped)
        okp = len(outs) == 1
        if okp:
            a = outs[0].state.env['self'].attrs
            obs.append(Obligation('poststage.t.%s' % has_cb, outs[0].pc,
                                  S.to_z3(S.cmp('==', a['t'], o0 + sdt)), W))
            okp = S.same(a['orig_t'], o0) and S.same(a['dt'], d0)
            if has_cb:
                okp = okp and len(ev2) == 1 and len(ev2[0]) == 3 and \
                    S.same(ev2[0][1], d0) and S.same(ev2[0][2], stage)
                if okp:
                    obs.append(Obligation('poststage.cb_time', outs[0].pc,
                                          S.to_z3(S.cmp('==', ev2[0][0],
                                                        o0 + sdt)), W))
            else:
                okp = okp and not ev2
        obs.append(Obligation('poststage.frame.%s' % has_cb, [], _bool(okp),
                              W))
    # set_post_stage_callback stores what do_post_stage calls
    fcb = mc.methods(cls).get('set_post_stage_callback')
    okc = False
    if fcb is not None:
        obj = SymObject(cls, dict(_post_stage_callback=None), 'self')
        obj.module = mc
        ex = Executor(repo, mc, qualname=cls + '.set_post_stage_callback')
        outs = ex.exec_function(fcb, dict(self=obj, callback='CB'))
        ctx.function(mc, fcb, cls + '.set_post_stage_callback', ex.dropped)
        okc = len(outs) == 1 and outs[0].state.env['self'].attrs.get(
            '_post_stage_callback') == 'CB'
    obs.append(Obligation('set_post_stage_callback.stores_the_callback', [],
                          _bool(okc), W))
    # delegation
    ev3 = []
    integ = SymObject(None, dict(
        compute_accelerations=Native(lambda e, s_, a_, k, n:
                                     ev3.append(('ca', a_))),
        update_domain=Native(lambda e, s_, a_, k, n:
                             ev3.append(('ud', a_)))), 'integ')
    obj = SymObject(cls, dict(integrator=integ), 'self')
    obj.module = mc
    idx, upd = z3.Int('index'), z3.Bool('update_nnps')
    ex = Executor(repo, mc, qualname=cls + '.compute_accelerations')
    ex.exec_function(mc.methods(cls)['compute_accelerations'],
                     dict(self=obj, index=idx, update_nnps=upd))
    ex.exec_function(mc.methods(cls)['update_domain'], dict(self=obj))
    okd = [e[0] for e in ev3] == ['ca', 'ud'] and \
        S.same(ev3[0][1][0], idx) and S.same(ev3[0][1][1], upd)
    obs.append(Obligation('delegate', [], _bool(okd), W))
    ctx.function(mc, mc.methods(cls)['compute_accelerations'],
                 cls + '.compute_accelerations')
    ctx.function(mc, mc.methods(cls)['update_domain'],
                 cls + '.update_domain')

    def rp(model, ob):
        """Python model of the four methods is not the compiled code; the
        text-level mismatch is the finding."""
        return dict(reproduced=False, note='static Cython methods of the '
                    'template: compiled only inside a generated module')
    # C types are dropped by the extraction, so the one thing it cannot see
    # is stated on the template text: every time / time-step quantity of the
    # compiled integrator and evaluator is a C double (a `float` parameter
    # rounds stage_dt to single precision before t = orig_t + stage_dt)
    import os
    bad = []
    for rel in (MAKO, 'pysph/sph/acceleration_eval_cython.mako'):
        with open(os.path.join(repo.root, rel)) as f:
            for ln, line in enumerate(f, 1):
                code = line.split('#')[0]
                if re.search(r'\b(cdef|cpdef|def)\b', code) and re.search(
                        r'\bfloat\b', code):
                    bad.append('%s:%d %s' % (rel, ln, code.strip()[:80]))
                for nm in ('t', 'dt', 'stage_dt', 'orig_t'):
                    mm = re.search(r'\b(\w+)\s+%s\b\s*[,)=]' % nm, code)
                    if mm and re.search(r'\b(cdef|cpdef)\b', code) and \
                            mm.group(1) in ('float', 'int', 'long'):
                        bad.append('%s:%d %s is %s' % (rel, ln, nm,
                                                       mm.group(1)))
    obs.append(Obligation('template.time_quantities_are_double', [],
                          _bool(not bad), W, extra=dict(narrow=bad[:4])))
    ctx.prove('template.static_methods', obs, replay=rp, sample=True)


def task_accel(ctx, repo):
    m = repo.module(INT)
    fn = m.methods('Integrator')['compute_accelerations']
    W = m.path
    obs = []
    for upd in (True, False):
        for has_pm in (True, False):
            ev = []

            def rec(name):
                return Native(lambda e, s_, a, k, n: ev.append((name, a)))
            ct, cdt = z3.Real('c_t'), z3.Real('c_dt')
            ae = [SymObject(None, dict(compute=rec('compute%d' % i)), 'ae')
                  for i in range(3)]
            obj = SymObject('Integrator', dict(
                parallel_manager=SymObject(None, dict(
                    update=rec('pm.update')), 'pm') if has_pm else None,
                nnps=SymObject(None, dict(update=rec('nnps.update')), 'nn'),
                c_integrator=SymObject(None, dict(t=ct, dt=cdt), 'c'),
                acceleration_evals=ae), 'self')
            obj.module = m.name
            ex = Executor(repo, m, qualname='Integrator.compute_'
                          'accelerations', externals={
                              'profile_ctx': lambda e, s_, a, k, n: None})
            outs = ex.exec_function(fn, dict(self=obj, index=1,
                                             update_nnps=upd))
            names = [e[0] for e in ev]
            want = (['pm.update'] if (upd and has_pm) else []) + \
                (['nnps.update'] if upd else []) + ['compute1']
            ok = len(outs) == 1 and names == want and \
                S.same(ev[-1][1][0], ct) and S.same(ev[-1][1][1], cdt)
            obs.append(Obligation('accel.%s.%s' % (upd, has_pm), [],
                                  _bool(ok), W, extra=dict(events=names)))
    ctx.function(m, fn, 'Integrator.compute_accelerations')
    # Integrator.update_domain(): always forwards to nnps.update_domain(),
    # whatever the state of the integrator / search object
    fn2 = m.methods('Integrator')['update_domain']
    nn = SymObject(None, dict(
        is_periodic=z3.Bool('nnps_is_periodic'),
        update_domain=Native(lambda e, s_, a, k, n: s_.trace.append(
            ('nnps.update_domain',))),
        update=Native(lambda e, s_, a, k, n: s_.trace.append(
            ('nnps.update',)))), 'nn')
    o2 = SymObject('Integrator', dict(
        nnps=nn, fixed_h=z3.Bool('fixed_h'),
        parallel_manager=None, in_parallel=z3.Bool('in_parallel')), 'self')
    o2.module = m.name
    ex2 = Executor(repo, m, qualname='Integrator.update_domain',
                   merge=False)
    outs2 = ex2.exec_function(fn2, dict(self=o2))
    ctx.function(m, fn2, 'Integrator.update_domain', ex2.dropped)
    obs.append(Obligation('update_domain.returns', [], _bool(
        len(outs2) >= 1), W))
    for i_, o in enumerate(outs2):
        obs.append(Obligation('update_domain.forwards.%d' % i_, o.pc, _bool(
            [t for t in o.state.trace] == [('nnps.update_domain',)]), W,
            extra=dict(backends=['z3'])))

    def rp(model, ob):
        script = r"""
import json, sys, importlib.util
d = json.load(sys.stdin)
spec = importlib.util.spec_from_file_location('pysph.sph.integrator_ut', d['root'] + '/pysph/sph/integrator.py')
mod = importlib.util.module_from_spec(spec); mod.__package__ = 'pysph.sph'; spec.loader.exec_module(mod)
out = {}
for upd in (True, False):
    ev = []
    class N:
        def update(self): ev.append('nnps.update')
    class A:
        def compute(self, t, dt): ev.append('compute')
    class C: t = 1.0; dt = 0.1
    i = mod.Integrator.__new__(mod.Integrator)
    i.parallel_manager = None; i.nnps = N(); i.c_integrator = C(); i.acceleration_evals = [A()]
    i.compute_accelerations(0, upd)
    out[str(upd)] = ev
print(json.dumps(out))
"""
        from pyvc.repo import REPO_ROOT
        r = native.run_venv(script, dict(root=REPO_ROOT))
        bad = r['True'] != ['nnps.update', 'compute'] or \
            r['False'] != ['compute']
        return dict(reproduced=bad, observed=r,
                    expected={'True': ['nnps.update', 'compute'],
                              'False': ['compute']})
    ctx.prove('compute_accelerations.order', obs, replay=rp)


def task_traces(ctx, repo):
    dt, t = z3.Real('dt'), z3.Real('t')
    for mn, cn in integrator_classes(repo):
        m = repo.module(mn)
        fn = [n for n in m.classes[cn].body if isinstance(n, ast.FunctionDef)
              and n.name == 'one_timestep'][0]
        name = 'trace.%s.%s' % (mn.replace('pysph.sph.', ''), cn)

        def rec(nm):
            def h(ex, st, a, k, n):
                st.trace.append((nm, a, k))
                return None
            return Native(h)
        attrs = {}
        for i in range(1, 9):
            attrs['stage%d' % i] = rec('stage%d' % i)
        for nm in ('initialize', 'compute_accelerations', 'update_domain',
                   'do_post_stage'):
            attrs[nm] = rec(nm)
        obj = SymObject(None, attrs, 'self')
        obj.lazy = True
        ex = Executor(repo, m, qualname=cn + '.one_timestep', merge=False)
        ex.lazy_attrs = True
        try:
            outs = ex.exec_function(fn, dict(self=obj, t=t, dt=dt),
                                    State(pc=[dt > 0]))
        except VCError as e:
            ctx.outside(name, str(e))
            continue
        ctx.function(m, fn, cn + '.one_timestep', ex.dropped)
        obs = []
        for i, o in enumerate(outs):
            tr = [e for e in o.state.trace if e[0].startswith('stage') or
                  e[0] == 'do_post_stage']
            ok = o.kind == 'return'
            stages = [int(e[0][5:]) for e in tr if e[0].startswith('stage')]
            ok = ok and stages == list(range(1, len(stages) + 1)) and \
                len(stages) >= 1
            goals = []
            pos = 0
            for k_ in range(1, len(stages) + 1):
                # between stage k and stage k+1 (or the end): exactly one
                # do_post_stage(c*dt, k)
                seg = []
                idx = [j for j, e in enumerate(tr) if e[0] == 'stage%d' % k_]
                if not idx:
                    ok = False
                    break
                j0 = idx[0]
                nxt = [j for j, e in enumerate(tr)
                       if e[0] == 'stage%d' % (k_ + 1)]
                j1 = nxt[0] if nxt else len(tr)
                seg = [e for e in tr[j0 + 1:j1] if e[0] == 'do_post_stage']
                if len(seg) != 1 or len(seg[0][1]) != 2:
                    ok = False
                    break
                sdt, n_ = seg[0][1]
                if S.is_sym(n_) or n_ != k_:
                    ok = False
                    break
                c = S.div(sdt, dt)
                g = z3.And(S.to_real(sdt) > 0, S.to_real(sdt) <= dt)
                if k_ == len(stages):
                    g = z3.And(g, S.to_real(sdt) == dt)
                goals.append(g)
            obs.append(Obligation('%s.%d.shape' % (cn, i), o.pc, _bool(ok),
                                  m.path, extra=dict(trace=[e[0] for e in
                                                            tr])))
            for j, g in enumerate(goals):
                obs.append(Obligation('%s.%d.stage_dt.%d' % (cn, i, j + 1),
                                      o.pc, g, m.path,
                                      extra=dict(backends=['z3'])))
        ctx.prove(name, obs or [Obligation('nopath', [], _bool(False),
                                           m.path)], use_nf=False)


def task_frames(ctx, repo):
    from contracts import C20
    for mn, cn in C20.stepper_classes(repo):
        m = repo.module(mn)
        cdef = m.classes[cn]
        obs = []
        for node in cdef.body:
            if not isinstance(node, ast.FunctionDef):
                continue
            if not (node.name == 'initialize' or re.match(r'stage\d+$',
                                                          node.name)):
                continue
            args = [a.arg for a in node.args.args]
            if 'd_idx' not in args:
                continue
            ctx.function(m, node, '%s.%s' % (cn, node.name))
            for st in F.analyze_method(node, m.source_of, cdef):
                obs.append(Obligation('%s.%s:%s@%d' % (cn, node.name,
                                                       st.array, st.line),
                                      [], _bool(st.verdict == 'own-row'),
                                      '%s:%d' % (m.path, st.line),
                                      extra=dict(store=st.text,
                                                 verdict=st.verdict)))
        if obs:
            ctx.prove('frames.%s.%s' % (mn.replace('pysph.sph.', ''), cn),
                      obs, use_nf=False)


BOUNDED = r'''
import json, sys, importlib.util, inspect, itertools, re, textwrap
d = json.load(sys.stdin)
root = d['root']
spec = importlib.util.spec_from_file_location('pysph.sph.ich_ut', root + '/pysph/sph/integrator_cython_helper.py')
ih = importlib.util.module_from_spec(spec); ih.__package__ = 'pysph.sph'; spec.loader.exec_module(ih)
res = {}
# ---- get_timestep_code == body of one_timestep
import ast
bad = None; n = 0
for mn, cn in d['integrators']:
    spec = importlib.util.spec_from_file_location('m_ut_%d' % n, root + '/' + mn.replace('.', '/') + '.py')
    mod = importlib.util.module_from_spec(spec); mod.__package__ = mn.rsplit('.', 1)[0]; spec.loader.exec_module(mod)
    cls = getattr(mod, cn)
    obj = cls.__new__(cls)
    h = ih.IntegratorCythonHelper.__new__(ih.IntegratorCythonHelper); h.object = obj
    code = h.get_timestep_code(); n += 1
    src = textwrap.dedent(inspect.getsource(cls.one_timestep))
    fn = ast.parse(src).body[0]
    body = fn.body
    if body and isinstance(body[0], ast.Expr) and isinstance(body[0].value, ast.Constant): body = body[1:]
    try:
        got = ast.parse(code).body
        if got and isinstance(got[0], ast.Expr) and isinstance(got[0].value, ast.Constant): got = got[1:]
        same = [ast.dump(x) for x in got] == [ast.dump(x) for x in body]
    except SyntaxError as e:
        same = False
    if not same: bad = dict(integrator=cn, emitted=code[:400]); break
# ... and for integrators written the way users write them: trailing
# comments, '#' inside strings, blank lines, nested blocks, multi-line
import tempfile, os
HOSTILE = "class TrailingComments(object):\n    def one_timestep(self, t, dt):\n        self.initialize()  # save the state\n        self.compute_accelerations()  # first evaluation\n        self.stage1()\n        self.do_post_stage(0.5*dt, 1)  # half step\n\n        self.compute_accelerations(1, update_nnps=False)  # no refresh needed\n        self.stage2()\n        self.update_domain()   # wrap\n        self.do_post_stage(dt, 2)\n\nclass HashInString(object):\n    def one_timestep(self, t, dt):\n        # full-line comment\n        self.compute_accelerations()\n        tag = 'stage #1'\n        if dt > 0:\n            self.stage1()    # nested\n            self.do_post_stage(dt, 1)\n        else:\n            self.stage2()\n\nclass MultiLineSignature(object):\n    def one_timestep(self,\n                     t,\n                     dt):\n        self.stage1(); self.stage2()\n        self.do_post_stage(\n            dt,   # the full step\n            1)\n"
tf = tempfile.NamedTemporaryFile('w', suffix='.py', delete=False, dir='/tmp')
tf.write(HOSTILE); tf.close()
try:
    spec = importlib.util.spec_from_file_location('hostile_ut', tf.name)
    hm = importlib.util.module_from_spec(spec); spec.loader.exec_module(hm)
    for cn in ('TrailingComments', 'HashInString', 'MultiLineSignature'):
        if bad: break
        cls = getattr(hm, cn)
        h = ih.IntegratorCythonHelper.__new__(ih.IntegratorCythonHelper); h.object = cls()
        n += 1
        try:
            code = h.get_timestep_code()
            got = ast.parse(code).body
        except Exception as e:
            bad = dict(integrator=cn, error=repr(e)[:300]); break
        body = ast.parse(textwrap.dedent(inspect.getsource(cls.one_timestep))).body[0].body
        if [ast.dump(x) for x in got] != [ast.dump(x) for x in body]:
            bad = dict(integrator=cn + ' (synthetic: comments / strings / multi-line)', emitted=code[:500])
finally:
    os.unlink(tf.name)
res['timestep_code'] = dict(cases=n, bad=bad)
# ---- stage wrapper emission
from mako.template import Template
tsrc = open(root + '/pysph/sph/integrator_cython.mako').read()
a = tsrc.index('    % for method in helper.get_stepper_method_wrapper_names():')
b = tsrc.index('    % endfor', tsrc.index('_prof.stop()', a)) + len('    % endfor')
defs = tsrc[:tsrc.index('</%def>') + len('</%def>')]
tm = Template(defs + '\n' + tsrc[a:b] + '\n')
bad = None; n = 0
for ndest in (1, 2):
    for flags in itertools.product((False, True), repeat=2 * ndest):
        class Obj: steppers = {('A%d' % i): None for i in range(ndest)}
        class H:
            object = Obj
            def get_stepper_method_wrapper_names(s): return ['stage1']
            def get_array_declarations(s, m): return '@decl'
            def get_py_stage_code(s, dest, m): return ('@py_stage:' + dest) if flags[2 * int(dest[1:]) + 1] else ''
            def has_stepper_loop(s, dest, m): return flags[2 * int(dest[1:])]
            def get_array_setup(s, dest, m): return '@setup:' + dest
            def get_parallel_range(s, x): return 'RANGE(%s)' % x
            def get_stepper_loop(s, dest, m): return '@call:' + dest
        out = tm.render(helper=H()); n += 1
        got = re.findall(r'@[a-z_]+(?::\w+)?|NP_DEST = dst\.size\(real=\w+\)|RANGE\(\w+\)|dst = self\.\w+', out)
        want = ['@decl']
        for i in range(ndest):
            dn = 'A%d' % i
            want.append('dst = self.' + dn)
            if flags[2 * i + 1]: want.append('@py_stage:' + dn)
            if flags[2 * i]: want += ['NP_DEST = dst.size(real=True)', '@setup:' + dn, 'RANGE(NP_DEST)', '@call:' + dn]
        if got != want:
            bad = dict(flags=flags, emitted=got, expected=want); break
    if bad: break
res['stage_wrapper'] = dict(cases=n, bad=bad)
print(json.dumps(res))
'''


def task_bounded(ctx, repo):
    from pyvc.repo import REPO_ROOT
    import json
    ints = integrator_classes(repo)
    try:
        res = native.run_venv(BOUNDED, dict(root=REPO_ROOT, integrators=ints),
                              timeout=900)
        err = ''
    except Exception as e:
        res, err = None, str(e)[-400:]
    bounds = dict(timestep_code='every shipped Integrator subclass (%d) + 3 '
                  'synthetic ones with comments, strings, multi-line '
                  'statements' % len(ints),
                  stage_wrapper='real template, 1-2 arrays x all '
                  'has-loop / has-py_stage valuations')
    for k in ('timestep_code', 'stage_wrapper'):
        if res is None:
            ctx.bounded_check('c04.' + k, bounds[k], 0, False, err)
        else:
            r = res[k]
            ctx.bounded_check('c04.' + k, bounds[k], r['cases'],
                              r['bad'] is None,
                              json.dumps(r['bad'], default=str)[:1000]
                              if r['bad'] else 'ok')
    m = repo.module('pysph.sph.integrator_cython_helper')
    ctx.function(m, m.methods('IntegratorCythonHelper')['get_timestep_code'],
                 'IntegratorCythonHelper.get_timestep_code')
    ctx.prove('bounded_checks_ran', [Obligation(
        'ran', [], _bool(res is not None), m.path)],
        info='bounded, not proved: see coverage.bounded')


# ------------------------------------------------------- forwarding methods
def task_forward(ctx, repo):
    """The thin Python-side methods between the solver and the compiled
    integrator: step(time, dt) calls c_integrator.step once with the same
    time and dt; set_nnps / set_parallel_manager store the object and hand
    the same object on; set_post_stage_callback hands the callback on;
    set_compiled_object stores it; set_acceleration_evals keeps a list and
    wraps a single evaluator; initial_acceleration(t, dt) evaluates the first
    evaluator at (t, dt)."""
    m = repo.module('pysph.sph.integrator')
    W = m.path
    M = m.methods('Integrator')
    obs = []

    def run(fname, args, attrs):
        calls = []

        def rec(tag):
            return Native(lambda e, s_, a, k, n: calls.append(
                (tag, list(a), dict(k))))
        ci = SymObject(None, dict(step=rec('ci.step'),
                                  set_nnps=rec('ci.set_nnps'),
                                  set_parallel_manager=rec('ci.set_pm'),
                                  set_post_stage_callback=rec('ci.set_cb')),
                       'c_integrator')
        ev = [SymObject(None, dict(compute=rec('eval%d.compute' % i)),
                        'a_eval%d' % i) for i in range(2)]
        base = dict(c_integrator=ci, acceleration_evals=ev, nnps='old_nnps',
                    parallel_manager='old_pm')
        base.update(attrs)
        obj = SymObject('Integrator', base, 'self')
        obj.module = m.name
        ex = Executor(repo, m, qualname='Integrator.' + fname, merge=False,
                      externals={'isinstance': lambda e, s_, a, k, n:
                                 isinstance(a[0], (list, tuple))})
        outs = ex.exec_function(M[fname], dict(self=obj, **args))
        ctx.function(m, M[fname], 'Integrator.' + fname, ex.dropped)
        return outs, calls, ci, ev
    t, dt = z3.Real('time'), z3.Real('dt')
    try:
        outs, calls, ci, ev = run('step', dict(time=t, dt=dt), {})
        obs.append(Obligation('forward.step', [], _bool(
            len(outs) == 1 and calls == [('ci.step', [t, dt], {})]), W,
            extra=dict(calls=str(calls)[:200])))
        outs, calls, ci, ev = run('initial_acceleration', dict(t=t, dt=dt),
                                  {})
        obs.append(Obligation('forward.initial_acceleration', [], _bool(
            len(outs) == 1 and calls == [('eval0.compute', [t, dt], {})]), W,
            extra=dict(calls=str(calls)[:200])))
        outs, calls, ci, ev = run('set_nnps', dict(nnps='NEW'), {})
        obs.append(Obligation('forward.set_nnps', [], _bool(
            len(outs) == 1 and calls == [('ci.set_nnps', ['NEW'], {})] and
            outs[0].state.env['self'].attrs['nnps'] == 'NEW'), W))
        outs, calls, ci, ev = run('set_parallel_manager', dict(pm='PM'), {})
        obs.append(Obligation('forward.set_parallel_manager', [], _bool(
            len(outs) == 1 and calls == [('ci.set_pm', ['PM'], {})] and
            outs[0].state.env['self'].attrs['parallel_manager'] == 'PM'), W))
        outs, calls, ci, ev = run('set_post_stage_callback',
                                  dict(callback='CB'), {})
        obs.append(Obligation('forward.set_post_stage_callback', [], _bool(
            len(outs) == 1 and calls == [('ci.set_cb', ['CB'], {})]), W))
        outs, calls, ci, ev = run('set_compiled_object',
                                  dict(c_integrator='CI2'), {})
        obs.append(Obligation('forward.set_compiled_object', [], _bool(
            len(outs) == 1 and outs[0].state.env['self'].attrs[
                'c_integrator'] == 'CI2' and not calls), W))
        for tag, val, want in (('list', ['E0', 'E1'], ['E0', 'E1']),
                               ('tuple', ('E0',), ('E0',)),
                               ('single', 'E0', ['E0'])):
            outs, calls, ci, ev = run('set_acceleration_evals',
                                      dict(a_evals=val), {})
            got = outs[0].state.env['self'].attrs['acceleration_evals'] \
                if len(outs) == 1 else None
            obs.append(Obligation('forward.set_acceleration_evals.' + tag, [],
                                  _bool(got == want), W,
                                  extra=dict(got=str(got))))
    except VCError as e:
        ctx.outside('forward', str(e))
        return
    ctx.prove('forward.solver_calls_reach_the_compiled_integrator', obs)


# ------------------------------------------------ text emitted by the helper
def task_helper_text(ctx, repo):
    """The small emitters of IntegratorCythonHelper that wire steppers into
    the compiled integrator: each dest gets ITS OWN stepper class and object
    (defs/init), the stage call passes the method's arguments in order
    without self, the array set-up binds every d_/s_ argument to the same
    named property of dst, the py_stage hook is called with (dst.array, t,
    dt), and the wrapped method names are initialize / stageN of any stepper
    (py_stageN counted as stageN), sorted."""
    m = repo.module('pysph.sph.integrator_cython_helper')
    cls = 'IntegratorCythonHelper'
    W = m.path

    def stepper(cname, methods, py=()):
        attrs = {'__class__': SymObject(None, {'__name__': cname}, 'cls')}
        for k in list(methods) + ['py_' + p for p in py]:
            attrs[k] = ('method', cname, k)
        o = SymObject(None, attrs, 'stepper_' + cname)
        o.argspec = methods
        return o
    stA = stepper('AStep', {'initialize': ['self', 'd_idx', 'd_x', 'd_x0'],
                            'stage1': ['self', 'd_idx', 'd_u', 'd_au', 'dt'],
                            # (property names may contain underscores:
                            # SWEStep's u_prev_step, rho_0 ...)
                            'stage2': ['self', 'd_idx', 'd_x', 'd_u',
                                       'd_u_prev_step', 's_m', 's_rho_0',
                                       't', 'dt']}, py=('stage1',))
    stB = stepper('BStep', {'stage1': ['self', 'd_idx', 'd_rho', 'dt']},
                  py=('stage3',))
    stA2 = stepper('AStep', dict(stA.argspec), py=('stage1',))
    integ = SymObject(None, dict(steppers={'fluid': stA, 'solid': stB,
                                           'wall': stA2}), 'integrator')

    def mk():
        o = SymObject(cls, dict(object=integ), 'self')
        o.module = m.name
        return o

    def argspec(e, s_, a, k, n):
        meth = a[0]
        owner = stA if meth[1] == 'AStep' else stB
        return SymObject(None, dict(args=list(owner.argspec[meth[2]])),
                         'spec')

    def dirx(e, s_, a, k, n):
        return sorted(k_ for k_ in a[0].attrs if not k_.startswith('__'))

    def run(name, **args):
        ex = Executor(repo, m, qualname='%s.%s' % (cls, name), merge=False,
                      inline={cls + '.get_args', 'get_array_names'},
                      externals={'getfullargspec': argspec})
        ex.spec_env['dir'] = Native(dirx)
        fn = m.methods(cls)[name]
        outs = ex.exec_function(fn, dict(self=mk(), **args))
        ctx.function(m, fn, '%s.%s' % (cls, name), ex.dropped)
        return outs[0].value if len(outs) == 1 else ('paths', len(outs))
    checks = []
    try:
        checks.append(('stepper_defs', run('get_stepper_defs'),
                       'cdef public AStep fluid_stepper\n'
                       'cdef public BStep solid_stepper\n'
                       'cdef public AStep wall_stepper'))
        checks.append(('stepper_init', run('get_stepper_init'),
                       'self.fluid_stepper = AStep(**steppers["fluid"].'
                       '__dict__)\nself.solid_stepper = BStep(**steppers['
                       '"solid"].__dict__)\nself.wall_stepper = AStep(**'
                       'steppers["wall"].__dict__)'))
        checks.append(('stepper_loop', run('get_stepper_loop', dest='fluid',
                                           method='stage2'),
                       'self.fluid_stepper.stage2(d_idx, d_x, d_u, '
                       'd_u_prev_step, s_m, s_rho_0, t, dt)'))
        checks.append(('stepper_loop.other_dest', run(
            'get_stepper_loop', dest='solid', method='stage1'),
            'self.solid_stepper.stage1(d_idx, d_rho, dt)'))
        checks.append(('array_setup', run('get_array_setup', dest='fluid',
                                          method='stage2'),
                       'd_u = dst.u.data\n'
                       'd_u_prev_step = dst.u_prev_step.data\n'
                       'd_x = dst.x.data\ns_m = dst.m.data\n'
                       's_rho_0 = dst.rho_0.data'))
        checks.append(('py_stage', run('get_py_stage_code', dest='fluid',
                                       method='stage1'),
                       'self.steppers["fluid"].py_stage1(dst.array, t, dt)'))
        checks.append(('py_stage.absent', run('get_py_stage_code',
                                              dest='fluid', method='stage2'),
                       ''))
        checks.append(('wrapper_names', run(
            'get_stepper_method_wrapper_names'),
            ['initialize', 'stage1', 'stage2', 'stage3']))
        checks.append(('has_loop', run('has_stepper_loop', dest='solid',
                                       method='stage1'), True))
        checks.append(('has_loop.absent', run('has_stepper_loop',
                                              dest='solid',
                                              method='stage2'), False))
    except VCError as e:
        ctx.outside('helper_text', str(e))
        return
    obs = [Obligation('helper_text.' + nm, [], z3.BoolVal(got == want), W,
                      extra=dict(emitted=str(got)[:200],
                                 documented=str(want)[:200]))
           for nm, got, want in checks]
    ctx.prove('helper_text.steppers_are_wired_to_their_own_array', obs)
