"""C05 (slice) -- results do not depend on neighbour algorithm, cache, threads
or re-ordering.

End-to-end equality of two runs is a whole-program, multi-schedule statement;
no function contract expresses it.  Decidable parts of the anchored mechanism:

frames    every initialize / initialize_pair / loop / loop_all / post_loop of
          every Equation subclass shipped under pysph/sph and pysph/tools
          (discovered on every run) writes only its own destination row
          d_P[s*d_idx + r], 0 <= r < s, and never a source array -- so each
          destination index is written by the one thread that owns it,
          whatever the schedule (pyvc/frames.py: integer abstract
          interpretation + z3 per store).  The scatter writes already present
          are listed one by one (known findings); any new one fails the
          module's obligation.
reorder   Solver.reorder_particles re-orders every array and THEN refreshes
          the neighbour structures (trace); solve() calls it before the
          initial accelerations and every reorder_freq steps.
wiring    Application: every `--nnps` branch that builds a CPU NNPS passes
          cache=..., sort_gids=options.sort_gids (structural, over the AST of
          the if/elif chain).
Not decided here: equality across NNPS algorithms (C01 completeness),
bit-reproducibility, float summation order.
"""
import ast
import z3

from pyvc import native
from pyvc.repo import Repo
from pyvc.symexec import Executor, State, Obligation, Native
from pyvc.sym import SymObject, VCError
from pyvc import frames as F

METHODS = ('initialize', 'initialize_pair', 'loop', 'loop_all', 'post_loop')

# scatter / shared-cell writes present in the pinned tree, identified by
# module.Class.method:array  (one known finding each)
KNOWN = {
    'pysph.sph.rigid_body.ViscosityRigidBody.loop:s_fx',
    'pysph.sph.rigid_body.ViscosityRigidBody.loop:s_fy',
    'pysph.sph.rigid_body.ViscosityRigidBody.loop:s_fz',
    'pysph.sph.rigid_body.PressureRigidBody.loop:s_fx',
    'pysph.sph.rigid_body.PressureRigidBody.loop:s_fy',
    'pysph.sph.rigid_body.PressureRigidBody.loop:s_fz',
    'pysph.sph.rigid_body.AkinciRigidFluidCoupling.loop:s_fx',
    'pysph.sph.rigid_body.AkinciRigidFluidCoupling.loop:s_fy',
    'pysph.sph.rigid_body.AkinciRigidFluidCoupling.loop:s_fz',
    'pysph.sph.rigid_body.LiuFluidForce.loop:s_fx',
    'pysph.sph.rigid_body.LiuFluidForce.loop:s_fy',
    'pysph.sph.rigid_body.LiuFluidForce.loop:s_fz',
    'pysph.sph.swe.basic.ParticleAcceleration.loop:s_dw',
    'pysph.sph.isph.sisph.PPESolve.post_loop:d_pmax',
    'pysph.tools.particle_packing.FilterLayers.loop:s_filter',
    'pysph.sph.isph.isph.PressureCoeffMatrix.loop:d_coeff',
    'pysph.sph.isph.isph.PressureCoeffMatrix.loop:d_col_idx',
    'pysph.sph.isph.isph.PressureCoeffMatrix.loop:d_row_idx',
}

ASSUMPTIONS = [
    'OpenMP (Cython prange) gives each d_idx to exactly one thread',
    'helper functions called with a d_* array (mat_vec_mult(..., d_res)) are '
    'not followed: only stores written in the method text are analysed',
    'a race has no deterministic replay: frame violations carry no failing '
    'input',
]
TRUSTED = []


def tasks(tier):
    from contracts import C20
    repo = Repo()
    mods = sorted(set(m for m, c in C20.equation_classes(repo)))
    # contracts of other checks this property leans on are re-proved here
    # (dep.*): deterministic layout of the generated loops (C03), the
    # sorted-neighbour segment and flag (C01), re-ordering (C17)
    # ... and the order of ghost/neighbour refreshes: emission order of the
    # group template (C03 bounded) and every shipped one_timestep (C04)
    deps = ['dep:C03:determinism', 'dep:C01:sortseg', 'dep:C01:sortflag',
            'dep:C01:cache', 'dep:C01:cellsize', 'dep:C01:update',
            'dep:C01:pidspace', 'dep:C01:octroot', 'dep:C01:shreach',
            'dep:C01:eshreach', 'dep:C01:sortnbrs', 'dep:C01:sentinel',
            'dep:C01:pidslices',
            # "the same particle state whatever the neighbour algorithm":
            # every class returns the true neighbour set -- C01's bounded
            # stand-in over all twelve classes (hash tables in C++, sorted
            # keys, octrees are outside the generator) is re-run here
            'dep:C01:oracle', 'dep:C01:nnpsinit',
            'dep:C17:apply', 'dep:C03:bounded', 'dep:C04:traces',
            'dep:C04:accel']
    return ['frames:%s' % m for m in mods] + ['reorder', 'wiring',
                                              'refresh', 'scratch',
                                              'threads', 'canary'] + deps


def run_task(task, ctx):
    repo = Repo()
    if task.startswith('dep:'):
        import importlib
        _, mod, t = task.split(':')
        cm = importlib.import_module('contracts.' + mod)
        n0, b0 = len(ctx.results), len(ctx.bounded)
        cm.run_task(t, ctx)
        for r in ctx.results[n0:]:
            r['name'] = 'dep.%s.%s' % (mod.lower(), r['name'])
        # failing cases of the other property's bounded stand-in that are
        # its OPEN findings are reported by its own check, not re-claimed here
        import json as _json
        import os as _os
        import re as _re
        here = _os.path.dirname(_os.path.dirname(_os.path.abspath(__file__)))
        try:
            kf = _json.load(open(_os.path.join(here, 'known_findings.json')))
            opens = [f for f in kf['findings'] if f['property'] == mod and
                     f['status'] == 'open']
        except Exception:
            opens = []

        def is_open(name):
            return any(f.get('obligation') == name or (
                f.get('obligation_re') and _re.fullmatch(f['obligation_re'],
                                                         name))
                for f in opens)
        keep = []
        for b in ctx.bounded[b0:]:
            if not b['ok'] and is_open(b['name']):
                continue
            b['name'] = 'dep.%s.%s' % (mod.lower(), b['name'])
            keep.append(b)
        ctx.bounded[b0:] = keep
        return
    if task.startswith('frames:'):
        return task_frames(ctx, repo, task[7:])
    if task == 'reorder':
        return task_reorder(ctx, repo)
    if task == 'refresh':
        return task_refresh(ctx, repo)
    if task == 'wiring':
        return task_wiring(ctx, repo)
    if task == 'scratch':
        return task_scratch(ctx, repo)
    if task == 'threads':
        return task_threads(ctx)
    if task == 'canary':
        d = z3.Int('d')
        ctx.canary('canary.must_fail', Obligation('c', [d >= 0],
                                                  d + 1 < d + 1))
        ctx.results.append(dict(name='canary.pipeline', verdict='proved',
                                queries=0, backends={}, seconds=0,
                                failing=[], replay=None, info=''))
        return
    raise ValueError(task)


THREADS = r"""
import json, os, sys
d = json.load(sys.stdin)
if d.get('built'): sys.path.insert(0, d['built'])
import numpy as np
out = {}
for name, before, after in (('same_count', 4, 4), ('raised_after_construction', 1, 4), ('lowered_after_construction', 4, 1)):
    rd, wr = os.pipe()
    pid = os.fork()
    if pid == 0:
        os.close(rd)
        msg = ''
        try:
            from pysph.base.utils import get_particle_array
            from pysph.base import nnps
            from pysph.base.nnps_base import set_number_of_threads
            from cyarray.api import UIntArray
            rng = np.random.RandomState(2)
            n = 400
            pa = get_particle_array(name='a', x=rng.rand(n), y=rng.rand(n), h=0.05 * np.ones(n))
            set_number_of_threads(before)
            nn = nnps.LinkedListNNPS(dim=2, particles=[pa], radius_scale=2.0, cache=True)
            set_number_of_threads(after)
            nn.update(); nn.set_context(0, 0)
            nn.cache[0].find_all_neighbors()
            nb = UIntArray(); wrong = 0
            for i in range(n):
                nn.get_nearest_particles(0, 0, i, nb)
                d2 = (pa.x - pa.x[i]) ** 2 + (pa.y - pa.y[i]) ** 2
                want = set(np.where(d2 < 0.01 * (1 - 1e-9))[0].tolist())
                got = nb.get_npy_array().tolist()
                if len(got) != len(set(got)) or (set(got) ^ want) - set(np.where(np.abs(d2 - 0.01) <= 1e-11)[0].tolist()):
                    wrong += 1
            if wrong: msg = '%d of %d neighbour lists wrong' % (wrong, n)
        except Exception as e:
            msg = 'raised %s: %s' % (type(e).__name__, str(e)[:200])
        os.write(wr, msg.encode()[:500]); os._exit(1 if msg else 0)
    os.close(wr)
    _, st = os.waitpid(pid, 0)
    msg = os.read(rd, 600).decode(); os.close(rd)
    if os.WIFSIGNALED(st): out[name] = 'process killed by signal %d' % os.WTERMSIG(st)
    elif os.WEXITSTATUS(st): out[name] = msg or 'failed'
    else: out[name] = None
print(json.dumps(out))
"""


def task_threads(ctx):
    """BOUNDED stand-in, never counted as proved: 'with any thread count'.
    A cached neighbour search filled by all threads (find_all_neighbors, as
    the compiled evaluator does), with the OpenMP thread count unchanged,
    raised and lowered after the search object was built."""
    import os
    if os.environ.get('PYVC_NO_BUILD_REPLAY'):
        ctx.note('thread scenarios skipped: PYVC_NO_BUILD_REPLAY set')
        return
    dst, msg = native.shared_build()
    if dst is None:
        raise RuntimeError('extensions could not be built: %s' % msg)
    r = native.run_venv(THREADS, dict(built=dst), timeout=900, cwd='/tmp')
    for name, bad in r.items():
        ctx.bounded_check(
            'threads.' + name, 'LinkedListNNPS(cache=True), 400 random '
            'points in 2-D, h = 0.05, thread count 4 -> 4, 1 -> 4, 4 -> 1 '
            'between construction and update(); every list compared with '
            'the definition', 1, bad is None,
            bad or 'all neighbour lists exact')


def task_frames(ctx, repo, mn):
    from contracts import C20
    m = repo.module(mn)
    classes = [c for m_, c in C20.equation_classes(repo) if m_ == mn]
    short = mn.replace('pysph.', '')
    main, nstores, known_hit = [], 0, {}
    for cn in classes:
        cdef = m.classes[cn]
        for node in cdef.body:
            if not isinstance(node, ast.FunctionDef) or \
                    node.name not in METHODS:
                continue
            stores = F.analyze_method(node, m.source_of, cdef)
            ctx.function(m, node, '%s.%s' % (cn, node.name))
            for st in stores:
                nstores += 1
                key = '%s.%s.%s:%s' % (mn, cn, node.name, st.array)
                ok = st.verdict == 'own-row'
                o = Obligation('%s.%s:%s@%d' % (cn, node.name, st.array,
                                                st.line), [],
                               z3.BoolVal(ok), '%s:%d' % (m.path, st.line),
                               extra=dict(backends=['z3'], store=st.text,
                                          verdict=st.verdict, note=st.note))
                if key in KNOWN:
                    known_hit.setdefault(key, []).append(o)
                else:
                    main.append(o)
    ctx.note('%s: %d classes, %d stores' % (short, len(classes), nstores))
    ctx.prove('frames.%s' % short, main or [Obligation(
        'nostores', [], z3.BoolVal(True), m.path)], sample=True,
        use_nf=False,
        info='%d stores, each proved to address the destination row' %
        len(main))
    for key, obs in sorted(known_hit.items()):
        ctx.prove('scatter:%s' % key.replace('pysph.', ''), obs,
                  use_nf=False,
                  info='; '.join(o.extra['store'] for o in obs)[:300])


def task_reorder(ctx, repo):
    m = repo.module('pysph.solver.solver')
    fn = m.methods('Solver')['reorder_particles']
    # any domain (periodic, mirror or none)
    mgr = SymObject(None, dict(is_periodic=z3.Bool('is_periodic'),
                               is_mirror=z3.Bool('is_mirror')), 'manager')
    nn = SymObject(None, dict(
        domain=SymObject(None, dict(manager=mgr), 'domain'),
        spatially_order_particles=Native(
            lambda e, s_, a, k, n: s_.trace.append(('order', a[0]))),
        update_domain=Native(lambda e, s_, a, k, n: s_.trace.append(
            ('update_domain',))),
        update=Native(lambda e, s_, a, k, n: s_.trace.append(('update',)))),
        'nnps')
    obj = SymObject('Solver', dict(particles=['a', 'b', 'c'], nnps=nn),
                    'self')
    obj.module = m.name
    ex = Executor(repo, m, qualname='Solver.reorder_particles', merge=False)
    outs = ex.exec_function(fn, dict(self=obj))
    ok = len(outs) >= 1
    pobs = []
    ev = []
    for i_, o in enumerate(outs):
        tr = [t for t in o.state.trace if t[0] in ('order', 'update')]
        ev = tr
        # the ordering is asked of a search structure that has seen the
        # arrays as they are NOW (the step ends with update_domain() and the
        # inlet/outlet callbacks, after its last nnps.update(): an index list
        # for another particle count is not a permutation of this array);
        # then every array re-ordered, then the structures rebuilt
        # (update_domain() alone re-creates ghosts but bins nothing)
        good = tr == [('update',), ('order', 0), ('order', 1), ('order', 2),
                      ('update',)]
        pobs.append(Obligation('reorder.path%d' % i_, o.pc,
                               z3.BoolVal(bool(good)), m.path,
                               extra=dict(backends=['z3'])))
    ctx.function(m, fn, 'Solver.reorder_particles', ex.dropped)
    # solve(): the initial re-order precedes initial_acceleration
    fs = m.methods('Solver')['solve']
    calls = []
    for node in ast.walk(fs):
        if isinstance(node, ast.Call) and isinstance(node.func,
                                                     ast.Attribute):
            if node.func.attr in ('reorder_particles',
                                  'initial_acceleration'):
                calls.append((node.lineno, node.func.attr))
    calls.sort()
    names = [c[1] for c in calls]
    ok2 = names[:2] == ['reorder_particles', 'initial_acceleration'] and \
        names.count('reorder_particles') == 2

    def rp(model, ob):
        script = r"""
import json, sys, importlib.util
d = json.load(sys.stdin)
spec = importlib.util.spec_from_file_location('solver_ut', d['root'] + '/pysph/solver/solver.py')
mod = importlib.util.module_from_spec(spec); spec.loader.exec_module(mod)
bad = None
for per in (False, True):
    for mir in (False, True):
        ev = []
        class M: is_periodic = per; is_mirror = mir
        class D: manager = M
        class N:
            domain = D
            def spatially_order_particles(self, i): ev.append('order%d' % i)
            def update(self): ev.append('update')
            def update_domain(self): ev.append('update_domain')
        s = mod.Solver.__new__(mod.Solver); s.particles = [1, 2]; s.nnps = N()
        s.reorder_particles()
        if [e for e in ev if e != 'update_domain'] != ['update', 'order0', 'order1', 'update'] and bad is None:
            bad = dict(is_periodic=per, is_mirror=mir, observed=ev, expected=['update', 'order0', 'order1', 'update'])
print(json.dumps(dict(bad=bad)))
"""
        from pyvc.repo import REPO_ROOT
        r = native.run_venv(script, dict(root=REPO_ROOT))
        return dict(reproduced=bool(r['bad']), **(r['bad'] or {}))
    pobs.append(Obligation('reorder.solve_reorders_before_initial_'
                           'acceleration', [], z3.BoolVal(bool(ok and ok2)),
                           m.path))
    ctx.prove('reorder.then_update', pobs, replay=rp, use_nf=False,
              info='events %s; solve() calls %s' % (ev, names))


def task_wiring(ctx, repo):
    m = repo.module('pysph.solver.application')
    fn = m.methods('Application')['_configure_solver'] \
        if '_configure_solver' in m.methods('Application') else None
    if fn is None:
        raise VCError('Application._configure_solver not found')
    ctx.function(m, fn, 'Application._configure_solver')
    bad, seen = [], []
    for node in ast.walk(fn):
        if isinstance(node, ast.Call):
            f = node.func
            nm = f.attr if isinstance(f, ast.Attribute) else (
                f.id if isinstance(f, ast.Name) else '')
            if nm.endswith('NNPS') and not nm.startswith('get') and \
                    'GPU' not in nm:
                kws = {k.arg: k.value for k in node.keywords}
                seen.append(nm)
                for need, attr in (('cache', None),
                                   ('sort_gids', 'sort_gids')):
                    if need not in kws:
                        bad.append('%s@%d lacks %s=' % (nm, node.lineno,
                                                         need))
                    elif attr is not None:
                        v = kws[need]
                        if not (isinstance(v, ast.Attribute) and
                                v.attr == attr):
                            bad.append('%s@%d: %s is not options.%s' % (
                                nm, node.lineno, need, attr))
    ok = not bad and len(seen) >= 10
    ctx.prove('nnps_options.wiring', [Obligation(
        'wiring', [], z3.BoolVal(bool(ok)), m.path)],
        info='%d CPU NNPS constructor calls; %s' % (len(seen),
                                                   '; '.join(bad)[:300]))


# ---------------------------------------------------------- thread scratch
def task_scratch(ctx, repo):
    """Per-thread scratch memory of the generated pair loop.  Every
    list-valued entry VAR of a group's context (the precomputed vectors XIJ,
    DWIJ, ... and declared vector temporaries), *whether or not an equation
    names it in a loop signature* (GRADIENT(XIJ, ...) reads XIJ for a loop
    that only names DWIJ),
      - is allocated with one aligned slot per thread
            cdef DoubleArray _VAR = DoubleArray(aligned(L, 8)*self.n_threads)
            cdef double* VAR = _VAR.data
        (CythonGroup._get_variable_decl, mode 'declare'), and
      - is pointed at the running thread's slot at the top of the parallel
        block:   VAR = &_VAR.data[thread_id*aligned(L, 8)]
        (CythonGroup.get_variable_array_setup);
    the template puts `thread_id = threadid()` and that set-up first in the
    parallel block and uses self.nbrs[thread_id] for the neighbour buffer."""
    from fractions import Fraction
    EQ = 'pysph.sph.equation'
    m = repo.module(EQ)
    W = m.path
    cls = 'CythonGroup'

    def eqn(var, methods):
        attrs = dict(var_name=var)
        for k in methods:
            attrs[k] = ('method', var, k)
        o = SymObject(None, attrs, var)
        o.argspec = methods
        return o
    e0 = eqn('eq0', {'loop': ['self', 'd_idx', 'd_arho', 's_idx', 's_m',
                              'DWIJ', 'VIJ']})
    e1 = eqn('eq1', {'initialize': ['self', 'd_idx', 'd_au'],
                     'loop_all': ['self', 'd_idx', 'NBRS', 'N_NBRS']})
    eqs = {'eq0': e0, 'eq1': e1}

    def argspec(e, s_, a, k, n):
        meth = a[0]
        return SymObject(None, dict(args=list(eqs[meth[1]].argspec[meth[2]])),
                         'spec')
    z = Fraction(0)
    contexts = {
        'transitive': dict(DWIJ=[z, z, z], VIJ=[z, z, z], XIJ=[z, z, z],
                           RIJ=z, HIJ=z, n_iter=3),
        'temporaries': dict(tmp=(z, z), mat=[z] * 9, DWIJ=[z, z, z],
                            one=[z], HIJ=Fraction(1, 2)),
        'none': dict(RIJ=z, k=1),
        'empty': {},
    }
    obs = []
    f1 = m.methods(cls)['get_variable_array_setup']
    f2 = m.methods(cls)['_get_variable_decl']
    ctx.function(m, f1, cls + '.get_variable_array_setup')
    ctx.function(m, f2, cls + '._get_variable_decl')
    try:
        for tag, cx in sorted(contexts.items()):
            vecs = sorted(k for k, v in cx.items()
                          if isinstance(v, (list, tuple)))
            obj = SymObject(cls, dict(equations=[e0, e1], context=dict(cx),
                                      name='grp', precomputed={}), 'self')
            obj.module = m.name
            ex = Executor(repo, m, qualname=cls + '.get_variable_array_setup',
                          merge=False, externals={'getfullargspec': argspec})
            outs = ex.exec_function(f1, dict(self=obj))
            got = outs[0].value if len(outs) == 1 and \
                outs[0].kind == 'return' else None
            want = ['%s = &_%s.data[thread_id*aligned(%d, 8)]' % (
                v, v, len(cx[v])) for v in vecs]
            lines = sorted(l.strip() for l in got.split('\n') if l.strip()) \
                if isinstance(got, str) else None
            obs.append(Obligation(
                'setup.%s' % tag, [], z3.BoolVal(lines == sorted(want)), W,
                extra=dict(emitted=str(got)[:300], wanted=want)))
            obj = SymObject(cls, dict(equations=[e0, e1], context=dict(cx),
                                      name='grp', precomputed={}), 'self')
            obj.module = m.name
            ex = Executor(repo, m, qualname=cls + '._get_variable_decl',
                          merge=False, externals={'getfullargspec': argspec})
            outs = ex.exec_function(f2, dict(self=obj, context=dict(cx),
                                             mode='declare'))
            got = outs[0].value if len(outs) == 1 and \
                outs[0].kind == 'return' else None
            glines = [l.strip() for l in got.split('\n')] \
                if isinstance(got, str) else []
            ok = isinstance(got, str)
            for v in vecs:
                a = ('cdef DoubleArray _%s = DoubleArray(aligned(%d, 8)*'
                     'self.n_threads)' % (v, len(cx[v])))
                b = 'cdef double* %s = _%s.data' % (v, v)
                ok = ok and a in glines and b in glines and \
                    glines.index(a) < glines.index(b)
            # nothing else is declared as a scratch array
            ok = ok and sum(1 for l in glines if 'DoubleArray' in l) == \
                len(vecs)
            obs.append(Obligation('declare.%s' % tag, [], z3.BoolVal(bool(ok)),
                                  W, extra=dict(emitted=str(got)[:400])))
    except VCError as e:
        ctx.outside('scratch', str(e))
        return
    # the template
    import os
    from pyvc.repo import REPO_ROOT
    tp = os.path.join(REPO_ROOT, 'pysph', 'sph', 'acceleration_eval_cython.mako')
    src = open(tp).read().split('\n')
    blocks = [i for i, l in enumerate(src)
              if 'helper.get_parallel_block()' in l]
    ok = bool(blocks)
    why = []
    for i in blocks:
        body = [l.strip() for l in src[i + 1:i + 4]]
        if body[:2] != ['thread_id = threadid()',
                        '${indent(eq_group.get_variable_array_setup(), 1)}'] \
                or not body[2].startswith('for d_idx in'):
            ok = False
            why.append('line %d: parallel block starts with %r' % (i + 2,
                                                                   body))
    text = '\n'.join(src)
    if 'nnps.get_nearest_neighbors(d_idx, <UIntArray>self.nbrs[thread_id])' \
            not in text or text.count('self.nbrs[thread_id]') < 3:
        ok = False
        why.append('neighbour buffer is not self.nbrs[thread_id]')
    obs.append(Obligation('template.parallel_block', [], z3.BoolVal(ok), tp,
                          extra=dict(why='; '.join(why)[:300])))
    ctx.prove('scratch.every_vector_is_thread_private', obs,
              replay=replay_scratch)


def replay_scratch(model, ob):
    script = r"""
import json, sys, importlib.util
d = json.load(sys.stdin)
spec = importlib.util.spec_from_file_location('pysph.sph.equation_ut', d['root'] + '/pysph/sph/equation.py')
mod = importlib.util.module_from_spec(spec); mod.__package__ = 'pysph.sph'; spec.loader.exec_module(mod)
class E0(mod.Equation):
    def loop(self, d_idx, d_arho, s_idx, s_m, DWIJ, VIJ):
        d_arho[d_idx] += s_m[s_idx]*(VIJ[0]*DWIJ[0])
g = mod.CythonGroup([E0('f', ['f'])])
g.context = mod.Context(DWIJ=[0.0]*3, VIJ=[0.0]*3, XIJ=[0.0]*3, RIJ=0.0)
got = sorted(l.strip() for l in g.get_variable_array_setup().split('\n') if l.strip())
want = sorted('%s = &_%s.data[thread_id*aligned(3, 8)]' % (v, v) for v in ('DWIJ', 'VIJ', 'XIJ'))
print(json.dumps(dict(bad=None if got == want else dict(emitted=got, wanted=want, note='XIJ is read by GRADIENT(XIJ, ...) although no loop names it'))))
"""
    from pyvc.repo import REPO_ROOT
    try:
        r = native.run_venv(script, dict(root=REPO_ROOT), timeout=600)
    except Exception as e:
        return dict(reproduced=False, note=str(e)[-300:])
    if r.get('bad'):
        return dict(reproduced=True, how='real CythonGroup.'
                    'get_variable_array_setup', **r['bad'])
    return dict(reproduced=False)


# ------------------------------------------------------------------ refresh
def task_refresh(ctx, repo):
    """Neighbour lists are never used stale: in every shipped one_timestep an
    acceleration evaluation that does NOT refresh the neighbour structures
    (update_nnps=False) is reached only when no stepper stage has written
    positions since the last refresh -- also across the step boundary (the
    schedule is run twice).  Otherwise the result depends on whether lists
    are cached (old positions) or searched afresh (new positions, old
    bins).  Steppers paired with an integrator: those of its own module, or
    all of pysph/sph/integrator_step.py for the generic integrators."""
    import re
    from contracts import C04, C20
    dt, t = z3.Real('dt'), z3.Real('t')
    moves = {}
    for mn, cn in C20.stepper_classes(repo):
        for mm, c in repo.mro(mn, cn):
            for node in c.body:
                if isinstance(node, ast.FunctionDef) and (
                        node.name == 'initialize' or
                        re.match(r'stage\d+$', node.name)):
                    if (mn, cn, node.name) in moves:
                        continue
                    w = set()
                    for n_ in ast.walk(node):
                        tg = []
                        if isinstance(n_, ast.Assign):
                            tg = n_.targets
                        elif isinstance(n_, ast.AugAssign):
                            tg = [n_.target]
                        for tt in tg:
                            if isinstance(tt, ast.Subscript) and isinstance(
                                    tt.value, ast.Name):
                                w.add(tt.value.id)
                    moves[(mn, cn, node.name)] = bool(w & {'d_x', 'd_y',
                                                           'd_z'})
    obs = []
    for mn, cn in C04.integrator_classes(repo):
        m = repo.module(mn)
        fn = [n for n in m.classes[cn].body if isinstance(n, ast.FunctionDef)
              and n.name == 'one_timestep'][0]

        def rec(nm):
            def h(ex, st, a, k, n):
                st.trace.append((nm, a, k))
                return None
            return Native(h)
        attrs = {}
        for i in range(1, 9):
            attrs['stage%d' % i] = rec('stage%d' % i)
        for nm in ('initialize', 'compute_accelerations', 'update_domain',
                   'do_post_stage'):
            attrs[nm] = rec(nm)
        obj = SymObject(None, attrs, 'self')
        ex = Executor(repo, m, qualname=cn + '.one_timestep', merge=False)
        ex.lazy_attrs = True
        try:
            outs = ex.exec_function(fn, dict(self=obj, t=t, dt=dt),
                                    State(pc=[dt > 0]))
        except VCError as e:
            ctx.outside('refresh.%s' % cn, str(e))
            continue
        ctx.function(m, fn, cn + '.one_timestep (refresh schedule)',
                     ex.dropped)
        own = [(a, b) for (a, b) in C20.stepper_classes(repo) if a == mn]
        pairs = own or [(a, b) for (a, b) in C20.stepper_classes(repo)
                        if a == 'pysph.sph.integrator_step']
        for i_, o in enumerate(outs):
            ev = []
            okargs = True
            for e in o.state.trace:
                if e[0].startswith('stage') or e[0] == 'initialize':
                    ev.append(('stage', e[0]))
                elif e[0] == 'compute_accelerations':
                    upd = e[2].get('update_nnps', e[1][1] if len(e[1]) > 1
                                   else True)
                    if not isinstance(upd, bool):
                        okargs = False
                    ev.append(('accel', upd))
            bad = []
            for (smn, scn) in pairs:
                dirty = False
                for rnd in (0, 1):
                    for kind, v in ev:
                        if kind == 'stage':
                            if moves.get((smn, scn, v)):
                                dirty = True
                        elif v is True:
                            dirty = False
                        elif dirty and rnd == 1 or (dirty and rnd == 0 and
                                                    False):
                            bad.append('%s with %s' % (cn, scn))
                        elif dirty:
                            bad.append('%s with %s' % (cn, scn))
            obs.append(Obligation('refresh.%s.%d' % (cn, i_), o.pc,
                                  z3.BoolVal(okargs and not bad), m.path,
                                  extra=dict(schedule=[str(x) for x in ev],
                                             stale_with=sorted(set(bad))[
                                                 :4])))
    ctx.prove('refresh.neighbours_never_used_stale_in_one_timestep', obs,
              use_nf=False)
