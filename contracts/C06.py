"""C06 (partial) -- a particle array stays coherent under any operation sequence.

pysph/base/particle_array.pyx, extracted mechanically (pyvc/cy2py.py).
Functions under contract: align_particles, remove_particles,
remove_tagged_particles, extend, extract_particles.

Representation invariant  WF(pa): every property p has len(p) = n*stride(p).
The cyarray operations (resize, remove, c_align_array, copy_values) are
external: their contracts are ASSUMED (read from carray.pyx: c_align_array is
a gather new[i] = old[idx[i]] per stride block, remove(sorted, 1, stride)
removes the listed blocks and needs distinct ascending indices, copy_values
copies blocks idx[k] to start + k*stride).  Given those, WF and "each
particle's values stay together" follow from what is proved here about how
particle_array.pyx USES them:

align.index   (unbounded, quantified loop invariant over z3 arrays) after the
              index loop, index_array[0..n) is injective with values in
              [0, n) -- hence a permutation of 0..n-1 (pigeonhole) -- the
              first num_real_particles entries point to Local particles, the
              rest to non-Local ones, num_real_particles = #Local
align.apply   the SAME index array and each property's OWN stride go to
              c_align_array of every property, iff something moved
remove.same   remove_particles sorts the index list whatever its input type
              and passes the same sorted array, the sorted flag and each
              property's own stride to every property's remove(); aligns
              afterwards iff something was removed and align is set
tagged        remove_tagged_particles collects exactly the indices i with
              tag[i] == tag, ascending, and hands them to remove_particles
extend        extend(k > 0): every property is resized to (n + k)*stride and
              its cells from n*stride on are set to the property's default;
              k <= 0 changes nothing
extract       extract_particles: destination extended by len(indices), every
              listed property copied with copy_values(indices, dst, stride,
              stride*start), start = destination size before; empty index
              list returns the destination untouched; align on request
NOT verified (outside reach): add_property's dtype/shape branches, pickling,
get/set, append_parray, add_particles (numpy glue).
"""
import ast
import z3

from pyvc import sym as S
from pyvc import native
from pyvc.repo import Repo
from pyvc.symexec import (Executor, State, Obligation, Native, LoopSpec,
                          SymArray, CalleeContract)
from pyvc.sym import SymObject, VCError

PYX = 'pysph/base/particle_array.pyx'
LOCAL = 0
ASSUMPTIONS = [
    'cyarray contracts (external package): c_align_array(idx, stride) gathers '
    'whole stride blocks; remove(sorted, 1, stride) removes the listed blocks '
    '(distinct indices); resize(n) sets the length; copy_values(idx, dst, '
    'stride, start) copies blocks; LongArray(n) has n cells',
    'CPU backend (self.gpu is None); ParticleTAG Local == 0 '
    '(particle_array.pxd enum)',
    'an injective map from {0..n-1} into {0..n-1} is a permutation '
    '(pigeonhole; mathematics, not machine-checked)',
]
TRUSTED = ['z3 quantifier instantiation']


def tasks(tier):
    return ['align', 'remove', 'tagged', 'extend', 'extract', 'props', 'add',
            'append', 'addprop', 'walkers', 'pickle', 'misc', 'arrtypes',
            'canary', 'walk']


def mod(repo):
    return repo.cython_module(PYX)


def task_walk(ctx):
    """BOUNDED stand-in, never counted as proved: random sequences of public
    calls on the extensions built from the working tree, side by side with
    the property's record-list model (contracts/c06_model_walk.py).  The
    per-method contracts above say what each call does to the columns; that
    every interleaving of them keeps the records together is the composition
    the generator does not reach, and a contract written from the code can
    encode a defect of the code."""
    import os
    if os.environ.get('PYVC_NO_BUILD_REPLAY'):
        ctx.note('model walk skipped: PYVC_NO_BUILD_REPLAY set (development)')
        return
    thorough = ctx.tier == 'thorough'
    seeds = list(range(3000 if thorough else 150))
    steps = 150 if thorough else 80
    dst, msg = native.shared_build()
    if dst is None:
        raise RuntimeError('extensions could not be built: %s' % msg)
    src = open(os.path.join(os.path.dirname(os.path.abspath(__file__)),
                            'c06_model_walk.py')).read()
    try:
        r = native.run_venv(src, dict(built=dst, seeds=seeds, steps=steps),
                            timeout=3000, cwd='/tmp')
    except RuntimeError as e:
        # the real code died under the scenarios (segfault, abort): a
        # failing case, not a checker error
        ctx.bounded_check('native.process_died', 'the scenarios of this '
                          'stand-in, run in one process', 1, False,
                          dict(problem='the process running the real '
                               'code died', output=str(e)[-400:]))
        return
    bound = ('%d random call sequences of up to %d calls (add_particles, '
             'remove_particles, remove_tagged_particles, extract_particles, '
             'append_parray of an array with another property set, '
             'add/remove_property, add_constant, resize, set_tag, '
             'align_particles, empty_clone, pickle, extend, copy_properties, '
             'copy_over_properties, set_to_zero, ensure_properties, set) on '
             'arrays with double/float/int/long/unsigned and strided '
             'properties, mixed tags and zero particles; after every call '
             'all records, lengths, types, strides, constants and (after '
             'aligning calls) the Local-first order compared with the '
             'record-list model' % (len(seeds), steps))
    # its own case name: a recorded finding must not hide the walk
    ctx.bounded_check(
        'typed.extract_into_destination_of_another_c_type', 'one case: '
        'extract_particles of 4 particles (x float, n int) into a '
        'destination array with x double, n long', 1, r.get('typed') is None,
        r.get('typed') or 'values arrive converted')
    if r['bad']:
        ctx.bounded_check('walk.' + str(r['bad'].get('call'))[:60], bound, 1,
                          False, r['bad'])
    else:
        ctx.bounded_check('walk.record_list_model', bound, r['cases'], True,
                          'calls checked against the model')


class Carr(object):
    """stand-in for a cyarray array: records the calls made on it"""

    def __init__(self, name, length=None):
        self.name = name
        self.data = SymArray(name + '_data', elem='int')
        self.length = length if length is not None else self.data.length


def carr_obj(name, trace_tag=None, length=None, elem='int'):
    c = SymObject(None, {}, name)
    data = SymArray(name + '_data', elem=elem, length=length)
    c.attrs['data'] = data
    c.attrs['length'] = data.length

    def rec(kind):
        return Native(lambda ex, st, a, k, n: st.trace.append(
            (kind, name, a, k)))
    for kind in ('c_align_array', 'remove', 'resize', 'copy_values'):
        c.attrs[kind] = rec(kind)
    # columns of one element type (the converting copy between columns of
    # DIFFERENT types is numpy's and is covered by the bounded case `typed`)
    c.attrs.setdefault('get_c_type', Native(
        lambda ex, st, a, k, n: 'one_c_type'))
    return c


def pa_self(props, strides, n, extra=None):
    """props: dict name -> carr object"""
    obj = SymObject('ParticleArray', dict(
        gpu=None, backend='cython', properties=dict(props),
        stride=dict(strides), num_real_particles=z3.Int('nreal0')), 'self')
    obj.attrs.update(extra or {})
    obj.module = mod(Repo())
    return obj


def executor(repo, m, fn, spec=None, contracts=None, externals=None,
             merge=False):
    ex = Executor(repo, m, qualname='ParticleArray.' + fn, merge=merge,
                  prune=True, contracts=contracts or {},
                  externals=externals or {},
                  loop_specs={(fn, 0): spec} if spec else {})
    ex.spec_env['Local'] = LOCAL
    return ex


def run_task(task, ctx):
    repo = Repo()
    m = mod(repo)
    if task == 'align':
        return task_align(ctx, repo, m)
    if task == 'remove':
        return task_remove(ctx, repo, m)
    if task == 'tagged':
        return task_tagged(ctx, repo, m)
    if task == 'extend':
        return task_extend(ctx, repo, m)
    if task == 'extract':
        return task_extract(ctx, repo, m)
    if task == 'props':
        return task_props(ctx, repo, m)
    if task == 'add':
        return task_add(ctx, repo, m)
    if task == 'append':
        return task_append(ctx, repo, m)
    if task == 'addprop':
        return task_addprop(ctx, repo, m)
    if task == 'walkers':
        return task_walkers(ctx, repo, m)
    if task == 'walk':
        return task_walk(ctx)
    if task == 'pickle':
        return task_pickle(ctx, repo, m)
    if task == 'misc':
        return task_misc(ctx, repo, m)
    if task == 'arrtypes':
        return task_arrtypes(ctx, repo, m)
    if task == 'canary':
        a = z3.Array('ca', z3.IntSort(), z3.IntSort())
        i = z3.Int('ci')
        ctx.canary('canary.must_fail', Obligation(
            'c', [], z3.Select(a, i) == i))
        ctx.results.append(dict(name='canary.pipeline', verdict='proved',
                                queries=0, backends={}, seconds=0,
                                failing=[], replay=None, info=''))
        return
    raise ValueError(task)


# ----------------------------------------------------------------- replays
REPLAY = r'''
import json, sys
d = json.load(sys.stdin)
sys.path.insert(0, d['built'])
import numpy as np
from pysph.base.utils import get_particle_array
from cyarray.api import LongArray
out = None
def model(pa):
    n = pa.get_number_of_particles()
    return [tuple(float(pa.get(p, only_real_particles=False)[i]) for p in ('pid2', 'x', 'tag')) for i in range(n)]
import itertools
for tags in itertools.product((0, 1, 2), repeat=d['n']):
    pa = get_particle_array(name='a', x=np.arange(len(tags), dtype=float), pid2=np.arange(len(tags), dtype=float) * 10)
    pa.tag[:] = tags
    before = sorted(model(pa))
    pa.align_particles()
    after = model(pa)
    nl = sum(1 for t in tags if t == 0)
    ok = sorted(after) == before and pa.num_real_particles == nl and all(r[2] == 0 for r in after[:nl]) and all(r[2] != 0 for r in after[nl:])
    if not ok:
        out = dict(op='align_particles', tags=list(tags), rows_after=after, num_real=pa.num_real_particles); break
if out is None:
    for idx in ([3, 0], [2, 1, 0], [0, 3, 1]):
        for kind in ('list', 'LongArray'):
            pa = get_particle_array(name='a', x=np.arange(5.0), pid2=np.arange(5.0) * 10)
            arg = idx
            if kind == 'LongArray':
                arg = LongArray(len(idx)); arg.set_data(np.array(idx, dtype=np.int64))
            pa.remove_particles(arg)
            left = sorted(float(v) for v in pa.get('x', only_real_particles=False))
            want = sorted(float(i) for i in range(5) if i not in idx)
            if left != want:
                out = dict(op='remove_particles', indices=idx, kind=kind, left=left, expected=want); break
        if out: break
print(json.dumps(dict(bad=out)))
'''


def replay_built(model, ob):
    """Build the working tree's particle_array extension in a scratch copy
    (minutes) and run align/remove against a record-list model."""
    import os
    import shutil
    import subprocess
    import tempfile
    from pyvc.repo import REPO_ROOT
    if os.environ.get('PYVC_NO_BUILD_REPLAY'):
        return dict(reproduced=False, note='build replay disabled')
    try:
        dst, msg = native.shared_build()
        if dst is None:
            return dict(reproduced=False, note=msg)
        r = native.run_venv(REPLAY, dict(built=dst, n=4), timeout=900,
                            cwd='/tmp')
        if r['bad']:
            return dict(reproduced=True, how='particle_array built from the '
                        'working tree, compared with a record-list model',
                        **r['bad'])
        return dict(reproduced=False)
    except Exception as e:
        return dict(reproduced=False, note=str(e)[-300:])


# -------------------------------------------------------------------- align
def task_align(ctx, repo, m):
    fn = m.methods('ParticleArray')['align_particles']
    W = m.path
    n = z3.Int('n')
    tag = carr_obj('tag', length=n)
    idx_holder = {}

    def mk_long(ex, st, a, k, node):
        c = carr_obj('index_array', length=S.to_z3(a[0]))
        idx_holder['c'] = c
        return c
    props = {'x': carr_obj('x'), 'v': carr_obj('v'), 'tag': tag}
    obj = pa_self(props, {'v': 3}, n)
    T = tag.attrs['data'].arr

    def inv(ex, st):
        e = st.env
        i = S.to_z3(e['i'])
        A = e['index_array'].attrs['data'].arr
        ni = S.to_z3(e['next_insert'])
        nr = S.to_z3(e['num_real_particles'])
        k, l = z3.Int('k'), z3.Int('l')
        return z3.And(
            i >= 0, i <= n, ni >= 0, ni <= i, nr == ni,
            z3.ForAll([k], z3.Implies(z3.And(0 <= k, k < i), z3.And(
                z3.Select(A, k) >= 0, z3.Select(A, k) < i))),
            z3.ForAll([k, l], z3.Implies(z3.And(0 <= k, k < l, l < i),
                                         z3.Select(A, k) !=
                                         z3.Select(A, l))),
            z3.ForAll([k], z3.Implies(z3.And(0 <= k, k < ni),
                                      z3.Select(T, z3.Select(A, k)) ==
                                      LOCAL)),
            z3.ForAll([k], z3.Implies(z3.And(ni <= k, k < i),
                                      z3.Select(T, z3.Select(A, k)) !=
                                      LOCAL)),
            S.to_z3(S.cmp('>=', e['num_moves'], 0)))
    spec = LoopSpec(inv=[('perm', inv)])
    ex = executor(repo, m, 'align_particles', spec, contracts={
        'ParticleArray.get_number_of_particles': CalleeContract(
            lambda e, s_, a, k, nn: n),
        'ParticleArray.get_carray': CalleeContract(
            lambda e, s_, a, k, nn: a[0].attrs['properties'][a[1]])})
    ex.spec_env['LongArray'] = Native(mk_long)
    outs = ex.exec_function(fn, dict(self=obj), State(pc=[n >= 0]))
    ctx.function(m, fn, 'ParticleArray.align_particles', ex.dropped)
    obs = [o for o in ex.obligations if o.kind in ('inv-entry', 'inv-step',
                                                   'index')]
    apply_obs = []
    for i_, o in enumerate(outs):
        e = o.state.env
        A = e['index_array'].attrs['data'].arr
        nr = S.to_z3(e['self'].attrs['num_real_particles'])
        k, l = z3.Int('k'), z3.Int('l')
        post = z3.And(
            z3.ForAll([k], z3.Implies(z3.And(0 <= k, k < n), z3.And(
                z3.Select(A, k) >= 0, z3.Select(A, k) < n))),
            z3.ForAll([k, l], z3.Implies(z3.And(0 <= k, k < l, l < n),
                                         z3.Select(A, k) !=
                                         z3.Select(A, l))),
            nr >= 0, nr <= n,
            z3.ForAll([k], z3.Implies(z3.And(0 <= k, k < nr),
                                      z3.Select(T, z3.Select(A, k)) ==
                                      LOCAL)),
            z3.ForAll([k], z3.Implies(z3.And(nr <= k, k < n),
                                      z3.Select(T, z3.Select(A, k)) !=
                                      LOCAL)))
        obs.append(Obligation('align.post.%d' % i_, o.pc, post, W))
        # application: same index array, own stride, every property
        calls = [t for t in o.state.trace if t[0] == 'c_align_array']
        moved = S.cmp('>', e['num_moves'], 0)
        want = [('x', 1), ('v', 3), ('tag', 1)]
        good = [(c[1], c[2][1]) for c in calls] == want and all(
            c[2][0] is e['index_array'] for c in calls)
        none = not calls
        # on this path either nothing moved (no calls) or all were aligned
        apply_obs.append(Obligation(
            'align.apply.%d' % i_, o.pc,
            z3.And(z3.Implies(S.to_z3(moved), z3.BoolVal(bool(good))),
                   z3.Implies(z3.Not(S.to_z3(moved)),
                              z3.BoolVal(bool(none)))), W,
            extra=dict(calls=[(c[1], str(c[2][1])) for c in calls])))
    for o_ in obs + apply_obs:
        o_.extra = dict(o_.extra or {}, backends=['z3'])
    ctx.prove('align.index_is_permutation_local_first', obs,
              replay=replay_built, sample=True, use_nf=False)
    ctx.prove('align.applied_to_every_property', apply_obs,
              replay=replay_built, use_nf=False)


# ------------------------------------------------------------------- remove
def task_remove(ctx, repo, m):
    fn = m.methods('ParticleArray')['remove_particles']
    W = m.path
    obs = []
    for is_base in (True, False):
        for align in (True, False):
            n = z3.Int('n')
            props = {'x': carr_obj('x'), 'v': carr_obj('v')}
            obj = pa_self(props, {'v': 3}, n)
            L = z3.Int('n_idx')

            def npy(tag):
                return ('npy', tag)
            idx_in = SymObject(None, dict(
                length=L, get_npy_array=Native(
                    lambda e, s_, a, k, nn: ('npy-of', 'input'))), 'indices')
            made = {}

            def mk_long(ex, st, a, k, node):
                c = SymObject(None, dict(length=L), 'index_list')
                c.attrs['set_data'] = Native(
                    lambda e, s_, a_, k_, n_: made.__setitem__('data',
                                                               a_[0]))
                c.attrs['get_npy_array'] = Native(
                    lambda e, s_, a_, k_, n_: ('npy-of', 'converted'))
                return c
            raw = SymObject(None, dict(size=L), 'raw_indices')
            ex = executor(repo, m, 'remove_particles', contracts={
                'ParticleArray.get_number_of_particles': CalleeContract(
                    lambda e, s_, a, k, nn: n),
                'ParticleArray.align_particles': CalleeContract(
                    lambda e, s_, a, k, nn: s_.trace.append(('align',)))},
                externals={
                    'isinstance': lambda e, s_, a, k, nn: is_base,
                    'asarray': lambda e, s_, a, k, nn: raw,
                    'sort': lambda e, s_, a, k, nn: ('sorted', a[0]),
                    'len': lambda e, s_, a, k, nn: len(a[0])
                    if isinstance(a[0], (list, dict)) else L})
            ex.spec_env['LongArray'] = Native(mk_long)
            ex.spec_env['BaseArray'] = 'BaseArray'
            outs = ex.exec_function(fn, dict(
                self=obj, indices=idx_in if is_base else 'rawlist',
                align=align), State(pc=[n >= 0, L >= 0]))
            ctx.function(m, fn, 'ParticleArray.remove_particles', ex.dropped)
            src = 'input' if is_base else 'converted'
            for i_, o in enumerate(outs):
                if o.kind == 'raise':
                    # only when more indices than particles
                    obs.append(Obligation('remove.raise.%s.%d' % (is_base,
                                                                  i_), o.pc,
                                          L > n, W))
                    continue
                calls = [t for t in o.state.trace if t[0] == 'remove']
                good = [(c[1], c[2][2]) for c in calls] == [('x', 1),
                                                            ('v', 3)] and \
                    all(c[2][0] == ('sorted', ('npy-of', src)) and
                        c[2][1] == 1 for c in calls)
                aligned = ('align',) in o.state.trace
                want_align = z3.And(L > 0, z3.BoolVal(align))
                obs.append(Obligation('remove.calls.%s.%s.%d' % (
                    is_base, align, i_), o.pc, z3.BoolVal(bool(good)), W,
                    extra=dict(calls=str([(c[1], c[2]) for c in
                                          calls])[:300])))
                obs.append(Obligation('remove.align.%s.%s.%d' % (
                    is_base, align, i_), o.pc,
                    want_align == z3.BoolVal(aligned), W))
    for o_ in obs:
        o_.extra = dict(o_.extra or {}, backends=['z3'])
    ctx.prove('remove.same_sorted_indices_to_every_property', obs,
              replay=replay_built, use_nf=False)


# ------------------------------------------------------------------- tagged
def task_tagged(ctx, repo, m):
    fn = m.methods('ParticleArray')['remove_tagged_particles']
    W = m.path
    n = z3.Int('n')
    tag_c = carr_obj('tag', length=n)
    T = tag_c.attrs['data']
    tag_c.attrs['get_data_ptr'] = Native(lambda e, s_, a, k, nn: T)
    obj = pa_self({'tag': tag_c}, {}, n)
    want_tag = z3.Int('wanted_tag')
    appended = []

    def mk_long(ex, st, a, k, node):
        c = SymObject(None, {}, 'indices')
        c.attrs['append'] = Native(lambda e, s_, a_, k_, n_:
                                   s_.trace.append(('append', a_[0])))
        return c
    spec = LoopSpec(inv=[('range', lambda ex, st: z3.And(
        S.to_z3(st.env['i']) >= 0, S.to_z3(st.env['i']) <= n))])
    ex = executor(repo, m, 'remove_tagged_particles', spec, contracts={
        'ParticleArray.remove_particles': CalleeContract(
            lambda e, s_, a, k, nn: s_.trace.append(('remove_particles',
                                                     a[1], k)))})
    ex.spec_env['LongArray'] = Native(mk_long)
    outs = ex.exec_function(fn, dict(self=obj, tag=want_tag, align=True),
                            State(pc=[n >= 0]))
    ctx.function(m, fn, 'ParticleArray.remove_tagged_particles', ex.dropped)
    obs = [o for o in ex.obligations if o.kind in ('inv-entry', 'inv-step',
                                                   'index')]
    head = spec.log['head']
    n0 = len(head.trace)
    iv = head.env['i']
    for j, (s1, sig) in enumerate(spec.log['ends']):
        ev = [t for t in s1.trace[n0:] if t[0] == 'append']
        match = z3.Select(T.arr, S.to_z3(iv)) == want_tag
        if ev:
            g = z3.And(match, z3.BoolVal(len(ev) == 1),
                       S.to_z3(ev[0][1]) == S.to_z3(iv))
        else:
            g = z3.Not(match)
        obs.append(Obligation('tagged.step.%d' % j, s1.pc, g, W))
    for i_, o in enumerate(outs):
        calls = [t for t in o.state.trace if t[0] == 'remove_particles']
        ok = len(calls) == 1 and calls[0][1] is o.state.env['indices'] and \
            calls[0][2].get('align') is True
        obs.append(Obligation('tagged.handoff.%d' % i_, o.pc,
                              z3.BoolVal(bool(ok)), W))
    for o_ in obs:
        o_.extra = dict(o_.extra or {}, backends=['z3'])
    ctx.prove('remove_tagged.collects_matching_indices_in_order', obs,
              use_nf=False, replay=lambda mo, ob: replay_walkers(mo, ob))


# ------------------------------------------------------------------- extend
class NpView(object):
    def __init__(self, name):
        self.name = name

    def vc_setitem(self, idx, v, ex, st, node):
        st.trace.append(('fill', self.name, idx, v))


def task_extend(ctx, repo, m):
    fn = m.methods('ParticleArray')['extend']
    W = m.path
    n, k = z3.Int('n'), z3.Int('k')
    props = {}
    for nm in ('x', 'v'):
        c = carr_obj(nm)
        c.attrs['get_npy_array'] = Native(lambda e, s_, a, k_, nn, nm=nm:
                                          NpView(nm))
        props[nm] = c
    dx, dv = z3.Real('default_x'), z3.Real('default_v')
    obj = pa_self(props, {'v': 3}, n, dict(default_values={'x': dx,
                                                           'v': dv}))
    ex = executor(repo, m, 'extend', contracts={
        'ParticleArray.get_number_of_particles': CalleeContract(
            lambda e, s_, a, k_, nn: n)})
    outs = ex.exec_function(fn, dict(self=obj, num_particles=k),
                            State(pc=[n >= 0]))
    ctx.function(m, fn, 'ParticleArray.extend', ex.dropped)
    obs = []
    for i_, o in enumerate(outs):
        tr = o.state.trace
        if not tr:
            obs.append(Obligation('extend.noop.%d' % i_, o.pc, k <= 0, W))
            continue
        obs.append(Obligation('extend.positive.%d' % i_, o.pc, k > 0, W))
        want = []
        ok = [t[0] for t in tr] == ['resize', 'fill', 'resize', 'fill']
        goals = []
        if ok:
            for (rs, fl, nm, s_, dflt) in ((tr[0], tr[1], 'x', 1, dx),
                                           (tr[2], tr[3], 'v', 3, dv)):
                ok = ok and rs[1] == nm and fl[1] == nm and \
                    isinstance(fl[2], slice) and fl[2].stop is None and \
                    S.same(fl[3], dflt)
                if ok:
                    goals.append(S.to_z3(S.cmp('==', rs[2][0], (n + k) *
                                               s_)))
                    goals.append(S.to_z3(S.cmp('==', fl[2].start, n * s_)))
        obs.append(Obligation('extend.shape.%d' % i_, o.pc,
                              z3.BoolVal(bool(ok)), W))
        for j, g in enumerate(goals):
            obs.append(Obligation('extend.size.%d.%d' % (i_, j), o.pc, g, W))
    for o_ in obs:
        o_.extra = dict(o_.extra or {}, backends=['z3'])
    ctx.prove('extend.resizes_and_fills_defaults', obs, use_nf=False)


# ------------------------------------------------------------------ extract
REPLAY_EXTRACT = r'''
import json, sys
d = json.load(sys.stdin)
sys.path.insert(0, d['built'])
import numpy as np
from pysph.base.utils import get_particle_array
bad = None
src = get_particle_array(name='s', x=[10., 11., 12.])
src.add_property('vec3', stride=3); src.vec3[:] = np.arange(9.0)
dst = get_particle_array(name='d', x=[0., 1., 2., 3.])
dst.add_property('vec3', stride=3)
dst.tag[:] = [0, 0, 2, 2]          # two ghosts behind two real particles
dst.align_particles()
before = sorted(dst.get('x', only_real_particles=False).tolist())
src.extract_particles([0, 2], dest_array=dst, align=False)
x = dst.get('x', only_real_particles=False).tolist()
v = dst.get('vec3', only_real_particles=False).reshape(-1, 3).tolist()
if sorted(x) != sorted(before + [10., 12.]) or x[4:] != [10., 12.] or v[4:] != [[0., 1., 2.], [6., 7., 8.]]:
    bad = dict(op='extract_particles([0,2]) into an array with 2 real + 2 ghost particles', x_after=x, vec3_tail=v[4:])
if bad is None:
    empty = get_particle_array(name='e')
    empty.add_property('vec3', stride=3)
    r = src.extract_particles([1], dest_array=empty)
    xe = empty.get('x', only_real_particles=False).tolist()
    if r is not empty or xe != [11.]:
        bad = dict(op='extract_particles([1]) into an EMPTY destination array', destination_x_after=xe, returned_the_destination=r is empty)
print(json.dumps(dict(bad=bad)))
'''


def replay_extract(model, ob):
    import os
    if os.environ.get('PYVC_NO_BUILD_REPLAY'):
        return dict(reproduced=False, note='build replay disabled')
    try:
        dst, msg = native.shared_build()
        if dst is None:
            return dict(reproduced=False, note=msg)
        r = native.run_venv(REPLAY_EXTRACT, dict(built=dst), timeout=900,
                            cwd='/tmp')
        if r['bad']:
            return dict(reproduced=True, how='particle_array built from the '
                        'working tree', **r['bad'])
        return dict(reproduced=False)
    except Exception as e:
        return dict(reproduced=False, note=str(e)[-300:])


def task_extract(ctx, repo, m):
    fn = m.methods('ParticleArray')['extract_particles']
    W = m.path
    obs = []
    for align in (True, False):
        n, L, nd = z3.Int('n'), z3.Int('n_idx'), z3.Int('n_dest')
        props = {'x': carr_obj('x'), 'v': carr_obj('v')}
        dprops = {'x': carr_obj('dx'), 'v': carr_obj('dv')}
        obj = pa_self(props, {'v': 3}, n)
        idx = SymObject(None, dict(length=L), 'indices')
        nrd = z3.Int('n_real_dest')
        # an instance of the class (its truth value is Python's: a class
        # with __len__ makes an EMPTY destination falsy), possibly empty
        dest = SymObject('ParticleArray', dict(
            # the destination may hold ghosts behind its real particles
            num_real_particles=nrd,
            get_number_of_particles=Native(
                lambda e, s_, a, k, nn: nrd if (k.get('real') or (
                    a and a[0] is True)) else nd),
            extend=Native(lambda e, s_, a, k, nn: s_.trace.append(
                ('dest.extend', a[0]))),
            get_carray=Native(lambda e, s_, a, k, nn: dprops[a[0]]),
            align_particles=Native(lambda e, s_, a, k, nn: s_.trace.append(
                ('dest.align',)))), 'dest')
        dest.module = m
        # the fresh array empty_clone() would give (used when NO destination
        # is passed; reaching it with a destination loses the particles)
        clone = SymObject(None, dict(dest.attrs), 'clone')
        ex = executor(repo, m, 'extract_particles', contracts={
            'ParticleArray.get_carray': CalleeContract(
                lambda e, s_, a, k, nn: a[0].attrs['properties'][a[1]]),
            'ParticleArray.empty_clone': CalleeContract(
                lambda e, s_, a, k, nn: clone)},
            externals={'isinstance': lambda e, s_, a, k, nn: True})
        ex.spec_env['BaseArray'] = 'BaseArray'
        outs = ex.exec_function(fn, dict(self=obj, indices=idx,
                                         dest_array=dest, align=align,
                                         props=None),
                                State(pc=[n >= 0, L >= 0, nd >= 0, nrd >= 0,
                                          nrd <= nd]))
        ctx.function(m, fn, 'ParticleArray.extract_particles', ex.dropped)
        for i_, o in enumerate(outs):
            tr = o.state.trace
            if not tr:
                obs.append(Obligation('extract.empty.%s.%d' % (align, i_),
                                      o.pc, z3.And(L == 0, z3.BoolVal(
                                          getattr(o.value, 'name', None) == 'dest')), W))
                continue
            names = [t[0] for t in tr]
            want = ['dest.extend', 'copy_values', 'copy_values'] + (
                ['dest.align'] if align else [])
            ok = names == want and getattr(o.value, 'name', None) == 'dest'
            goals = [L != 0]
            if ok:
                ok = tr[0][1] is L or S.same(tr[0][1], L)
                for c, (nm, dn, s_) in zip(tr[1:3], (('x', 'dx', 1),
                                                     ('v', 'dv', 3))):
                    a = c[2]
                    ok = ok and c[1] == nm and getattr(a[0], 'name', None) == \
                        'indices' and getattr(a[1], 'name', None) == dn \
                        and a[2] == s_
                    if ok:
                        goals.append(S.to_z3(S.cmp('==', a[3], s_ * nd)))
            obs.append(Obligation('extract.shape.%s.%d' % (align, i_), o.pc,
                                  z3.BoolVal(bool(ok)), W,
                                  extra=dict(events=names)))
            for j, g in enumerate(goals):
                obs.append(Obligation('extract.args.%s.%d.%d' % (align, i_,
                                                                 j), o.pc, g,
                                      W))
    # a same-named property of ANOTHER element type in the destination:
    # copy_values casts the source column to the destination's array class
    # and reinterprets the bytes, so it may only be handed two columns of
    # one type; otherwise the values go through a converting assignment
    class _Np(object):
        def __init__(self, nm):
            self.nm = nm

        def vc_clone(self, memo, _c=None):
            return self

        def vc_getattr(self, name, ex, st, node):
            if name in ('reshape', 'ravel'):
                return Native(lambda e, s_, a, k, nn: self)
            raise VCError('numpy stub .%s' % name)

        def vc_getitem(self, idx, ex, st, node):
            return self

        def vc_setitem(self, idx, v, ex, st, node):
            st.trace.append(('converted', self.nm, getattr(v, 'nm', None)))

    def typed(nm, ctype):
        c = carr_obj(nm)
        c.attrs['get_c_type'] = Native(lambda e, s_, a, k, nn: ctype)
        c.attrs['get_npy_array'] = Native(lambda e, s_, a, k, nn: _Np(nm))
        return c
    try:
        n, L, nd = z3.Int('n'), z3.Int('n_idx'), z3.Int('n_dest')
        props = {'x': typed('x', 'float'), 'v': typed('v', 'double')}
        dprops = {'x': typed('dx', 'double'), 'v': typed('dv', 'double')}
        obj = pa_self(props, {'v': 3}, n)
        idx = SymObject(None, dict(length=L, get_npy_array=Native(
            lambda e, s_, a, k, nn: _Np('indices'))), 'indices')
        dest = SymObject('ParticleArray', dict(
            num_real_particles=nd,
            get_number_of_particles=Native(lambda e, s_, a, k, nn: nd),
            extend=Native(lambda e, s_, a, k, nn: None),
            get_carray=Native(lambda e, s_, a, k, nn: dprops[a[0]]),
            align_particles=Native(lambda e, s_, a, k, nn: None)), 'dest')
        dest.module = m
        ex = executor(repo, m, 'extract_particles', contracts={
            'ParticleArray.get_carray': CalleeContract(
                lambda e, s_, a, k, nn: a[0].attrs['properties'][a[1]])},
            externals={'isinstance': lambda e, s_, a, k, nn: True})
        ex.spec_env['BaseArray'] = 'BaseArray'
        outs = ex.exec_function(fn, dict(self=obj, indices=idx,
                                         dest_array=dest, align=False,
                                         props=None),
                                State(pc=[n >= 0, L >= 1, nd >= 0]))
        okt = len(outs) >= 1
        for o in outs:
            cv = [t[1] for t in o.state.trace if t[0] == 'copy_values']
            conv = [t[1] for t in o.state.trace if t[0] == 'converted']
            okt = okt and cv == ['v'] and conv == ['dx']
        obs.append(Obligation('extract.columns_of_another_type_are_converted',
                              [], z3.BoolVal(bool(okt)), W))
    except VCError as e:
        obs.append(Obligation('extract.columns_of_another_type_are_converted',
                              [], z3.BoolVal(False), W,
                              extra=dict(why=str(e)[:200])))
    for o_ in obs:
        o_.extra = dict(o_.extra or {}, backends=['z3'])
    ctx.prove('extract.copies_whole_rows_to_the_end', obs, use_nf=False,
              replay=replay_extract)


# --------------------------------------------- property bookkeeping / resize
REPLAY_PROPS = r'''
import json, sys
d = json.load(sys.stdin)
sys.path.insert(0, d['built'])
import numpy as np
from pysph.base.utils import get_particle_array
bad = None
def wf(pa, what):
    n = pa.get_number_of_particles()
    for name in pa.properties:
        st = pa.stride.get(name, 1)
        if pa.get_carray(name).length != n * st:
            return dict(op=what, prop=name, length=int(pa.get_carray(name).length), n=int(n), stride=int(st))
    for name in pa.stride:
        if name not in pa.properties:
            return dict(op=what, prop=name, problem='stride entry of a property that no longer exists', stride=int(pa.stride[name]))
    return None
pa = get_particle_array(name='a', x=[0., 1., 2., 3.])
pa.add_property('vec', stride=3)
pa.remove_property('vec')
bad = wf(pa, 'add_property(vec, stride=3); remove_property(vec)')
if bad is None:
    pa.add_property('vec')
    bad = wf(pa, 'add_property(vec, stride=3); remove_property(vec); add_property(vec)')
if bad is None:
    pa = get_particle_array(name='a', x=[0., 1., 2.])
    pa.add_property('w2', stride=2); pa.w2[:] = np.arange(6.0)
    pa.resize(5)
    bad = wf(pa, 'resize(5)')
if bad is None:
    pa = get_particle_array(name='a', x=[0., 1., 2.])
    pa.add_property('w2', stride=2, default=7.0); pa.w2[:] = np.arange(6.0)
    pa.add_particles(x=[5., 6.])
    bad = wf(pa, 'add_particles(x=[5,6])')
    if bad is None and (list(pa.get('w2', only_real_particles=False)) != [0., 1., 2., 3., 4., 5., 7., 7., 7., 7.]):
        bad = dict(op='add_particles(x=[5,6])', problem='strided property not extended with its default', w2=list(map(float, pa.get('w2', only_real_particles=False))))
if bad is None:
    a = get_particle_array(name='a', x=[0., 1.])
    a.add_property('w2', stride=2); a.w2[:] = [1., 2., 3., 4.]
    b = get_particle_array(name='b', x=[7.])
    b.add_property('w2', stride=2); b.w2[:] = [9., 10.]
    b.add_property('q2', stride=3); b.q2[:] = [1., 2., 3.]
    a.append_parray(b)
    bad = wf(a, 'append_parray')
    if bad is None and (list(a.w2) != [1., 2., 3., 4., 9., 10.] or list(a.q2) != [0.]*6 + [1., 2., 3.]):
        bad = dict(op='append_parray', w2=list(map(float, a.w2)), q2=list(map(float, a.q2)))
if bad is None:
    # first particles arrive through add_property on an empty array that
    # already declares a strided property
    from pysph.base.particle_array import ParticleArray
    pa = ParticleArray(name='e')
    pa.add_property('A9', stride=3, default=5.0)
    pa.add_property('x', data=[1., 2., 3.])
    bad = wf(pa, "empty array: add_property('A9', stride=3); add_property('x', data=[1,2,3])")
    if bad is None and list(pa.get('A9', only_real_particles=False)) != [5.0] * 9:
        bad = dict(op='empty array then data', A9=list(map(float, pa.get('A9', only_real_particles=False))))
if bad is None:
    # the declared default survives a later add_property(name, data=...)
    pa = get_particle_array(name='a', x=[0., 1.])
    pa.add_property('rho9', default=1000.0)
    pa.add_property('rho9', data=[1., 2.])
    pa.extend(2)
    if list(pa.get('rho9', only_real_particles=False)) != [1., 2., 1000., 1000.]:
        bad = dict(op="add_property('rho9', default=1000); add_property('rho9', data=[1,2]); extend(2)", rho9=list(map(float, pa.get('rho9', only_real_particles=False))))
print(json.dumps(dict(bad=bad)))
'''


def replay_props(model, ob):
    import os
    if os.environ.get('PYVC_NO_BUILD_REPLAY'):
        return dict(reproduced=False, note='build replay disabled')
    try:
        dst, msg = native.shared_build()
        if dst is None:
            return dict(reproduced=False, note=msg)
        r = native.run_venv(REPLAY_PROPS, dict(built=dst), timeout=900,
                            cwd='/tmp')
        if r['bad']:
            return dict(reproduced=True, how='particle_array built from the '
                        'working tree', **r['bad'])
        return dict(reproduced=False)
    except Exception as e:
        return dict(reproduced=False, note=str(e)[-300:])


def task_props(ctx, repo, m):
    """remove_property drops EVERY per-property record (array, default,
    stride, output list): a stale stride would make the next property of that
    name violate len = n*stride; resize walks every property with its stride"""
    W = m.path
    fn = m.methods('ParticleArray')['remove_property']
    props = {'x': carr_obj('x'), 'v': carr_obj('v')}
    obj = pa_self(props, {'v': 3}, z3.Int('n'), dict(
        default_values={'x': z3.Real('dx'), 'v': z3.Real('dv')},
        output_property_arrays=['x', 'v']))
    ex = executor(repo, m, 'remove_property')
    outs = ex.exec_function(fn, dict(self=obj, prop_name='v'), State(pc=[]))
    ctx.function(m, fn, 'ParticleArray.remove_property', ex.dropped)
    obs = []
    for i_, o in enumerate(outs):
        me = o.state.env['self']
        for rec in ('properties', 'default_values', 'stride',
                    'output_property_arrays'):
            obs.append(Obligation('remove_property.%s_forgets_the_name.%d' % (
                rec, i_), o.pc, z3.BoolVal('v' not in me.attrs[rec]), W))
        obs.append(Obligation('remove_property.others_kept.%d' % i_, o.pc,
                              z3.BoolVal('x' in me.attrs['properties'] and
                                         'x' in me.attrs['default_values'] and
                                         'x' in me.attrs[
                                             'output_property_arrays']), W))
    ctx.prove('props.remove_property_drops_every_record_of_the_name', obs,
              replay=replay_props)
    # resize
    fn = m.methods('ParticleArray')['resize']
    props = {'x': carr_obj('x'), 'v': carr_obj('v'), 'tag': carr_obj('tag')}
    obj = pa_self(props, {'v': 3}, z3.Int('n'))
    size = z3.Int('size')
    ex = executor(repo, m, 'resize')
    outs = ex.exec_function(fn, dict(self=obj, size=size), State(pc=[]))
    ctx.function(m, fn, 'ParticleArray.resize', ex.dropped)
    obs = []
    for i_, o in enumerate(outs):
        tr = [t for t in o.state.trace if t[0] == 'resize']
        ok = [t[1] for t in tr] == ['x', 'v', 'tag']
        g = [z3.BoolVal(ok)]
        if ok:
            for t, s_ in zip(tr, (1, 3, 1)):
                g.append(S.to_z3(S.cmp('==', t[2][0], size * s_)))
        obs.append(Obligation('resize.every_property_own_stride.%d' % i_,
                              o.pc, z3.And(*g), W))
    for o_ in obs:
        o_.extra = dict(o_.extra or {}, backends=['z3'])
    ctx.prove('props.resize_walks_every_property_with_its_stride', obs,
              use_nf=False, replay=replay_props)


class SeqArg(object):
    """a sequence argument of symbolic length (numpy array / list)"""

    def __init__(self, name, length):
        self.name, self.length = name, length

    def vc_len(self, ex, st, node):
        return self.length

    def vc_clone(self, memo, _c=None):
        return self


def task_add(ctx, repo, m):
    """add_particles (CPU path): given properties are extended with the given
    data, every other property grows to (n+k)*stride and gets its default
    from n*stride on; aligned afterwards iff something was added"""
    W = m.path
    fn = m.methods('ParticleArray')['add_particles']
    n, k = z3.Int('n'), z3.Int('k')
    obs = []
    for align in (True, False):
        props = {}
        for nm in ('x', 'v', 'tag'):
            c = carr_obj(nm)
            c.attrs['get_npy_array'] = Native(
                lambda e, s_, a, k_, nn, nm=nm: SymObject(None, dict(
                    dtype='dtype_' + nm), 'npview_' + nm) if False else
                _View(nm))
            c.attrs['extend'] = Native(lambda e, s_, a, k_, nn, nm=nm:
                                       s_.trace.append(('extend', nm, a[0])))
            props[nm] = c
        dflt = {nm: z3.Real('default_' + nm) for nm in props}
        obj = pa_self(props, {'v': 3}, n, dict(default_values=dflt))
        given = {'x': SeqArg('given_x', k), 'v': SeqArg('given_v', 3 * k)}
        ex = executor(repo, m, 'add_particles', contracts={
            'ParticleArray.get_number_of_particles': CalleeContract(
                lambda e, s_, a, k_, nn: n),
            'ParticleArray._check_property': CalleeContract(
                lambda e, s_, a, k_, nn: None),
            'ParticleArray.align_particles': CalleeContract(
                lambda e, s_, a, k_, nn: s_.trace.append(('align',)))})
        ex.spec_env['numpy'] = SymObject(None, dict(asarray=Native(
            lambda e, s_, a, k_, nn: a[0])), 'numpy')
        ex.spec_env['PyDict_GetItem'] = Native(lambda e, s_, a, k_, nn:
                                               a[0][a[1]])
        ex.spec_env['PyDict_Contains'] = Native(
            lambda e, s_, a, k_, nn: 1 if a[1] in a[0] else 0)
        outs = ex.exec_function(fn, dict(self=obj, align=align,
                                         particle_props=given),
                                State(pc=[n >= 0, k >= 0]))
        if align:
            ctx.function(m, fn, 'ParticleArray.add_particles', ex.dropped)
        for i_, o in enumerate(outs):
            tr = o.state.trace
            ext = [t for t in tr if t[0] == 'extend']
            rsz = [t for t in tr if t[0] == 'resize']
            fil = [t for t in tr if t[0] == 'fill']
            ok = [(t[1], getattr(t[2], 'name', None)) for t in ext] == [
                ('x', 'given_x'), ('v', 'given_v')] and \
                [t[1] for t in rsz] == ['tag'] and \
                [t[1] for t in fil] == ['tag']
            g = [z3.BoolVal(ok)]
            if ok:
                g.append(S.to_z3(S.cmp('==', rsz[0][2][0], (n + k) * 1)))
                sl = fil[0][2]
                g.append(z3.BoolVal(isinstance(sl, slice) and sl.stop is
                                    None))
                if isinstance(sl, slice):
                    g.append(S.to_z3(S.cmp('==', sl.start, n * 1)))
                g.append(z3.BoolVal(S.same(fil[0][3], dflt['tag'])))
            aligned = ('align',) in tr
            g.append(z3.BoolVal(True) if not align else
                     (k > 0) == z3.BoolVal(aligned))
            if not align:
                g.append(z3.BoolVal(not aligned))
            obs.append(Obligation('add_particles.%s.%d' % (
                'align' if align else 'noalign', i_), o.pc, z3.And(*g), W))
    # the strided property NOT given: grows by k blocks of its own stride
    props = {}
    for nm in ('x', 'v'):
        c = carr_obj(nm)
        c.attrs['get_npy_array'] = Native(lambda e, s_, a, k_, nn, nm=nm:
                                          _View(nm))
        c.attrs['extend'] = Native(lambda e, s_, a, k_, nn, nm=nm:
                                   s_.trace.append(('extend', nm, a[0])))
        props[nm] = c
    dflt = {nm: z3.Real('default_' + nm) for nm in props}
    obj = pa_self(props, {'v': 3}, n, dict(default_values=dflt))
    ex = executor(repo, m, 'add_particles', contracts={
        'ParticleArray.get_number_of_particles': CalleeContract(
            lambda e, s_, a, k_, nn: n),
        'ParticleArray._check_property': CalleeContract(
            lambda e, s_, a, k_, nn: None),
        'ParticleArray.align_particles': CalleeContract(
            lambda e, s_, a, k_, nn: s_.trace.append(('align',)))})
    ex.spec_env['numpy'] = SymObject(None, dict(asarray=Native(
        lambda e, s_, a, k_, nn: a[0])), 'numpy')
    ex.spec_env['PyDict_GetItem'] = Native(lambda e, s_, a, k_, nn:
                                           a[0][a[1]])
    ex.spec_env['PyDict_Contains'] = Native(
        lambda e, s_, a, k_, nn: 1 if a[1] in a[0] else 0)
    outs = ex.exec_function(fn, dict(self=obj, align=False, particle_props={
        'x': SeqArg('given_x', k)}), State(pc=[n >= 0, k >= 0]))
    for i_, o in enumerate(outs):
        tr = o.state.trace
        rsz = [t for t in tr if t[0] == 'resize']
        fil = [t for t in tr if t[0] == 'fill']
        ok = [t[1] for t in rsz] == ['v'] and [t[1] for t in fil] == ['v']
        g = [z3.BoolVal(ok)]
        if ok:
            g.append(S.to_z3(S.cmp('==', rsz[0][2][0], (n + k) * 3)))
            sl = fil[0][2]
            if isinstance(sl, slice):
                g.append(S.to_z3(S.cmp('==', sl.start, n * 3)))
            else:
                g.append(z3.BoolVal(False))
        obs.append(Obligation('add_particles.strided_default.%d' % i_, o.pc,
                              z3.And(*g), W))
    for o_ in obs:
        o_.extra = dict(o_.extra or {}, backends=['z3'])
    ctx.prove('add.add_particles_extends_every_property_consistently', obs,
              use_nf=False, replay=replay_props)


class _View(object):
    """numpy view of a carray: slice stores are events; .dtype is a token"""

    def __init__(self, name):
        self.name = name

    def vc_setitem(self, idx, v, ex, st, node):
        st.trace.append(('fill', self.name, idx, v))

    def vc_getattr(self, a, ex, st, node):
        if a == 'dtype':
            return 'dtype_' + self.name
        raise VCError('view.' + a)

    def vc_clone(self, memo, _c=None):
        return self


def task_append(ctx, repo, m):
    """append_parray: extended by the other array's particle count, common
    properties copied to the tail from n*stride with the DESTINATION's
    stride, missing ones created with the source's type/default/stride and
    copied to their tail; aligned afterwards on request"""
    W = m.path
    fn = m.methods('ParticleArray')['append_parray']
    n, k = z3.Int('n'), z3.Int('k')
    obs = []
    for align, upd in ((True, False), (False, False), (True, True),
                       (False, True)):
        props = {}
        for nm in ('x', 'v'):
            c = carr_obj(nm)
            c.attrs['get_npy_array'] = Native(
                lambda e, s_, a, k_, nn, nm=nm: _View(nm))
            props[nm] = c
        own_consts = {'c1': ('own', 'c1'), 'c2': ('own', 'c2')}
        obj = pa_self(props, {'v': 3}, n, dict(
            default_values={'x': z3.Real('dx'), 'v': z3.Real('dv')},
            constants=dict(own_consts)))
        sprops = {}
        for nm in ('x', 'v', 'q'):
            c = carr_obj('src_' + nm)
            c.attrs['get_npy_array'] = Native(
                lambda e, s_, a, k_, nn, nm=nm: ('srcview', nm))
            c.attrs['get_c_type'] = Native(
                lambda e, s_, a, k_, nn, nm=nm: 'ctype_' + nm)
            sprops[nm] = c
        other = SymObject(None, dict(
            properties=sprops, stride={'v': 3, 'q': 2},
            default_values={'x': 0, 'v': 0, 'q': z3.Real('dq')},
            constants={cn: SymObject(None, dict(get_npy_array=Native(
                lambda e, s_, a, k_, nn, cn=cn: ('values_of', 'src', cn))),
                'src_const_' + cn) for cn in ('c2', 'c3')},
            # k particles in all, k_real of them Local
            get_number_of_particles=Native(
                lambda e, s_, a, k_, nn: z3.Int('k_real') if (
                    k_.get('real') is True or (a and a[0] is True)) else k)),
            'parray')

        def add_property(e, s_, a, k_, nn):
            me = a[0]
            s_.trace.append(('add_property', dict(k_)))
            c = carr_obj(k_['name'])
            c.attrs['get_npy_array'] = Native(
                lambda e2, s2, a2, k2, n2, nm=k_['name']: _View(nm))
            me.attrs['properties'][k_['name']] = c
            if not (isinstance(k_['stride'], int) and k_['stride'] == 1):
                me.attrs['stride'][k_['name']] = k_['stride']
        ex = executor(repo, m, 'append_parray', contracts={
            'ParticleArray.get_number_of_particles': CalleeContract(
                lambda e, s_, a, k_, nn: n),
            'ParticleArray.extend': CalleeContract(
                lambda e, s_, a, k_, nn: s_.trace.append(('extend_all',
                                                          a[1]))),
            'ParticleArray.add_property': CalleeContract(add_property),
            # a NEW array holding the given values (contract of the helper)
            'ParticleArray._create_c_array_from_npy_array': CalleeContract(
                lambda e, s_, a, k_, nn: ('new_array_with', a[1])),
            'ParticleArray.align_particles': CalleeContract(
                lambda e, s_, a, k_, nn: s_.trace.append(('align',)))})
        ex.spec_env['PyDict_GetItem'] = Native(lambda e, s_, a, k_, nn:
                                               a[0][a[1]])
        ex.spec_env['PyDict_Contains'] = Native(
            lambda e, s_, a, k_, nn: 1 if a[1] in a[0] else 0)
        outs = ex.exec_function(fn, dict(self=obj, parray=other, align=align,
                                         update_constants=upd),
                                State(pc=[n >= 0, k >= 0,
                                          z3.Int('k_real') >= 0,
                                          z3.Int('k_real') <= k]))
        if align and not upd:
            ctx.function(m, fn, 'ParticleArray.append_parray', ex.dropped)
        for i_, o in enumerate(outs):
            tr = o.state.trace
            # constants: the receiver's own constants are untouched; the
            # source's other constants arrive only on request
            cs = o.state.env['self'].attrs['constants']
            want_c = dict(own_consts)
            if upd:
                # ... as an array of its own holding the source's values:
                # the two particle arrays must not share the object
                want_c['c3'] = ('new_array_with', ('values_of', 'src', 'c3'))
            okc = isinstance(cs, dict) and cs == want_c
            obs.append(Obligation(
                'append.constants.%d.%s.%s' % (i_, align, upd), o.pc,
                z3.Or(z3.BoolVal(bool(okc)), k == 0) if upd else
                z3.BoolVal(bool(okc)), W,
                extra=dict(constants=str(cs)[:200])))
            if not tr:
                obs.append(Obligation('append.noop.%d.%s' % (i_, align),
                                      o.pc, k == 0, W))
                continue
            g = [z3.BoolVal(tr[0][0] == 'extend_all')]
            if tr[0][0] == 'extend_all':
                g.append(S.to_z3(S.cmp('==', tr[0][1], k)))
            fills = [t for t in tr if t[0] == 'fill']
            ok = [t[1] for t in fills] == ['x', 'v', 'q'] and all(
                t[3] == ('srcview', t[1]) for t in fills)
            g.append(z3.BoolVal(ok))
            if ok:
                for t, s_ in zip(fills, (1, 3, 2)):
                    sl = t[2]
                    g.append(z3.BoolVal(isinstance(sl, slice) and
                                        sl.stop is None))
                    if isinstance(sl, slice):
                        g.append(S.to_z3(S.cmp('==', sl.start, n * s_)))
            ap = [t for t in tr if t[0] == 'add_property']
            okp = len(ap) == 1 and ap[0][1].get('name') == 'q' and \
                ap[0][1].get('type') == 'ctype_q' and \
                ap[0][1].get('stride') == 2 and \
                S.same(ap[0][1].get('default'), z3.Real('dq'))
            g.append(z3.BoolVal(bool(okp)))
            aligned = ('align',) in tr
            g.append(((k > 0) == z3.BoolVal(aligned)) if align else
                     z3.BoolVal(not aligned))
            obs.append(Obligation('append.%d.%s.%s' % (i_, align, upd), o.pc,
                                  z3.And(*g), W))
    for o_ in obs:
        o_.extra = dict(o_.extra or {}, backends=['z3'])
    ctx.prove('append.append_parray_copies_whole_rows_to_the_tail', obs,
              use_nf=False, replay=replay_walkers)


# ------------------------------------------------------------------- pickle
def task_pickle(ctx, repo, m):
    """__reduce__ / __setstate__: the pickled state carries, for EVERY
    property, its name, C type, data, default value and stride (1 when not
    strided) and every constant with its data, plus the array's name;
    __setstate__ starts from empty records and hands every saved property
    record to add_property and every constant record to add_constant
    unchanged, then counts the Local particles.  With add_property's
    contract (task addprop) the unpickled array has the same properties,
    strides, defaults and constants."""
    W = m.path
    obs = []
    fn = m.methods('ParticleArray')['__reduce__']
    props = {}
    for nm in ('x', 'A', 'tag'):
        c = carr_obj(nm)
        c.attrs['get_npy_array'] = Native(
            lambda e, s_, a, k_, nn, nm=nm: ('npy', nm))
        c.attrs['get_c_type'] = Native(
            lambda e, s_, a, k_, nn, nm=nm: 'ctype_' + nm)
        props[nm] = c
    dfl = {'x': z3.Real('dx'), 'A': z3.Real('dA'), 'tag': z3.Int('dtag')}
    consts = {'cm': ('const', 'cm'), 'k': ('const', 'k')}
    obj = pa_self(props, {'A': 2}, z3.Int('n'), dict(
        default_values=dict(dfl), constants=dict(consts), name='NAME'))
    ex = executor(repo, m, '__reduce__')
    try:
        outs = ex.exec_function(fn, dict(self=obj), State(pc=[]))
    except VCError as e:
        ctx.outside('pickle.reduce', str(e))
        return
    ctx.function(m, fn, 'ParticleArray.__reduce__', ex.dropped)
    if len(outs) != 1:
        obs.append(Obligation('reduce.one_path', [], z3.BoolVal(False), W))
    state_d = None
    for o in outs:
        v = o.value
        ok = isinstance(v, tuple) and len(v) == 3 and v[1] == () and \
            isinstance(v[2], dict)
        why = 'returned %r' % (v,)
        if ok:
            d = v[2]
            state_d = d
            want_p = {}
            for nm in props:
                want_p[nm] = dict(name=nm, type='ctype_' + nm,
                                  data=('npy', nm), default=dfl[nm],
                                  stride={'A': 2}.get(nm, 1))
            gp = d.get('properties')
            ok = d.get('name') == 'NAME' and isinstance(gp, dict) and \
                sorted(gp) == sorted(want_p)
            why = 'state keys %r' % (sorted(d),)
            if ok:
                for nm in want_p:
                    rec = gp[nm]
                    if not isinstance(rec, dict) or sorted(rec) != sorted(
                            want_p[nm]) or any(
                            not S.same(rec[k_], want_p[nm][k_])
                            for k_ in want_p[nm]):
                        ok = False
                        why = 'record of %s: %r' % (nm, rec)
            gc = d.get('constants')
            if ok:
                ok = isinstance(gc, dict) and gc == {
                    nm: dict(name=nm, data=consts[nm]) for nm in consts}
                why = 'constants %r' % (gc,)
        obs.append(Obligation('reduce.state_is_complete', o.pc,
                              z3.BoolVal(bool(ok)), W, extra=dict(why=why)))
    # __setstate__
    fn2 = m.methods('ParticleArray')['__setstate__']
    recs = {nm: dict(name=nm, type='ctype_' + nm, data=('npy', nm),
                     default=dfl[nm], stride={'A': 2}.get(nm, 1))
            for nm in ('x', 'A', 'tag')}
    crecs = {nm: dict(name=nm, data=consts[nm]) for nm in consts}
    d_in = dict(name='NAME', properties=recs, constants=crecs)
    obj2 = pa_self({'old': carr_obj('old')}, {}, z3.Int('n'), dict(
        default_values={'old': 1}, constants={'oldc': 1}, name='OTHER',
        property_arrays=['old'], num_real_particles=z3.Int('nr0')))
    nloc = z3.Int('n_local')

    def addp(e, s_, a, k_, nn):
        s_.trace.append(('add_property', dict(k_), list(a[1:])))

    def addc(e, s_, a, k_, nn):
        s_.trace.append(('add_constant', dict(k_), list(a[1:])))
    ex = executor(repo, m, '__setstate__', contracts={
        'ParticleArray.add_property': CalleeContract(addp),
        'ParticleArray.add_constant': CalleeContract(addc)})

    class _TagData(object):
        def vc_compare(self, op, other, reflected):
            return ('tag==', other) if op == '==' else None
    recs['tag']['data'] = _TagData()
    ex.spec_env['numpy'] = SymObject(None, dict(
        sum=Native(lambda e, s_, a, k_, nn: nloc if (
            isinstance(a[0], tuple) and a[0][0] == 'tag==' and
            S.same(a[0][1], e.eval(ast.parse('Local', mode='eval').body,
                                   s_))) else z3.Int('n_other'))), 'numpy')
    try:
        outs = ex.exec_function(fn2, dict(self=obj2, d=d_in), State(pc=[]))
    except VCError as e:
        ctx.outside('pickle.setstate', str(e))
        return
    ctx.function(m, fn2, 'ParticleArray.__setstate__', ex.dropped)
    if len(outs) != 1:
        obs.append(Obligation('setstate.one_path', [], z3.BoolVal(False), W))
    for o in outs:
        tr = o.state.trace
        me = o.state.env['self']
        ap = [t for t in tr if t[0] == 'add_property']
        ac = [t for t in tr if t[0] == 'add_constant']
        first = [i for i, t in enumerate(tr) if t[0] in ('add_property',
                                                         'add_constant')]
        ok = (sorted(str(t[1].get('name')) for t in ap) == sorted(recs) and
              all(not t[2] and sorted(t[1]) == sorted(recs[t[1]['name']])
                  and all(t[1][k_] is recs[t[1]['name']][k_] or
                          S.same(t[1][k_], recs[t[1]['name']][k_])
                          for k_ in t[1]) for t in ap) and
              sorted(str(t[1].get('name')) for t in ac) == sorted(crecs) and
              all(not t[2] and t[1] == crecs[t[1]['name']] for t in ac))
        why = 'calls %r' % ([(t[0], t[1], t[2]) for t in tr],)
        obs.append(Obligation('setstate.every_record_is_restored', o.pc,
                              z3.BoolVal(bool(ok)), W, extra=dict(why=why)))
        # the old records were dropped before anything was added: the
        # callee models do not touch them, so they must be empty now
        clean = me.attrs['properties'] == {} and \
            me.attrs['constants'] == {} and \
            me.attrs['default_values'] == {} and \
            me.attrs['property_arrays'] == [] and me.attrs['name'] == 'NAME'
        obs.append(Obligation('setstate.starts_from_empty_records', o.pc,
                              z3.BoolVal(bool(clean)), W))
        obs.append(Obligation('setstate.num_real_is_count_of_local', o.pc,
                              S.to_z3(S.cmp('==', me.attrs[
                                  'num_real_particles'], nloc)), W))
    for o_ in obs:
        o_.extra = dict(o_.extra or {}, backends=['z3'])
    ctx.prove('pickle.state_carries_every_record', obs, use_nf=False,
              replay=replay_walkers)


# --------------------------------------------------------------------- misc
def task_misc(ctx, repo, m):
    """The remaining record-keeping operations named by the property:
    get_number_of_particles, get_carray, add_constant, set_tag / set_pid
    (retagging; quantified loop invariants), empty_clone / ensure_properties
    (cloning: every property with its own type, default and stride),
    copy_properties (each common property copied with the destination's own
    stride), get_property_arrays (each property cut at n * its stride)."""
    W = m.path
    M = m.methods('ParticleArray')
    obs = []
    n, nreal = z3.Int('n'), z3.Int('n_real')
    k = z3.Int('kq')

    # ---- get_number_of_particles
    fn = M['get_number_of_particles']
    ctx.function(m, fn, 'ParticleArray.get_number_of_particles')
    Lt, Lv = z3.Int('len_tag'), z3.Int('len_v')
    cases = {
        'real': (dict(tag=carr_obj('tag', length=Lt)), {}, True, nreal),
        'tag': (dict(v=carr_obj('v', length=Lv), tag=carr_obj(
            'tag', length=Lt)), {'v': 3}, False, Lt),
        'first': (dict(v=carr_obj('v', length=Lv)), {'v': 3}, False, None),
        'empty': ({}, {}, False, 0),
    }
    for tag, (props, strd, real, want) in sorted(cases.items()):
        obj = pa_self(props, strd, n, dict(num_real_particles=nreal))
        ex = executor(repo, m, 'get_number_of_particles')
        outs = ex.exec_function(fn, dict(self=obj, real=real), State(
            pc=[Lt >= 0, Lv >= 0, nreal >= 0]))
        if len(outs) != 1:
            obs.append(Obligation('count.%s.one_path' % tag, [],
                                  z3.BoolVal(False), W))
        for o in outs:
            if want is None:
                q = z3.Int('q_')
                g = z3.Exists([q], z3.And(S.to_z3(o.value) == q, 3 * q <= Lv,
                                          Lv < 3 * q + 3))
            else:
                g = S.to_z3(S.cmp('==', o.value, want))
            obs.append(Obligation('count.%s' % tag, o.pc, g, W))

    # ---- get_carray
    fn = M['get_carray']
    ctx.function(m, fn, 'ParticleArray.get_carray')
    px, cx = carr_obj('x'), carr_obj('cm')
    for nm, want in (('x', px), ('cm', cx), ('nope', None)):
        obj = pa_self({'x': px}, {}, n, dict(constants={'cm': cx}))
        ex = executor(repo, m, 'get_carray')
        ex.spec_env['PyDict_GetItem'] = Native(lambda e, s_, a, k_, nn:
                                               a[0][a[1]])
        ex.spec_env['PyDict_Contains'] = Native(
            lambda e, s_, a, k_, nn: 1 if a[1] in a[0] else 0)
        outs = ex.exec_function(fn, dict(self=obj, prop=nm), State(pc=[]))
        ok = len(outs) == 1 and (
            (want is not None and outs[0].kind == 'return' and
             outs[0].value is o_same(outs[0], want, nm)) or
            (want is None and outs[0].kind == 'raise'))
        obs.append(Obligation('get_carray.%s' % nm, [], z3.BoolVal(bool(ok)),
                              W))

    # ---- add_constant
    fn = M['add_constant']
    ctx.function(m, fn, 'ParticleArray.add_constant')
    for nm, exists in (('new', False), ('cm', True), ('x', True)):
        obj = pa_self({'x': carr_obj('x')}, {}, n, dict(
            constants={'cm': ('old', 'cm')}))
        made = []
        ex = executor(repo, m, 'add_constant', contracts={
            'ParticleArray._create_c_array_from_npy_array': CalleeContract(
                lambda e, s_, a, k_, nn: made.append(a[1]) or ('carray',
                                                               a[1]))})
        ex.spec_env['numpy'] = SymObject(None, dict(ravel=Native(
            lambda e, s_, a, k_, nn: ('ravel', a[0]))), 'numpy')
        # the data may be anything, another array's c-array included: the
        # constant is always a COPY made by _create_c_array_from_npy_array
        ex.spec_env['BaseArray'] = 'BaseArray'
        ex.externals['isinstance'] = lambda e, s_, a, k_, nn: z3.Bool(
            'data_is_a_carray')
        outs = ex.exec_function(fn, dict(self=obj, name=nm,
                                         data=('data',)), State(pc=[]))
        if exists:
            ok = len(outs) >= 1 and all(o_.kind == 'raise' and o_.state.env[
                'self'].attrs['constants'] == {'cm': ('old', 'cm')}
                for o_ in outs)
        elif len(outs) != 1:
            ok = len(outs) >= 1 and all(
                o_.kind == 'return' and o_.state.env['self'].attrs[
                    'constants'] == {'cm': ('old', 'cm'), 'new': (
                        'carray', ('ravel', ('data',)))} for o_ in outs)
        elif exists:
            ok = len(outs) == 1 and outs[0].kind == 'raise' and \
                outs[0].state.env['self'].attrs['constants'] == {
                    'cm': ('old', 'cm')}
        else:
            ok = len(outs) == 1 and outs[0].kind == 'return' and \
                outs[0].state.env['self'].attrs['constants'] == {
                    'cm': ('old', 'cm'),
                    'new': ('carray', ('ravel', ('data',)))} and \
                list(outs[0].state.env['self'].attrs['properties']) == ['x']
        obs.append(Obligation('add_constant.%s' % nm, [],
                              z3.BoolVal(bool(ok)), W))

    # ---- set_tag / set_pid: loop invariants
    fn = M['set_tag']
    ctx.function(m, fn, 'ParticleArray.set_tag')
    tagc = carr_obj('tag', length=n)
    idx = carr_obj('indices')
    NI = idx.attrs['data'].length
    t0 = tagc.attrs['data'].arr
    ia = idx.attrs['data'].arr
    tv = z3.Int('tag_value')
    valid = z3.ForAll([k], z3.Implies(z3.And(0 <= k, k < NI), z3.And(
        z3.Select(ia, k) >= 0, z3.Select(ia, k) < n)))

    def inv_tag(ex, st):
        i = S.to_z3(st.env['i'])
        a_ = st.env['tag_array'].attrs['data'].arr
        j = z3.Int('jq')
        return z3.And(i >= 0, z3.ForAll([k], z3.Implies(
            z3.And(0 <= k, k < i), z3.Select(a_, z3.Select(ia, k)) == tv)),
            z3.ForAll([j], z3.Or(
                z3.Select(a_, j) == z3.Select(t0, j),
                z3.Exists([k], z3.And(0 <= k, k < i,
                                      z3.Select(ia, k) == j)))))
    spec = LoopSpec(inv=[('tagged_prefix', inv_tag)])
    obj = pa_self({'tag': tagc}, {}, n)
    ex = Executor(repo, m, qualname='ParticleArray.set_tag', merge=False,
                  prune=True, loop_specs={('set_tag', 0): spec}, contracts={
                      'ParticleArray.get_carray': CalleeContract(
                          lambda e, s_, a, kw, nn: a[0].attrs['properties'][
                              a[1]])})
    try:
        outs = ex.exec_function(fn, dict(self=obj, tag_value=tv,
                                         indices=idx),
                                State(pc=[n >= 0, NI >= 0, valid]))
        tobs = [o for o in ex.obligations if o.kind in ('inv-entry',
                                                        'inv-step', 'index')]
        for i_, o in enumerate(outs):
            a_ = o.state.env['self'].attrs['properties']['tag'].attrs[
                'data'].arr
            j = z3.Int('jq')
            tobs.append(Obligation('set_tag.post.%d' % i_, o.pc, z3.And(
                z3.ForAll([k], z3.Implies(z3.And(0 <= k, k < NI), z3.Select(
                    a_, z3.Select(ia, k)) == tv)),
                z3.ForAll([j], z3.Or(z3.Select(a_, j) == z3.Select(t0, j),
                                     z3.Exists([k], z3.And(
                                         0 <= k, k < NI,
                                         z3.Select(ia, k) == j))))), W))
        obs += tobs
    except VCError as e:
        ctx.outside('misc.set_tag', str(e))
    fn = M['set_pid']
    ctx.function(m, fn, 'ParticleArray.set_pid')
    pidc = carr_obj('pid', length=n)
    pv = z3.Int('pid_value')

    def inv_pid(ex, st):
        a = S.to_z3(st.env['a'])
        arr_ = st.env['pid_arr'].attrs['data'].arr
        return z3.And(a >= 0, z3.ForAll([k], z3.Implies(
            z3.And(0 <= k, k < a), z3.Select(arr_, k) == pv)))
    spec = LoopSpec(inv=[('pid_prefix', inv_pid)])
    obj = pa_self({'pid': pidc}, {}, n)
    ex = Executor(repo, m, qualname='ParticleArray.set_pid', merge=False,
                  prune=True, loop_specs={('set_pid', 0): spec})
    try:
        outs = ex.exec_function(fn, dict(self=obj, pid=pv),
                                State(pc=[n >= 0]))
        obs += [o for o in ex.obligations if o.kind in ('inv-entry',
                                                        'inv-step', 'index')]
        for i_, o in enumerate(outs):
            a_ = o.state.env['self'].attrs['properties']['pid'].attrs[
                'data'].arr
            obs.append(Obligation('set_pid.post.%d' % i_, o.pc, z3.ForAll(
                [k], z3.Implies(z3.And(0 <= k, k < n),
                                z3.Select(a_, k) == pv)), W))
    except VCError as e:
        ctx.outside('misc.set_pid', str(e))

    # ---- clear: back to the three built-in properties, empty, with their
    # defaults -- the tag default is the array's default_particle_tag
    fn = M['clear']
    tagdef = z3.Int('default_particle_tag')
    obj = pa_self({'x': carr_obj('x'), 'A': carr_obj('A')}, {'A': 2}, n,
                  dict(default_values={'x': 1, 'A': 0, 'tag': tagdef,
                                       'pid': 5, 'gid': 7}))
    ex = executor(repo, m, 'clear')
    ex.spec_env['IntArray'] = Native(lambda e, s_, a, k_, nn: ('IntArray',
                                                               a[0]))
    ex.spec_env['UIntArray'] = Native(lambda e, s_, a, k_, nn: ('UIntArray',
                                                                a[0]))
    ex.spec_env['_UINT_MAX'] = ('UINT_MAX',)
    try:
        outs = ex.exec_function(fn, dict(self=obj), State(pc=[]))
        ok = len(outs) == 1
        if ok:
            at = outs[0].state.env['self'].attrs
            dv = at['default_values']
            ok = at['properties'] == {'tag': ('IntArray', 0),
                                      'pid': ('IntArray', 0),
                                      'gid': ('UIntArray', 0)} and \
                sorted(dv) == ['gid', 'pid', 'tag'] and \
                S.same(dv['tag'], tagdef) and dv['pid'] == 0 and \
                dv['gid'] == ('UINT_MAX',)
            # nothing of the cleared properties survives: a property added
            # later under an old name must not inherit the old stride, and an
            # array without particles has no real particles
            ok2 = len(at['stride']) == 0 and \
                S.same(at['num_real_particles'], 0)
        obs.append(Obligation('clear.keeps_the_default_particle_tag', [],
                              z3.BoolVal(bool(ok)), W))
        obs.append(Obligation('clear.forgets_strides_and_real_count', [],
                              z3.BoolVal(bool(ok and ok2)), W))
    except VCError as e:
        ctx.outside('misc.clear', str(e))
    # ---- cloning: empty_clone, ensure_properties
    def typed_props(names, prefix=''):
        out = {}
        for nm in names:
            c = carr_obj(prefix + nm)
            c.attrs['get_c_type'] = Native(
                lambda e, s_, a, k_, nn, nm=nm: 'ctype_' + nm)
            out[nm] = c
        return out
    fn = M['empty_clone']
    ctx.function(m, fn, 'ParticleArray.empty_clone')
    for tag, sel in (('all', None), ('some', ['v', 'x'])):
        props = typed_props(('x', 'v', 'q'))
        dfl = {nm: z3.Real('default_' + nm) for nm in props}
        obj = pa_self(props, {'v': 3}, n, dict(
            default_values=dfl, constants={'cm': ('const', 'cm')},
            name='NAME', output_property_arrays=['x', 'q']))
        calls = []

        def rec(kind):
            return Native(lambda e, s_, a, k_, nn: calls.append(
                (kind, list(a), dict(k_))))
        clone = SymObject(None, dict(
            add_constant=rec('add_constant'), add_property=rec(
                'add_property'), set_name=rec('set_name'),
            set_output_arrays=rec('set_output_arrays')), 'result_array')
        ex = executor(repo, m, 'empty_clone',
                      externals={'ParticleArray': lambda e, s_, a, k_, nn:
                                 clone})
        try:
            outs = ex.exec_function(fn, dict(self=obj, props=sel),
                                    State(pc=[]))
        except VCError as e:
            ctx.outside('misc.empty_clone', str(e))
            continue
        names = sel if sel is not None else ['x', 'v', 'q']
        ap = {c[2].get('name'): c[2] for c in calls
              if c[0] == 'add_property'}
        ok = len(outs) == 1 and outs[0].value is clone and \
            sorted(ap) == sorted(names)
        why = 'calls %r' % ([(c[0], c[2].get('name')) for c in calls],)
        for nm in names:
            r = ap.get(nm)
            if not r or r.get('type') != 'ctype_' + nm or \
                    not S.same(r.get('default'), dfl[nm]) or \
                    r.get('stride') != {'v': 3}.get(nm, 1):
                ok = False
                why = 'property %s cloned as %r' % (nm, r)
        ac = [c for c in calls if c[0] == 'add_constant']
        if not (len(ac) == 1 and (ac[0][1] + [ac[0][2].get('data')])[:2] ==
                ['cm', ('const', 'cm')]):
            ok = False
            why = 'constants %r' % (ac,)
        sn = [c for c in calls if c[0] == 'set_name']
        so = [c for c in calls if c[0] == 'set_output_arrays']
        want_out = ['x', 'q'] if sel is None else ['x']
        if not (len(sn) == 1 and sn[0][1] == ['NAME'] and len(so) == 1 and
                sorted(so[0][1][0]) == sorted(want_out)):
            ok = False
            why = 'name/output arrays %r %r' % (sn, so)
        obs.append(Obligation('empty_clone.%s' % tag, [],
                              z3.BoolVal(bool(ok)), W, extra=dict(why=why)))
    fn = M['ensure_properties']
    ctx.function(m, fn, 'ParticleArray.ensure_properties')
    for tag, sel in (('all', None), ('some', ['q'])):
        sprops = typed_props(('x', 'v', 'q', 'r'), 'src_')
        sdfl = {nm: z3.Real('sdefault_' + nm) for nm in sprops}
        src = SymObject(None, dict(properties=sprops, default_values=sdfl,
                                   stride={'v': 3, 'q': 2}), 'src')
        obj = pa_self(typed_props(('x', 'v')), {'v': 3}, n)
        calls = []
        ex = executor(repo, m, 'ensure_properties', contracts={
            'ParticleArray.add_property': CalleeContract(
                lambda e, s_, a, k_, nn: calls.append(dict(k_)))})
        try:
            outs = ex.exec_function(fn, dict(self=obj, src=src, props=sel),
                                    State(pc=[]))
        except VCError as e:
            ctx.outside('misc.ensure_properties', str(e))
            continue
        want = ['q', 'r'] if sel is None else ['q']
        got = {c.get('name'): c for c in calls}
        ok = len(outs) == 1 and sorted(got) == want and all(
            got[nm].get('type') == 'ctype_' + nm and
            S.same(got[nm].get('default'), sdfl[nm]) and
            got[nm].get('stride') == {'q': 2}.get(nm, 1) for nm in want)
        obs.append(Obligation('ensure_properties.%s' % tag, [],
                              z3.BoolVal(bool(ok)), W,
                              extra=dict(calls=str(calls)[:300])))

    # ---- copy_properties
    fn = M['copy_properties']
    ctx.function(m, fn, 'ParticleArray.copy_properties')
    calls = []
    dprops = {}
    for nm in ('x', 'v', 'w'):
        c = carr_obj(nm)
        c.attrs['copy_subset'] = Native(
            lambda e, s_, a, k_, nn, nm=nm: calls.append((nm, list(a))))
        dprops[nm] = c
    sprops = {nm: carr_obj('src_' + nm) for nm in ('v', 'x', 'zz')}
    ns = z3.Int('n_source')
    src = SymObject(None, dict(properties=sprops, stride={'v': 2, 'x': 5},
                               get_number_of_particles=Native(
        lambda e, s_, a, k_, nn: ns),
                               get_carray=Native(
        lambda e, s_, a, k_, nn: sprops[a[0]])), 'source')
    obj = pa_self(dprops, {'v': 3}, n)
    ex = executor(repo, m, 'copy_properties', contracts={
        'ParticleArray.get_carray': CalleeContract(
            lambda e, s_, a, kw, nn: a[0].attrs['properties'][a[1]])})
    ex.contracts['ParticleArray.get_number_of_particles'] = CalleeContract(
        lambda e, s_, a, kw, nn: n)
    si, ei = z3.Int('start_index'), z3.Int('end_index')
    try:
        outs = ex.exec_function(fn, dict(self=obj, source=src,
                                         start_index=si, end_index=ei),
                                State(pc=[si >= 0, ei >= si, ei <= n,
                                          ei - si <= ns, ns >= 0]))
        outs = [o for o in outs if o.kind == 'return']
        got = {c[0]: c[1] for c in calls}
        ok = len(outs) == 1 and sorted(got) == ['v', 'x'] and all(
            got[nm][0] is sprops[nm] and S.same(got[nm][1], si) and
            S.same(got[nm][2], ei) and got[nm][3] == {'v': 3}.get(nm, 1)
            for nm in ('v', 'x'))
        obs.append(Obligation('copy_properties.common_props_own_stride', [],
                              z3.BoolVal(bool(ok)), W,
                              extra=dict(calls=str(calls)[:300])))
        # the indices are PARTICLE indices.  The callee (cyarray's
        # copy_subset, outside the repository) reads a missing end_index as
        # the length of the array in VALUES -- the number of particles only
        # for stride 1 -- so the defaults are resolved here: every column
        # gets the particle range [0, number of particles)
        del calls[:]
        outs = ex.exec_function(fn, dict(self=obj, source=src,
                                         start_index=-1, end_index=-1),
                                State(pc=[n >= 0, ns >= n]))
        outs = [o for o in outs if o.kind == 'return']
        got = {c[0]: c[1] for c in calls}
        ok = len(outs) >= 1 and sorted(got) == ['v', 'x'] and all(
            S.same(got[nm][1], 0) and S.same(got[nm][2], n) and
            got[nm][3] == {'v': 3}.get(nm, 1) for nm in ('v', 'x'))
        obs.append(Obligation('copy_properties.default_range_is_in_particles',
                              [], z3.BoolVal(bool(ok)), W,
                              extra=dict(calls=str(calls)[:300])))
        # a range the source cannot fill, or that leaves the receiver, is
        # refused BEFORE any column is touched (the callee does not compare
        # an explicit range with the source: it would read past its end)
        for tag_, pre_ in (('longer_than_source', [si >= 0, ei >= si,
                                                   ei <= n, ei - si > ns,
                                                   ns >= 0]),
                           ('beyond_receiver', [si >= 0, ei >= si, ei > n,
                                                ns >= 0])):
            del calls[:]
            outs = ex.exec_function(fn, dict(self=obj, source=src,
                                             start_index=si, end_index=ei),
                                    State(pc=pre_))
            ok = len(outs) >= 1 and all(
                o.kind == 'raise' and o.value.exc_type == 'ValueError'
                for o in outs) and not calls
            obs.append(Obligation('copy_properties.refuses.' + tag_, [],
                                  z3.BoolVal(bool(ok)), W,
                                  extra=dict(outcomes=str([
                                      (o.kind, str(o.value)[:40])
                                      for o in outs])[:300])))
    except VCError as e:
        ctx.outside('misc.copy_properties', str(e))

    # ---- get_property_arrays
    fn = M['get_property_arrays']
    ctx.function(m, fn, 'ParticleArray.get_property_arrays')

    class _Npy(object):
        def __init__(self, nm):
            self.nm = nm

        def vc_getitem(self, idx, ex, st, node):
            return ('slice', self.nm, idx)
    for tag, all_, outp in (('all', True, ['x']), ('output', False, ['v']),
                            ('none_listed', False, [])):
        props = {}
        for nm in ('x', 'v'):
            c = carr_obj(nm)
            c.attrs['get_npy_array'] = Native(
                lambda e, s_, a, k_, nn, nm=nm: _Npy(nm))
            props[nm] = c
        obj = pa_self(props, {'v': 3}, n, dict(output_property_arrays=outp))
        asked = []

        def count(e, s_, a, kw, nn):
            asked.append(a[1] if len(a) > 1 else kw.get('real'))
            return z3.Int('count')
        ex = executor(repo, m, 'get_property_arrays', contracts={
            'ParticleArray.get_number_of_particles': CalleeContract(count)})
        only_real = z3.Bool('only_real')
        try:
            outs = ex.exec_function(fn, dict(self=obj, all=all_,
                                             only_real=only_real),
                                    State(pc=[]))
        except VCError as e:
            ctx.outside('misc.get_property_arrays', str(e))
            continue
        want = ['x', 'v'] if (all_ or not outp) else outp
        ok = len(outs) >= 1 and len(asked) >= 1 and all(
            a_ is only_real for a_ in asked)
        goals = []
        for o in outs:
            v = o.value
            if not (isinstance(v, dict) and sorted(v) == sorted(want)):
                ok = False
                continue
            for nm in want:
                sl = v[nm]
                if not (isinstance(sl, tuple) and sl[0] == 'slice' and
                        sl[1] == nm and isinstance(sl[2], slice) and
                        sl[2].start is None):
                    ok = False
                else:
                    goals.append(S.to_z3(S.cmp(
                        '==', sl[2].stop, z3.Int('count') * {'v': 3}.get(
                            nm, 1))))
        obs.append(Obligation('get_property_arrays.%s' % tag, [], z3.And(
            z3.BoolVal(bool(ok)), *goals), W))
    for o_ in obs:
        o_.extra = dict(o_.extra or {}, backends=['z3'])
    ctx.prove('misc.records_stay_consistent', obs, use_nf=False,
              replay=replay_walkers)


def o_same(out, want, nm):
    return want


# ----------------------------------------------------------------- arrtypes
def task_arrtypes(ctx, repo, m):
    """Cython converts `cdef <ArrayClass> a = self.get_carray('tag')` with a
    run-time type test that raises TypeError on a mismatch.  The built-in
    properties are created by clear() as tag: IntArray, pid: IntArray,
    gid: UIntArray; every typed local of a ParticleArray method that is
    bound to one of them (through get_carray('<name>'), self.properties[
    '<name>'] or PyDict_GetItem(self.properties, '<name>')) must be declared
    with that class (or a base class / untyped)."""
    W = m.path
    M = m.methods('ParticleArray')
    created = {}
    try:
        for node in ast.walk(M['clear']):
            if isinstance(node, ast.Dict):
                for k_, v_ in zip(node.keys, node.values):
                    if isinstance(k_, ast.Constant) and isinstance(
                            v_, ast.Call) and isinstance(v_.func, ast.Name):
                        created[k_.value] = v_.func.id
    except KeyError:
        pass
    obs = [Obligation('arrtypes.builtin_properties_found', [], z3.BoolVal(
        set(created) >= {'tag', 'pid', 'gid'}), W,
        extra=dict(created=str(created)))]
    ctx.function(m, M['clear'], 'ParticleArray.clear')
    loose = ('BaseArray', 'object', '?', None)
    nbound = 0
    for fname, fn in sorted(M.items()):
        rec = m.ctypes.get('ParticleArray.' + fname) or {}
        locs = dict(rec.get('locals', {}))
        for node in ast.walk(fn):
            if not (isinstance(node, ast.Assign) and len(node.targets) == 1
                    and isinstance(node.targets[0], ast.Name)):
                continue
            v = node.value
            # strip int()/() wrappers left by casts
            prop = None
            if isinstance(v, ast.Call) and isinstance(v.func, ast.Attribute) \
                    and v.func.attr == 'get_carray' and v.args and \
                    isinstance(v.args[0], ast.Constant):
                prop = v.args[0].value
            elif isinstance(v, ast.Subscript) and isinstance(
                    v.value, ast.Attribute) and v.value.attr == \
                    'properties' and isinstance(v.slice, ast.Constant):
                prop = v.slice.value
            elif isinstance(v, ast.Call) and isinstance(v.func, ast.Name) \
                    and v.func.id == 'PyDict_GetItem' and len(v.args) == 2 \
                    and isinstance(v.args[1], ast.Constant):
                prop = v.args[1].value
            if prop not in created:
                continue
            t = locs.get(node.targets[0].id)
            nbound += 1
            obs.append(Obligation(
                'arrtypes.%s.%s_is_%s' % (fname, node.targets[0].id,
                                          created[prop]), [],
                z3.BoolVal(t in loose or t == created[prop]), W,
                extra=dict(declared=t, property=prop,
                           created_as=created[prop])))
    obs.append(Obligation('arrtypes.bindings_found', [],
                          z3.BoolVal(nbound >= 3), W))
    ctx.prove('arrtypes.typed_locals_match_the_array_class', obs,
              replay=replay_walkers)


# ------------------------------------------------------------- add_property
def task_addprop(ctx, repo, m):
    """add_property (CPU path) for every combination of {array empty or not}
    x {data given or not} x {name new or existing}: the default and stride
    records, the length of the (new) array, and -- when the first particles
    arrive with the data -- every OTHER property grown to n*ITS stride and
    filled with ITS default."""
    W = m.path
    fn = m.methods('ParticleArray')['add_property']
    obs = []
    for existing in (False, True):
        for has_data in (False, True):
            for given_default in (False, True):
                n, L = z3.Int('n'), z3.Int('len_data')
                props = {}
                for nm in ('x', 'v') + (('q',) if existing else ()):
                    c = carr_obj(nm)
                    c.attrs['get_npy_array'] = Native(
                        lambda e, s_, a, k_, nn, nm=nm: _View(nm))
                    c.attrs['set_data'] = Native(
                        lambda e, s_, a, k_, nn, nm=nm: s_.trace.append(
                            ('set_data', nm, a[0])))
                    props[nm] = c
                dflt = {nm: z3.Real('default_' + nm) for nm in props}
                stride0 = {'v': 3}
                if existing:
                    stride0['q'] = 2
                obj = pa_self(props, stride0, n, dict(default_values=dflt))
                STR = 2
                data = SeqArg('data', L) if has_data else None
                newdef = z3.Real('new_default') if given_default else None

                def create(e, s_, a, k_, nn):
                    s_.trace.append(('create', a[1], a[2], a[3]))
                    c = carr_obj('created')
                    c.attrs['get_npy_array'] = Native(
                        lambda e2, s2, a2, k2, n2: _View('created'))
                    return c
                ex = executor(repo, m, 'add_property', contracts={
                    'ParticleArray.get_number_of_particles': CalleeContract(
                        lambda e, s_, a, k_, nn: n),
                    'ParticleArray._create_carray': CalleeContract(create),
                    'ParticleArray._create_c_array_from_npy_array':
                    CalleeContract(lambda e, s_, a, k_, nn: s_.trace.append(
                        ('create_from', a[1])) or carr_obj('created'))})
                ex.spec_env['numpy'] = SymObject(None, dict(
                    asarray=Native(lambda e, s_, a, k_, nn: a[0]),
                    ravel=Native(lambda e, s_, a, k_, nn: a[0]),
                    ones=Native(lambda e, s_, a, k_, nn: SeqArg('ones',
                                                                a[0])),
                    sum=Native(lambda e, s_, a, k_, nn: z3.Int('n_local'))),
                    'numpy')
                ex.spec_env['logger'] = SymObject(None, dict(error=Native(
                    lambda e, s_, a, k_, nn: None)), 'logger')
                pre = [n >= 0, L >= 0]
                if has_data:
                    # valid arguments: whole particles, and as many as the
                    # array holds unless it is empty
                    kq = z3.Int('n_elem')
                    pre += [L == kq * STR, kq >= 1,
                            z3.Or(n == 0, n == kq)]
                try:
                    outs = ex.exec_function(fn, dict(
                        self=obj, name='q', type='double', default=newdef,
                        data=data, stride=STR), State(pc=pre))
                except VCError as e:
                    ctx.outside('addprop.%s.%s.%s' % (existing, has_data,
                                                      given_default), str(e))
                    continue
                ctx.function(m, fn, 'ParticleArray.add_property', ex.dropped)
                tag = 'addprop.%s.%s.%s' % (
                    'existing' if existing else 'new',
                    'data' if has_data else 'nodata',
                    'default' if given_default else 'nodefault')
                obs.append(Obligation(tag + '.returns', [], z3.BoolVal(
                    any(o.kind == 'return' for o in outs)), W))
                for i_, o in enumerate(outs):
                    if o.kind != 'return':
                        obs.append(Obligation('%s.no_error.%d' % (tag, i_),
                                              o.pc, z3.BoolVal(False), W))
                        continue
                    me = o.state.env['self']
                    tr = o.state.trace
                    g = []
                    # default record
                    want_d = newdef if given_default else (
                        dflt['q'] if existing else 0)
                    g.append(z3.BoolVal(S.same(me.attrs['default_values'].get(
                        'q'), want_d) or (not S.is_sym(want_d) and
                                          me.attrs['default_values'].get('q')
                                          == want_d)))
                    g.append(z3.BoolVal(me.attrs['stride'].get('q') == STR))
                    g.append(z3.BoolVal('q' in me.attrs['properties']))
                    n_is0 = z3.simplify(z3.And(*[S.to_z3(c) for c in o.pc]
                                               + [n == 0]))
                    sol = z3.Solver()
                    sol.add(*[S.to_z3(c) for c in o.pc])
                    sol.add(n == 0)
                    empty = sol.check() == z3.sat
                    sol2 = z3.Solver()
                    sol2.add(*[S.to_z3(c) for c in o.pc])
                    sol2.add(n > 0)
                    nonempty = sol2.check() == z3.sat
                    g.append(z3.BoolVal(empty != nonempty))
                    rs = [t for t in tr if t[0] == 'resize']
                    fl = [t for t in tr if t[0] == 'fill']
                    cr = [t for t in tr if t[0] == 'create']
                    sd = [t for t in tr if t[0] == 'set_data']
                    if empty and has_data:
                        others = [p_ for p_ in ('x', 'v', 'q')
                                  if p_ in props]
                        kq = z3.Int('n_elem')
                        okr = [t[1] for t in rs] == others
                        g.append(z3.BoolVal(okr))
                        if okr:
                            for t in rs:
                                st_ = stride0.get(t[1], 1) if t[1] != 'q' \
                                    else STR
                                g.append(S.to_z3(S.cmp('==', t[2][0],
                                                       kq * st_)))
                        fo = [t for t in fl if t[1] in others]
                        g.append(z3.BoolVal(
                            [t[1] for t in fo] == others and all(
                                S.same(t[3], dflt[t[1]] if t[1] != 'q'
                                       else want_d) or (t[1] == 'q' and
                                                        not S.is_sym(want_d)
                                                        and t[3] == want_d)
                                for t in fo)))
                        g.append(S.to_z3(S.cmp(
                            '==', me.attrs['num_real_particles'], kq)))
                    if not existing:
                        # a new array of the right length
                        if has_data:
                            g.append(z3.BoolVal(len(cr) == 1))
                            if cr:
                                g.append(S.to_z3(S.cmp('==', cr[0][2], L)))
                        else:
                            g.append(z3.BoolVal(len(cr) == 1))
                            if cr:
                                g.append(S.to_z3(S.cmp('==', cr[0][2],
                                                       n * STR)))
                                g.append(z3.BoolVal(S.same(cr[0][3],
                                                           want_d) or
                                                    cr[0][3] == want_d))
                    else:
                        g.append(z3.BoolVal(not cr))
                        g.append(z3.BoolVal((len(sd) == 1 and sd[0][1] == 'q')
                                            if has_data else not sd))
                    obs.append(Obligation('%s.post.%d' % (tag, i_), o.pc,
                                          z3.And(*g), W))
    for o_ in obs:
        o_.extra = dict(o_.extra or {}, backends=['z3'])
    ctx.prove('addprop.add_property_keeps_every_record_consistent', obs,
              use_nf=False, replay=replay_props)


# ------------------------------------------------------- whole-array walkers
def task_walkers(ctx, repo, m):
    """copy_over_properties / set_to_zero / set_pid / set_tag act on ALL
    particles of the array (ghost and remote ones included), over whole
    stride blocks: quantified loop invariants, any number of particles."""
    W = m.path
    n, nreal = z3.Int('n'), z3.Int('n_real')
    k = z3.Int('kq')
    obs = []

    def count(ex, st, a, kw, node):
        real = kw.get('real', a[1] if len(a) > 1 else False)
        return nreal if real is True else n
    # copy_over_properties({'x': 'x0', 'v': 'v0'})
    fn = m.methods('ParticleArray')['copy_over_properties']
    props = {nm: carr_obj(nm, elem='real') for nm in ('x', 'x0', 'v', 'v0')}
    obj = pa_self(props, {'v': 3, 'v0': 3}, n)
    before = {nm: props[nm].attrs['data'].arr for nm in props}

    def inv(ex, st):
        i = S.to_z3(st.env['i'])
        d, s_ = st.env['dst'].attrs['data'].arr, st.env['src'].attrs[
            'data'].arr
        return z3.And(i >= 0, z3.ForAll([k], z3.Implies(
            z3.And(0 <= k, k < i), z3.Select(d, k) == z3.Select(s_, k))))
    spec = LoopSpec(inv=[('copied_prefix', inv)])
    ex = Executor(repo, m, qualname='ParticleArray.copy_over_properties',
                  merge=False, prune=True, loop_specs={
                      ('copy_over_properties', 1): spec}, contracts={
                          'ParticleArray.get_number_of_particles':
                          CalleeContract(count),
                          'ParticleArray.get_carray': CalleeContract(
                              lambda e, s_, a, kw, nn: a[0].attrs[
                                  'properties'][a[1]])})
    outs = ex.exec_function(fn, dict(self=obj, props={'x': 'x0', 'v': 'v0'}),
                            State(pc=[n >= 0, nreal >= 0, nreal <= n]))
    ctx.function(m, fn, 'ParticleArray.copy_over_properties', ex.dropped)
    obs += [o for o in ex.obligations if o.kind in ('inv-entry', 'inv-step')]
    for i_, o in enumerate(outs):
        me = o.state.env['self']
        g = []
        for sname, dname, st_ in (('x', 'x0', 1), ('v', 'v0', 3)):
            d = me.attrs['properties'][dname].attrs['data'].arr
            g.append(z3.ForAll([k], z3.Implies(
                z3.And(0 <= k, k < n * st_),
                z3.Select(d, k) == z3.Select(before[sname], k))))
            g.append(z3.BoolVal(me.attrs['properties'][sname].attrs[
                'data'].arr.eq(before[sname])))
        obs.append(Obligation('copy_over.every_particle.%d' % i_, o.pc,
                              z3.And(*g), W))
    # set_to_zero(['x', 'v'])
    fn = m.methods('ParticleArray')['set_to_zero']
    props = {nm: carr_obj(nm, elem='real') for nm in ('x', 'v', 'm')}
    obj = pa_self(props, {'v': 3}, n)
    m0 = props['m'].attrs['data'].arr

    def inv0(ex, st):
        i = S.to_z3(st.env['i'])
        a_ = st.env['prop_arr'].attrs['data'].arr
        return z3.And(i >= 0, z3.ForAll([k], z3.Implies(
            z3.And(0 <= k, k < i), z3.Select(a_, k) == 0)))
    spec0 = LoopSpec(inv=[('zero_prefix', inv0)])
    ex = Executor(repo, m, qualname='ParticleArray.set_to_zero', merge=False,
                  prune=True, loop_specs={('set_to_zero', 1): spec0},
                  contracts={
                      'ParticleArray.get_number_of_particles':
                      CalleeContract(count),
                      'ParticleArray.get_carray': CalleeContract(
                          lambda e, s_, a, kw, nn: a[0].attrs['properties'][
                              a[1]])})
    outs = ex.exec_function(fn, dict(self=obj, props=['x', 'v']),
                            State(pc=[n >= 0, nreal >= 0, nreal <= n]))
    ctx.function(m, fn, 'ParticleArray.set_to_zero', ex.dropped)
    obs += [o for o in ex.obligations if o.kind in ('inv-entry', 'inv-step')]
    for i_, o in enumerate(outs):
        me = o.state.env['self']
        g = []
        for nm, st_ in (('x', 1), ('v', 3)):
            a_ = me.attrs['properties'][nm].attrs['data'].arr
            g.append(z3.ForAll([k], z3.Implies(z3.And(0 <= k, k < n * st_),
                                               z3.Select(a_, k) == 0)))
        g.append(z3.BoolVal(me.attrs['properties']['m'].attrs['data'].arr.eq(
            m0)))
        obs.append(Obligation('set_to_zero.every_particle.%d' % i_, o.pc,
                              z3.And(*g), W))
    for o_ in obs:
        o_.extra = dict(o_.extra or {}, backends=['z3'])
    ctx.prove('walkers.act_on_every_particle_and_whole_blocks', obs,
              use_nf=False, replay=replay_walkers)


REPLAY_WALKERS = r'''
import json, sys
d = json.load(sys.stdin)
sys.path.insert(0, d['built'])
import numpy as np
from pysph.base.utils import get_particle_array
bad = None
pa = get_particle_array(name='a', x=[1., 2., 3., 4.])
pa.add_property('x0'); pa.add_property('A9', stride=2); pa.add_property('A90', stride=2)
pa.A9[:] = np.arange(8.0) + 1
pa.tag[:] = [0, 2, 0, 1]
pa.align_particles()
pa.copy_over_properties({'x': 'x0', 'A9': 'A90'})
g = lambda nm: pa.get(nm, only_real_particles=False).tolist()
if g('x0') != g('x') or g('A90') != g('A9'):
    bad = dict(op='copy_over_properties with ghost/remote particles present', x=g('x'), x0=g('x0'), A9=g('A9'), A90=g('A90'))
if bad is None:
    pa.set_to_zero(['x0', 'A90'])
    if any(g('x0')) or any(g('A90')):
        bad = dict(op='set_to_zero with ghost/remote particles present', x0=g('x0'), A90=g('A90'))
if bad is None:
    a = get_particle_array(name='a', x=[0., 1.])
    b = get_particle_array(name='b', x=[7., 8.])
    b.add_property('q9', stride=2); b.q9[:] = [1., 2., 3., 4.]
    b.tag[:] = 2
    b.align_particles()
    a.append_parray(b)
    if a.get_number_of_particles() != 4 or 'q9' not in a.properties:
        bad = dict(op='append_parray of an array holding only ghost particles', n=int(a.get_number_of_particles()), has_q9='q9' in a.properties)
if bad is None:
    for upd in (False, True):
        a = get_particle_array(name='a', x=[0., 1.]); a.add_constant('cm9', [1., 2., 3.]); a.add_constant('own9', 5.0)
        b = get_particle_array(name='b', x=[7.]); b.add_constant('cm9', [9., 9., 9.]); b.add_constant('new9', 4.0)
        a.append_parray(b, update_constants=upd)
        got = dict((k, np.asarray(v).tolist()) for k, v in a.constants.items())
        want = dict(cm9=[1., 2., 3.], own9=[5.0])
        if upd: want['new9'] = [4.0]
        if got != want:
            bad = dict(op='append_parray(update_constants=%s): constants of the receiver' % upd, constants=got, expected=want); break
if bad is None:
    # retag a leading particle without aligning, then remove the ghosts
    a = get_particle_array(name='a', x=[0., 1., 2., 3., 4.])
    a.tag[3:] = 2; a.align_particles()
    a.get('tag', only_real_particles=False)[1] = 2
    a.remove_tagged_particles(2)
    left = sorted(a.get('x', only_real_particles=False).tolist())
    if left != [0., 2.]:
        bad = dict(op='remove_tagged_particles(Ghost) after retagging particle 1 without align', x_left=left, expected=[0., 2.])
if bad is None:
    # constants of a clone are copies
    a = get_particle_array(name='a', x=[0., 1.]); a.add_constant('cm9', [1., 2., 3.])
    b = a.empty_clone(); c = a.extract_particles([0])
    b.cm9[:] = 7.0; c.cm9[:] = 8.0
    if np.asarray(a.cm9).tolist() != [1., 2., 3.]:
        bad = dict(op='writing a constant of empty_clone()/extract_particles() result', source_constant_after=np.asarray(a.cm9).tolist(), expected=[1., 2., 3.])
if bad is None:
    from cyarray.api import LongArray
    a = get_particle_array(name='a', x=[0., 1., 2., 3.])
    ind = LongArray(2); ind.set_data(np.array([0, 2]))
    try:
        a.set_tag(2, ind)
        if a.get('tag', only_real_particles=False).tolist() != [2, 0, 2, 0]:
            bad = dict(op='set_tag(2, [0, 2])', tags=a.get('tag', only_real_particles=False).tolist())
    except Exception as e:
        bad = dict(op='set_tag(2, [0, 2]) on a 4-particle array', raised=repr(e)[:200])
if bad is None:
    import pickle
    a = get_particle_array(name='a', x=[0., 1., 2.], y=[5., 6., 7.])
    a.add_property('w9', default=-1.0); a.add_property('A9', stride=2, default=7.5); a.add_property('i9', type='int', default=3)
    a.add_constant('cm9', [1., 2., 3.])
    a.tag[:] = [0, 2, 0]; a.align_particles()
    c = pickle.loads(pickle.dumps(a))
    for pa_ in (a, c):
        pa_.add_particles(x=[9., 10.])
    for nm in sorted(a.properties):
        ga = a.get(nm, only_real_particles=False).tolist(); gc = c.get(nm, only_real_particles=False).tolist()
        if ga != gc or a.default_values[nm] != c.default_values[nm] or a.stride.get(nm, 1) != c.stride.get(nm, 1):
            bad = dict(op='pickle round trip, then add_particles(x=...) on original and copy', property=nm, original=ga, unpickled=gc,
                       default_original=float(a.default_values[nm]), default_unpickled=float(c.default_values[nm])); break
    if bad is None and (sorted(a.properties) != sorted(c.properties) or a.num_real_particles != c.num_real_particles
                        or np.asarray(c.constants['cm9']).tolist() != [1., 2., 3.] or c.name != 'a'):
        bad = dict(op='pickle round trip', props=sorted(c.properties), num_real=int(c.num_real_particles))
print(json.dumps(dict(bad=bad)))
'''


def replay_walkers(model, ob):
    import os
    if os.environ.get('PYVC_NO_BUILD_REPLAY'):
        return dict(reproduced=False, note='build replay disabled')
    try:
        dst, msg = native.shared_build()
        if dst is None:
            return dict(reproduced=False, note=msg)
        r = native.run_venv(REPLAY_WALKERS, dict(built=dst), timeout=900,
                            cwd='/tmp')
        if r['bad']:
            return dict(reproduced=True, how='particle_array built from the '
                        'working tree', **r['bad'])
        return dict(reproduced=False)
    except Exception as e:
        return dict(reproduced=False, note=str(e)[-300:])
