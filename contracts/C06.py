"""C06 (partial) -- a particle array stays coherent under any operation sequence.

pysph/base/particle_array.pyx, extracted mechanically (pyvc/cy2py.py).
Functions under contract: align_particles, remove_particles,
remove_tagged_particles, extend, extract_particles.

Representation invariant  WF(pa): every property p has len(p) = n*stride(p).
The cyarray operations (resize, remove, c_align_array, copy_values) are
external: their contracts are ASSUMED (read from carray.pyx: c_align_array is
a gather new[i] = old[idx[i]] per stride block, remove(sorted, 1, stride)
removes the listed blocks and needs distinct ascending indices, copy_values
copies blocks idx[k] to start + k*stride).  Given those, WF and "each
particle's values stay together" follow from what is proved here about how
particle_array.pyx USES them:

align.index   (unbounded, quantified loop invariant over z3 arrays) after the
              index loop, index_array[0..n) is injective with values in
              [0, n) -- hence a permutation of 0..n-1 (pigeonhole) -- the
              first num_real_particles entries point to Local particles, the
              rest to non-Local ones, num_real_particles = #Local
align.apply   the SAME index array and each property's OWN stride go to
              c_align_array of every property, iff something moved
remove.same   remove_particles sorts the index list whatever its input type
              and passes the same sorted array, the sorted flag and each
              property's own stride to every property's remove(); aligns
              afterwards iff something was removed and align is set
tagged        remove_tagged_particles collects exactly the indices i with
              tag[i] == tag, ascending, and hands them to remove_particles
extend        extend(k > 0): every property is resized to (n + k)*stride and
              its cells from n*stride on are set to the property's default;
              k <= 0 changes nothing
extract       extract_particles: destination extended by len(indices), every
              listed property copied with copy_values(indices, dst, stride,
              stride*start), start = destination size before; empty index
              list returns the destination untouched; align on request
NOT verified (outside reach): add_property's dtype/shape branches, pickling,
get/set, append_parray, add_particles (numpy glue).
"""
import z3

from pyvc import sym as S
from pyvc import native
from pyvc.repo import Repo
from pyvc.symexec import (Executor, State, Obligation, Native, LoopSpec,
                          SymArray, CalleeContract)
from pyvc.sym import SymObject, VCError

PYX = 'pysph/base/particle_array.pyx'
LOCAL = 0
ASSUMPTIONS = [
    'cyarray contracts (external package): c_align_array(idx, stride) gathers '
    'whole stride blocks; remove(sorted, 1, stride) removes the listed blocks '
    '(distinct indices); resize(n) sets the length; copy_values(idx, dst, '
    'stride, start) copies blocks; LongArray(n) has n cells',
    'CPU backend (self.gpu is None); ParticleTAG Local == 0 '
    '(particle_array.pxd enum)',
    'an injective map from {0..n-1} into {0..n-1} is a permutation '
    '(pigeonhole; mathematics, not machine-checked)',
]
TRUSTED = ['z3 quantifier instantiation']


def tasks(tier):
    return ['align', 'remove', 'tagged', 'extend', 'extract', 'canary']


def mod(repo):
    return repo.cython_module(PYX)


class Carr(object):
    """stand-in for a cyarray array: records the calls made on it"""

    def __init__(self, name, length=None):
        self.name = name
        self.data = SymArray(name + '_data', elem='int')
        self.length = length if length is not None else self.data.length


def carr_obj(name, trace_tag=None, length=None, elem='int'):
    c = SymObject(None, {}, name)
    data = SymArray(name + '_data', elem=elem, length=length)
    c.attrs['data'] = data
    c.attrs['length'] = data.length

    def rec(kind):
        return Native(lambda ex, st, a, k, n: st.trace.append(
            (kind, name, a, k)))
    for kind in ('c_align_array', 'remove', 'resize', 'copy_values'):
        c.attrs[kind] = rec(kind)
    return c


def pa_self(props, strides, n, extra=None):
    """props: dict name -> carr object"""
    obj = SymObject('ParticleArray', dict(
        gpu=None, backend='cython', properties=dict(props),
        stride=dict(strides), num_real_particles=z3.Int('nreal0')), 'self')
    obj.attrs.update(extra or {})
    obj.module = mod(Repo())
    return obj


def executor(repo, m, fn, spec=None, contracts=None, externals=None,
             merge=False):
    ex = Executor(repo, m, qualname='ParticleArray.' + fn, merge=merge,
                  prune=True, contracts=contracts or {},
                  externals=externals or {},
                  loop_specs={(fn, 0): spec} if spec else {})
    ex.spec_env['Local'] = LOCAL
    return ex


def run_task(task, ctx):
    repo = Repo()
    m = mod(repo)
    if task == 'align':
        return task_align(ctx, repo, m)
    if task == 'remove':
        return task_remove(ctx, repo, m)
    if task == 'tagged':
        return task_tagged(ctx, repo, m)
    if task == 'extend':
        return task_extend(ctx, repo, m)
    if task == 'extract':
        return task_extract(ctx, repo, m)
    if task == 'canary':
        a = z3.Array('ca', z3.IntSort(), z3.IntSort())
        i = z3.Int('ci')
        ctx.canary('canary.must_fail', Obligation(
            'c', [], z3.Select(a, i) == i))
        ctx.results.append(dict(name='canary.pipeline', verdict='proved',
                                queries=0, backends={}, seconds=0,
                                failing=[], replay=None, info=''))
        return
    raise ValueError(task)


# ----------------------------------------------------------------- replays
REPLAY = r'''
import json, sys
d = json.load(sys.stdin)
sys.path.insert(0, d['built'])
import numpy as np
from pysph.base.utils import get_particle_array
from cyarray.api import LongArray
out = None
def model(pa):
    n = pa.get_number_of_particles()
    return [tuple(float(pa.get(p, only_real_particles=False)[i]) for p in ('pid2', 'x', 'tag')) for i in range(n)]
import itertools
for tags in itertools.product((0, 1, 2), repeat=d['n']):
    pa = get_particle_array(name='a', x=np.arange(len(tags), dtype=float), pid2=np.arange(len(tags), dtype=float) * 10)
    pa.tag[:] = tags
    before = sorted(model(pa))
    pa.align_particles()
    after = model(pa)
    nl = sum(1 for t in tags if t == 0)
    ok = sorted(after) == before and pa.num_real_particles == nl and all(r[2] == 0 for r in after[:nl]) and all(r[2] != 0 for r in after[nl:])
    if not ok:
        out = dict(op='align_particles', tags=list(tags), rows_after=after, num_real=pa.num_real_particles); break
if out is None:
    for idx in ([3, 0], [2, 1, 0], [0, 3, 1]):
        for kind in ('list', 'LongArray'):
            pa = get_particle_array(name='a', x=np.arange(5.0), pid2=np.arange(5.0) * 10)
            arg = idx
            if kind == 'LongArray':
                arg = LongArray(len(idx)); arg.set_data(np.array(idx, dtype=np.int64))
            pa.remove_particles(arg)
            left = sorted(float(v) for v in pa.get('x', only_real_particles=False))
            want = sorted(float(i) for i in range(5) if i not in idx)
            if left != want:
                out = dict(op='remove_particles', indices=idx, kind=kind, left=left, expected=want); break
        if out: break
print(json.dumps(dict(bad=out)))
'''


def replay_built(model, ob):
    """Build the working tree's particle_array extension in a scratch copy
    (minutes) and run align/remove against a record-list model."""
    import os
    import shutil
    import subprocess
    import tempfile
    from pyvc.repo import REPO_ROOT
    if os.environ.get('PYVC_NO_BUILD_REPLAY'):
        return dict(reproduced=False, note='build replay disabled')
    try:
        dst, msg = native.shared_build()
        if dst is None:
            return dict(reproduced=False, note=msg)
        r = native.run_venv(REPLAY, dict(built=dst, n=4), timeout=900,
                            cwd='/tmp')
        if r['bad']:
            return dict(reproduced=True, how='particle_array built from the '
                        'working tree, compared with a record-list model',
                        **r['bad'])
        return dict(reproduced=False)
    except Exception as e:
        return dict(reproduced=False, note=str(e)[-300:])


# -------------------------------------------------------------------- align
def task_align(ctx, repo, m):
    fn = m.methods('ParticleArray')['align_particles']
    W = m.path
    n = z3.Int('n')
    tag = carr_obj('tag', length=n)
    idx_holder = {}

    def mk_long(ex, st, a, k, node):
        c = carr_obj('index_array', length=S.to_z3(a[0]))
        idx_holder['c'] = c
        return c
    props = {'x': carr_obj('x'), 'v': carr_obj('v'), 'tag': tag}
    obj = pa_self(props, {'v': 3}, n)
    T = tag.attrs['data'].arr

    def inv(ex, st):
        e = st.env
        i = S.to_z3(e['i'])
        A = e['index_array'].attrs['data'].arr
        ni = S.to_z3(e['next_insert'])
        nr = S.to_z3(e['num_real_particles'])
        k, l = z3.Int('k'), z3.Int('l')
        return z3.And(
            i >= 0, i <= n, ni >= 0, ni <= i, nr == ni,
            z3.ForAll([k], z3.Implies(z3.And(0 <= k, k < i), z3.And(
                z3.Select(A, k) >= 0, z3.Select(A, k) < i))),
            z3.ForAll([k, l], z3.Implies(z3.And(0 <= k, k < l, l < i),
                                         z3.Select(A, k) !=
                                         z3.Select(A, l))),
            z3.ForAll([k], z3.Implies(z3.And(0 <= k, k < ni),
                                      z3.Select(T, z3.Select(A, k)) ==
                                      LOCAL)),
            z3.ForAll([k], z3.Implies(z3.And(ni <= k, k < i),
                                      z3.Select(T, z3.Select(A, k)) !=
                                      LOCAL)),
            S.to_z3(S.cmp('>=', e['num_moves'], 0)))
    spec = LoopSpec(inv=[('perm', inv)])
    ex = executor(repo, m, 'align_particles', spec, contracts={
        'ParticleArray.get_number_of_particles': CalleeContract(
            lambda e, s_, a, k, nn: n),
        'ParticleArray.get_carray': CalleeContract(
            lambda e, s_, a, k, nn: a[0].attrs['properties'][a[1]])})
    ex.spec_env['LongArray'] = Native(mk_long)
    outs = ex.exec_function(fn, dict(self=obj), State(pc=[n >= 0]))
    ctx.function(m, fn, 'ParticleArray.align_particles', ex.dropped)
    obs = [o for o in ex.obligations if o.kind in ('inv-entry', 'inv-step',
                                                   'index')]
    apply_obs = []
    for i_, o in enumerate(outs):
        e = o.state.env
        A = e['index_array'].attrs['data'].arr
        nr = S.to_z3(e['self'].attrs['num_real_particles'])
        k, l = z3.Int('k'), z3.Int('l')
        post = z3.And(
            z3.ForAll([k], z3.Implies(z3.And(0 <= k, k < n), z3.And(
                z3.Select(A, k) >= 0, z3.Select(A, k) < n))),
            z3.ForAll([k, l], z3.Implies(z3.And(0 <= k, k < l, l < n),
                                         z3.Select(A, k) !=
                                         z3.Select(A, l))),
            nr >= 0, nr <= n,
            z3.ForAll([k], z3.Implies(z3.And(0 <= k, k < nr),
                                      z3.Select(T, z3.Select(A, k)) ==
                                      LOCAL)),
            z3.ForAll([k], z3.Implies(z3.And(nr <= k, k < n),
                                      z3.Select(T, z3.Select(A, k)) !=
                                      LOCAL)))
        obs.append(Obligation('align.post.%d' % i_, o.pc, post, W))
        # application: same index array, own stride, every property
        calls = [t for t in o.state.trace if t[0] == 'c_align_array']
        moved = S.cmp('>', e['num_moves'], 0)
        want = [('x', 1), ('v', 3), ('tag', 1)]
        good = [(c[1], c[2][1]) for c in calls] == want and all(
            c[2][0] is e['index_array'] for c in calls)
        none = not calls
        # on this path either nothing moved (no calls) or all were aligned
        apply_obs.append(Obligation(
            'align.apply.%d' % i_, o.pc,
            z3.And(z3.Implies(S.to_z3(moved), z3.BoolVal(bool(good))),
                   z3.Implies(z3.Not(S.to_z3(moved)),
                              z3.BoolVal(bool(none)))), W,
            extra=dict(calls=[(c[1], str(c[2][1])) for c in calls])))
    for o_ in obs + apply_obs:
        o_.extra = dict(o_.extra or {}, backends=['z3'])
    ctx.prove('align.index_is_permutation_local_first', obs,
              replay=replay_built, sample=True, use_nf=False)
    ctx.prove('align.applied_to_every_property', apply_obs,
              replay=replay_built, use_nf=False)


# ------------------------------------------------------------------- remove
def task_remove(ctx, repo, m):
    fn = m.methods('ParticleArray')['remove_particles']
    W = m.path
    obs = []
    for is_base in (True, False):
        for align in (True, False):
            n = z3.Int('n')
            props = {'x': carr_obj('x'), 'v': carr_obj('v')}
            obj = pa_self(props, {'v': 3}, n)
            L = z3.Int('n_idx')

            def npy(tag):
                return ('npy', tag)
            idx_in = SymObject(None, dict(
                length=L, get_npy_array=Native(
                    lambda e, s_, a, k, nn: ('npy-of', 'input'))), 'indices')
            made = {}

            def mk_long(ex, st, a, k, node):
                c = SymObject(None, dict(length=L), 'index_list')
                c.attrs['set_data'] = Native(
                    lambda e, s_, a_, k_, n_: made.__setitem__('data',
                                                               a_[0]))
                c.attrs['get_npy_array'] = Native(
                    lambda e, s_, a_, k_, n_: ('npy-of', 'converted'))
                return c
            raw = SymObject(None, dict(size=L), 'raw_indices')
            ex = executor(repo, m, 'remove_particles', contracts={
                'ParticleArray.get_number_of_particles': CalleeContract(
                    lambda e, s_, a, k, nn: n),
                'ParticleArray.align_particles': CalleeContract(
                    lambda e, s_, a, k, nn: s_.trace.append(('align',)))},
                externals={
                    'isinstance': lambda e, s_, a, k, nn: is_base,
                    'asarray': lambda e, s_, a, k, nn: raw,
                    'sort': lambda e, s_, a, k, nn: ('sorted', a[0]),
                    'len': lambda e, s_, a, k, nn: len(a[0])
                    if isinstance(a[0], (list, dict)) else L})
            ex.spec_env['LongArray'] = Native(mk_long)
            ex.spec_env['BaseArray'] = 'BaseArray'
            outs = ex.exec_function(fn, dict(
                self=obj, indices=idx_in if is_base else 'rawlist',
                align=align), State(pc=[n >= 0, L >= 0]))
            ctx.function(m, fn, 'ParticleArray.remove_particles', ex.dropped)
            src = 'input' if is_base else 'converted'
            for i_, o in enumerate(outs):
                if o.kind == 'raise':
                    # only when more indices than particles
                    obs.append(Obligation('remove.raise.%s.%d' % (is_base,
                                                                  i_), o.pc,
                                          L > n, W))
                    continue
                calls = [t for t in o.state.trace if t[0] == 'remove']
                good = [(c[1], c[2][2]) for c in calls] == [('x', 1),
                                                            ('v', 3)] and \
                    all(c[2][0] == ('sorted', ('npy-of', src)) and
                        c[2][1] == 1 for c in calls)
                aligned = ('align',) in o.state.trace
                want_align = z3.And(L > 0, z3.BoolVal(align))
                obs.append(Obligation('remove.calls.%s.%s.%d' % (
                    is_base, align, i_), o.pc, z3.BoolVal(bool(good)), W,
                    extra=dict(calls=str([(c[1], c[2]) for c in
                                          calls])[:300])))
                obs.append(Obligation('remove.align.%s.%s.%d' % (
                    is_base, align, i_), o.pc,
                    want_align == z3.BoolVal(aligned), W))
    for o_ in obs:
        o_.extra = dict(o_.extra or {}, backends=['z3'])
    ctx.prove('remove.same_sorted_indices_to_every_property', obs,
              replay=replay_built, use_nf=False)


# ------------------------------------------------------------------- tagged
def task_tagged(ctx, repo, m):
    fn = m.methods('ParticleArray')['remove_tagged_particles']
    W = m.path
    n = z3.Int('n')
    tag_c = carr_obj('tag', length=n)
    T = tag_c.attrs['data']
    tag_c.attrs['get_data_ptr'] = Native(lambda e, s_, a, k, nn: T)
    obj = pa_self({'tag': tag_c}, {}, n)
    want_tag = z3.Int('wanted_tag')
    appended = []

    def mk_long(ex, st, a, k, node):
        c = SymObject(None, {}, 'indices')
        c.attrs['append'] = Native(lambda e, s_, a_, k_, n_:
                                   s_.trace.append(('append', a_[0])))
        return c
    spec = LoopSpec(inv=[('range', lambda ex, st: z3.And(
        S.to_z3(st.env['i']) >= 0, S.to_z3(st.env['i']) <= n))])
    ex = executor(repo, m, 'remove_tagged_particles', spec, contracts={
        'ParticleArray.remove_particles': CalleeContract(
            lambda e, s_, a, k, nn: s_.trace.append(('remove_particles',
                                                     a[1], k)))})
    ex.spec_env['LongArray'] = Native(mk_long)
    outs = ex.exec_function(fn, dict(self=obj, tag=want_tag, align=True),
                            State(pc=[n >= 0]))
    ctx.function(m, fn, 'ParticleArray.remove_tagged_particles', ex.dropped)
    obs = [o for o in ex.obligations if o.kind in ('inv-entry', 'inv-step',
                                                   'index')]
    head = spec.log['head']
    n0 = len(head.trace)
    iv = head.env['i']
    for j, (s1, sig) in enumerate(spec.log['ends']):
        ev = [t for t in s1.trace[n0:] if t[0] == 'append']
        match = z3.Select(T.arr, S.to_z3(iv)) == want_tag
        if ev:
            g = z3.And(match, z3.BoolVal(len(ev) == 1),
                       S.to_z3(ev[0][1]) == S.to_z3(iv))
        else:
            g = z3.Not(match)
        obs.append(Obligation('tagged.step.%d' % j, s1.pc, g, W))
    for i_, o in enumerate(outs):
        calls = [t for t in o.state.trace if t[0] == 'remove_particles']
        ok = len(calls) == 1 and calls[0][1] is o.state.env['indices'] and \
            calls[0][2].get('align') is True
        obs.append(Obligation('tagged.handoff.%d' % i_, o.pc,
                              z3.BoolVal(bool(ok)), W))
    for o_ in obs:
        o_.extra = dict(o_.extra or {}, backends=['z3'])
    ctx.prove('remove_tagged.collects_matching_indices_in_order', obs,
              use_nf=False)


# ------------------------------------------------------------------- extend
class NpView(object):
    def __init__(self, name):
        self.name = name

    def vc_setitem(self, idx, v, ex, st, node):
        st.trace.append(('fill', self.name, idx, v))


def task_extend(ctx, repo, m):
    fn = m.methods('ParticleArray')['extend']
    W = m.path
    n, k = z3.Int('n'), z3.Int('k')
    props = {}
    for nm in ('x', 'v'):
        c = carr_obj(nm)
        c.attrs['get_npy_array'] = Native(lambda e, s_, a, k_, nn, nm=nm:
                                          NpView(nm))
        props[nm] = c
    dx, dv = z3.Real('default_x'), z3.Real('default_v')
    obj = pa_self(props, {'v': 3}, n, dict(default_values={'x': dx,
                                                           'v': dv}))
    ex = executor(repo, m, 'extend', contracts={
        'ParticleArray.get_number_of_particles': CalleeContract(
            lambda e, s_, a, k_, nn: n)})
    outs = ex.exec_function(fn, dict(self=obj, num_particles=k),
                            State(pc=[n >= 0]))
    ctx.function(m, fn, 'ParticleArray.extend', ex.dropped)
    obs = []
    for i_, o in enumerate(outs):
        tr = o.state.trace
        if not tr:
            obs.append(Obligation('extend.noop.%d' % i_, o.pc, k <= 0, W))
            continue
        obs.append(Obligation('extend.positive.%d' % i_, o.pc, k > 0, W))
        want = []
        ok = [t[0] for t in tr] == ['resize', 'fill', 'resize', 'fill']
        goals = []
        if ok:
            for (rs, fl, nm, s_, dflt) in ((tr[0], tr[1], 'x', 1, dx),
                                           (tr[2], tr[3], 'v', 3, dv)):
                ok = ok and rs[1] == nm and fl[1] == nm and \
                    isinstance(fl[2], slice) and fl[2].stop is None and \
                    S.same(fl[3], dflt)
                if ok:
                    goals.append(S.to_z3(S.cmp('==', rs[2][0], (n + k) *
                                               s_)))
                    goals.append(S.to_z3(S.cmp('==', fl[2].start, n * s_)))
        obs.append(Obligation('extend.shape.%d' % i_, o.pc,
                              z3.BoolVal(bool(ok)), W))
        for j, g in enumerate(goals):
            obs.append(Obligation('extend.size.%d.%d' % (i_, j), o.pc, g, W))
    for o_ in obs:
        o_.extra = dict(o_.extra or {}, backends=['z3'])
    ctx.prove('extend.resizes_and_fills_defaults', obs, use_nf=False)


# ------------------------------------------------------------------ extract
def task_extract(ctx, repo, m):
    fn = m.methods('ParticleArray')['extract_particles']
    W = m.path
    obs = []
    for align in (True, False):
        n, L, nd = z3.Int('n'), z3.Int('n_idx'), z3.Int('n_dest')
        props = {'x': carr_obj('x'), 'v': carr_obj('v')}
        dprops = {'x': carr_obj('dx'), 'v': carr_obj('dv')}
        obj = pa_self(props, {'v': 3}, n)
        idx = SymObject(None, dict(length=L), 'indices')
        dest = SymObject(None, dict(
            get_number_of_particles=Native(lambda e, s_, a, k, nn: nd),
            extend=Native(lambda e, s_, a, k, nn: s_.trace.append(
                ('dest.extend', a[0]))),
            get_carray=Native(lambda e, s_, a, k, nn: dprops[a[0]]),
            align_particles=Native(lambda e, s_, a, k, nn: s_.trace.append(
                ('dest.align',)))), 'dest')
        ex = executor(repo, m, 'extract_particles', contracts={
            'ParticleArray.get_carray': CalleeContract(
                lambda e, s_, a, k, nn: a[0].attrs['properties'][a[1]])},
            externals={'isinstance': lambda e, s_, a, k, nn: True})
        ex.spec_env['BaseArray'] = 'BaseArray'
        outs = ex.exec_function(fn, dict(self=obj, indices=idx,
                                         dest_array=dest, align=align,
                                         props=None),
                                State(pc=[n >= 0, L >= 0, nd >= 0]))
        ctx.function(m, fn, 'ParticleArray.extract_particles', ex.dropped)
        for i_, o in enumerate(outs):
            tr = o.state.trace
            if not tr:
                obs.append(Obligation('extract.empty.%s.%d' % (align, i_),
                                      o.pc, z3.And(L == 0, z3.BoolVal(
                                          getattr(o.value, 'name', None) == 'dest')), W))
                continue
            names = [t[0] for t in tr]
            want = ['dest.extend', 'copy_values', 'copy_values'] + (
                ['dest.align'] if align else [])
            ok = names == want and getattr(o.value, 'name', None) == 'dest'
            goals = [L != 0]
            if ok:
                ok = tr[0][1] is L or S.same(tr[0][1], L)
                for c, (nm, dn, s_) in zip(tr[1:3], (('x', 'dx', 1),
                                                     ('v', 'dv', 3))):
                    a = c[2]
                    ok = ok and c[1] == nm and getattr(a[0], 'name', None) == \
                        'indices' and getattr(a[1], 'name', None) == dn \
                        and a[2] == s_
                    if ok:
                        goals.append(S.to_z3(S.cmp('==', a[3], s_ * nd)))
            obs.append(Obligation('extract.shape.%s.%d' % (align, i_), o.pc,
                                  z3.BoolVal(bool(ok)), W,
                                  extra=dict(events=names)))
            for j, g in enumerate(goals):
                obs.append(Obligation('extract.args.%s.%d.%d' % (align, i_,
                                                                 j), o.pc, g,
                                      W))
    for o_ in obs:
        o_.extra = dict(o_.extra or {}, backends=['z3'])
    ctx.prove('extract.copies_whole_rows_to_the_end', obs, use_nf=False)
