"""C07 (partial) -- periodic and mirror domains create the right ghosts.

pysph/base/nnps_base.pyx, extracted mechanically (pyvc/cy2py.py).  Functions
under contract: CPUDomainManager.update, _box_wrap_periodic,
_create_ghosts_periodic, _create_ghosts_mirror; DomainManagerBase
._add_to_array, _mul_to_array, _add_array_to_array.

wrap      (unbounded: quantified loop invariant over the coordinate arrays)
          per periodic axis a with T = translate_a: every particle that had
          left by less than one period (min - T <= x <= max + T) is inside
          again and moved by 0 or +-T; all other entries, the non-periodic
          axes and all other properties untouched            [T > 0 assumed]
helpers   _add_to_array adds disp to the cells from `start` on and to no
          other; _mul_to_array scales every cell; _add_array_to_array adds
          cell-wise (loop invariants)
scan      each `for i in range(np)` scan appends i to the low (high) list of
          an axis iff that axis is periodic/mirrored and the particle is
          within L = n_layers * cell_size of the low (high) face; the mirror
          scan appends the translation -2(x - min) / 2(max - x) in lockstep
compose   (trace contract, two arrays) the ghost buffer is built in the
          documented order: x: images of low_x(P) shifted +T_x then high_x(P)
          shifted -T_x; y: images OF THE GHOSTS SO FAR (low, high) then of P
          (high, low); z likewise; each extract is followed by the shift of
          exactly the newly added tail (start = size before) along the same
          axis; mirror: the same ten copies per array, stated as ORDER
          CONSTRAINTS (check_mirror): each copy is translated by the list
          filled in the same scan, its normal velocity negated, then
          appended; a corner scan sees exactly the images of the earlier
          axes; an index list filled by scanning the image buffer is used
          before that buffer is appended to again (append_parray re-aligns
          its target, so the indices go stale when the buffer holds copies of
          periodic ghosts -- defect repaired in 25b2043); images tagged Ghost
          and appended to the array
update    ghosts of the previous update are removed before wrapping and
          before new ones are created (no accumulation)
NOT verified: the set-theoretic lemma that this construction yields every
face/edge/corner image exactly once (mathematics; pre-screened numerically),
ParticleArray internals (C06), GPU and MPI paths.
"""
import ast
import z3

from pyvc import sym as S
from pyvc import native
from pyvc.repo import Repo
from pyvc.symexec import (Executor, State, Obligation, Native, LoopSpec,
                          SymArray, CalleeContract)
from pyvc.sym import SymObject, VCError

PYX = 'pysph/base/nnps_base.pyx'
ASSUMPTIONS = [
    'ParticleArray.extract_particles / append_parray / remove_tagged_'
    'particles / empty_clone / ensure_properties obey the C06 contracts',
    'translate_a = max_a - min_a > 0 on periodic axes (set by the '
    'constructor; checked as obligation `init.translate`)',
    'the multiset lemma (faces, edges, corners exactly once; needs '
    'L <= T per periodic axis) is mathematics, not machine-checked',
]
TRUSTED = ['z3 quantifier instantiation']
AX = ('x', 'y', 'z')


def tasks(tier):
    # ghosts are built with ParticleArray.extract_particles / append_parray
    # and removed with remove_tagged_particles (C06): re-proved here
    return ['wrap', 'helpers', 'periodic', 'mirror', 'update', 'construct',
            'canary', 'native',
            'dep:C06:extract', 'dep:C06:append', 'dep:C06:tagged',
            'dep:C06:remove',
            # the ghost buffer picks up properties added later through
            # ensure_properties / empty_clone (type, default, stride kept)
            'dep:C06:misc']


def carr(name, length=None, elem='real'):
    c = SymObject(None, {}, name)
    data = SymArray(name + '_data', elem=elem, length=length)
    c.attrs['data'] = data
    c.attrs['length'] = data.length
    return c


def run_task(task, ctx):
    if task.startswith('dep:'):
        from contracts import deps
        return deps.run_dep(task, ctx)
    repo = Repo()
    m = repo.cython_module(PYX)
    if task == 'wrap':
        return task_wrap(ctx, repo, m)
    if task == 'helpers':
        return task_helpers(ctx, repo, m)
    if task == 'periodic':
        return task_compose(ctx, repo, m, 'periodic')
    if task == 'mirror':
        return task_compose(ctx, repo, m, 'mirror')
    if task == 'update':
        return task_update(ctx, repo, m)
    if task == 'construct':
        return task_construct(ctx, repo, m)
    if task == 'native':
        return task_native(ctx)
    if task == 'canary':
        x = z3.Real('cx')
        ctx.canary('canary.must_fail', Obligation('c', [x > 0], x > 1))
        ctx.results.append(dict(name='canary.pipeline', verdict='proved',
                                queries=0, backends={}, seconds=0,
                                failing=[], replay=None, info=''))
        return
    raise ValueError(task)


# ---------------------------------------------------------------- construct
CTOR_ARGS = ['xmin', 'xmax', 'ymin', 'ymax', 'zmin', 'zmax', 'periodic_in_x',
             'periodic_in_y', 'periodic_in_z', 'n_layers', 'props',
             'mirror_in_x', 'mirror_in_y', 'mirror_in_z']


def _ctor_values():
    v = {}
    for a in CTOR_ARGS:
        if a.startswith(('periodic', 'mirror')):
            v[a] = z3.Bool('arg_' + a)
        elif a == 'props':
            v[a] = ('props-object',)
        else:
            v[a] = z3.Real('arg_' + a)
    return v


def task_construct(ctx, repo, m):
    """What the user gives the DomainManager facade is what the ghost
    builder uses: DomainManager.__init__ forwards every argument under its
    own name to the manager it creates, CPUDomainManager.__init__ forwards
    every one to DomainManagerBase.__init__, which stores each in the
    attribute of the same name (and translate = max - min, is_periodic /
    is_mirror = any axis); the facade's methods forward to the manager."""
    W = m.path
    obs = []
    vals = _ctor_values()

    def same(a, b):
        return a is b or S.same(a, b)
    # (a) facade
    fn = m.methods('DomainManager')['__init__']
    made = []

    def ctor(e, s_, a, k_, nn):
        made.append((list(a), dict(k_)))
        return SymObject(None, {}, 'manager')
    obj = SymObject('DomainManager', {}, 'self')
    obj.module = m
    ex = Executor(repo, m, qualname='DomainManager.__init__', merge=False,
                  externals={'CPUDomainManager': ctor,
                             'get_backend': lambda e, s_, a, k_, nn: 'cython'})
    args = dict(vals)
    args.update(self=obj, backend=None)
    try:
        outs = ex.exec_function(fn, args, State(pc=[]))
    except VCError as e:
        ctx.outside('construct.facade', str(e))
        return
    ctx.function(m, fn, 'DomainManager.__init__', ex.dropped)
    ok = len(made) >= 1 and len(outs) >= 1
    why = '%d constructor calls' % len(made)
    for a_, k_ in made:
        if a_:
            ok = False
            why = 'positional arguments %r' % (a_,)
        for nm in CTOR_ARGS:
            if nm not in k_ or not same(k_[nm], vals[nm]):
                ok = False
                why = 'argument %s arrives as %r' % (nm, k_.get(nm, '<absent: '
                                                                'default>'))
        if k_.get('backend') != 'cython':
            ok = False
            why = 'backend %r' % (k_.get('backend'),)
    for o in outs:
        mg = o.state.env['self'].attrs.get('manager')
        if not (isinstance(mg, SymObject) and mg.name == 'manager'):
            ok = False
            why = 'self.manager is %r' % (mg,)
    obs.append(Obligation('facade.forwards_every_argument', [],
                          z3.BoolVal(bool(ok)), W, extra=dict(why=why)))
    # facade methods
    for meth, nargs in (('set_pa_wrappers', 1), ('set_cell_size', 1),
                        ('set_in_parallel', 1), ('set_radius_scale', 1),
                        ('compute_cell_size_for_binning', 0), ('update', 0)):
        fn_ = m.methods('DomainManager').get(meth)
        if fn_ is None:
            obs.append(Obligation('facade.%s.exists' % meth, [],
                                  z3.BoolVal(False), W))
            continue
        calls = []
        mg = SymObject(None, {meth: Native(
            lambda e, s_, a, k_, nn: calls.append((list(a), dict(k_))))},
            'manager')
        o_ = SymObject('DomainManager', dict(manager=mg), 'self')
        o_.module = m
        ex = Executor(repo, m, qualname='DomainManager.' + meth, merge=False)
        params = [p.arg for p in fn_.args.args][1:]
        av = {p_: ('arg', p_) for p_ in params}
        try:
            outs = ex.exec_function(fn_, dict(self=o_, **av), State(pc=[]))
            okm = len(calls) == 1 and len(outs) == 1 and \
                calls[0][0] == [av[p_] for p_ in params] and not calls[0][1]
        except VCError as e:
            okm = False
        ctx.function(m, fn_, 'DomainManager.' + meth)
        obs.append(Obligation('facade.%s.forwards' % meth, [],
                              z3.BoolVal(bool(okm)), W))
    # (b) CPUDomainManager.__init__ -> DomainManagerBase.__init__
    fn = m.methods('CPUDomainManager')['__init__']
    got = []

    def base_init(e, s_, a, k_, nn):
        got.append((list(a), dict(k_)))
    obj = SymObject('CPUDomainManager', {}, 'self')
    obj.module = m
    from pyvc.symexec import CalleeContract
    ex = Executor(repo, m, qualname='CPUDomainManager.__init__', merge=False,
                  contracts={'DomainManagerBase.__init__':
                             CalleeContract(base_init),
                             # an unbound call Base.__init__(self, ...) is
                             # looked up by its bare name
                             '__init__': CalleeContract(base_init)})
    ex.spec_env['np'] = SymObject(None, dict(finfo=Native(
        lambda e, s_, a, k_, nn: SymObject(None, dict(max=z3.Real('dmax')),
                                           'finfo'))), 'np')
    args = dict(vals)
    args.update(self=obj, backend=None)
    try:
        outs = ex.exec_function(fn, args, State(pc=[]))
        ok = len(got) == 1 and len(outs) == 1
        why = '%d base constructor calls' % len(got)
        for a_, k_ in got:
            pos = [x for x in a_ if not (isinstance(x, SymObject) and
                                         x.name == 'self')]
            if pos:
                ok, why = False, 'positional arguments'
            for nm in CTOR_ARGS:
                if nm not in k_ or not same(k_[nm], vals[nm]):
                    ok = False
                    why = 'argument %s arrives as %r' % (
                        nm, k_.get(nm, '<absent: default>'))
    except VCError as e:
        ok, why = False, 'outside subset: %s' % e
    ctx.function(m, fn, 'CPUDomainManager.__init__', ex.dropped)
    obs.append(Obligation('cpu_manager.forwards_every_argument', [],
                          z3.BoolVal(bool(ok)), W, extra=dict(why=why)))
    # (c) DomainManagerBase.__init__ stores every argument
    fn = m.methods('DomainManagerBase')['__init__']
    obj = SymObject('DomainManagerBase', {}, 'self')
    obj.module = m
    ex = Executor(repo, m, qualname='DomainManagerBase.__init__', merge=False,
                  inline={'DomainManagerBase._check_limits'})
    args = dict(vals)
    args.update(self=obj)
    pre = [vals['xmax'] >= vals['xmin'], vals['ymax'] >= vals['ymin'],
           vals['zmax'] >= vals['zmin']]
    try:
        outs = ex.exec_function(fn, args, State(pc=list(pre)))
    except VCError as e:
        ctx.outside('construct.base', str(e))
        return
    ctx.function(m, fn, 'DomainManagerBase.__init__', ex.dropped)
    rets = [o for o in outs if o.kind == 'return']
    if not rets:
        obs.append(Obligation('base.returns', [], z3.BoolVal(False), W))
    for i_, o in enumerate(rets):
        at = o.state.env['self'].attrs
        for nm in CTOR_ARGS:
            v = at.get(nm, None)
            if nm == 'props':
                g = z3.BoolVal(v is vals[nm])
            elif v is None:
                g = z3.BoolVal(False)
            else:
                g = S.to_z3(S.cmp('==', v, vals[nm]))
            obs.append(Obligation('base.%d.stores.%s' % (i_, nm), o.pc, g, W))
        for a in AX:
            v = at.get(a + 'translate')
            obs.append(Obligation(
                'base.%d.translate.%s' % (i_, a), o.pc,
                S.to_z3(S.cmp('==', v, vals[a + 'max'] - vals[a + 'min']))
                if v is not None else z3.BoolVal(False), W))
        for kind in ('periodic', 'mirror'):
            v = at.get('is_' + kind)
            want = z3.Or(*[vals['%s_in_%s' % (kind, a)] for a in AX])
            obs.append(Obligation(
                'base.%d.is_%s' % (i_, kind), o.pc,
                (S.to_z3(S.to_bool(v)) == want) if v is not None
                else z3.BoolVal(False), W))
    # a manager that is given OTHER arrays (a second NNPS built with the
    # same `domain=` object does that) starts without ghost buffers: the
    # buffers are clones of the arrays served before (their properties, their
    # number)
    try:
        fsp = m.methods('CPUDomainManager')['set_pa_wrappers']
        o_ = SymObject('CPUDomainManager', dict(
            ghosts=['old buffer'], props=None, pa_wrappers=['old'],
            narrays=1, copy_props=[None]), 'self')
        o_.module = m
        fbase = m.methods('DomainManagerBase')['set_pa_wrappers']
        base_call = CalleeContract(lambda e, s_, a, k, n: e.inline_call(
            e.module, fbase, list(a), dict(k), s_, n))
        ex = Executor(repo, m, qualname='CPUDomainManager.set_pa_wrappers',
                      merge=False, contracts={
                          'DomainManagerBase.set_pa_wrappers': base_call,
                          'CPUDomainManager.set_pa_wrappers': base_call,
                          'set_pa_wrappers': base_call})
        new_w = [('wrapper', 0), ('wrapper', 1)]
        outs = ex.exec_function(fsp, dict(self=o_, wrappers=new_w))
        at = outs[0].state.env['self'].attrs if len(outs) == 1 else {}
        ok = len(outs) == 1 and at.get('ghosts') is None and \
            at.get('pa_wrappers') == new_w and at.get('narrays') == 2 and \
            at.get('copy_props') == [None, None]
        ctx.function(m, fsp, 'CPUDomainManager.set_pa_wrappers', ex.dropped)
    except (VCError, KeyError) as e:
        ok = False
    obs.append(Obligation('new_arrays_start_without_ghost_buffers', [],
                          z3.BoolVal(bool(ok)), W))
    for o_ in obs:
        o_.extra = dict(o_.extra or {}, backends=['z3'])
    ctx.prove('construct.arguments_reach_the_ghost_builder', obs,
              use_nf=False, replay=replay_layers)


REPLAY_LAYERS = r"""
import json, sys
d = json.load(sys.stdin)
sys.path.insert(0, d['built'])
import numpy as np
from pysph.base.utils import get_particle_array
from pysph.base.nnps import DomainManager, LinkedListNNPS
bad = None
for nl in (1.0, 2.0, 3.0):
    h = 0.05
    x, y = np.mgrid[0.025:1:0.05, 0.025:1:0.05]
    pa = get_particle_array(name='f', x=x.ravel(), y=y.ravel(), h=h)
    dom = DomainManager(xmin=0., xmax=1., ymin=0., ymax=1., periodic_in_x=True, periodic_in_y=True, n_layers=nl)
    nn = LinkedListNNPS(dim=2, particles=[pa], domain=dom, radius_scale=2.0)
    nn.update()
    L = nl * 2.0 * h
    xs, ys = x.ravel(), y.ravel()
    want = 0
    for sx in (-1, 0, 1):
        for sy in (-1, 0, 1):
            if sx == 0 and sy == 0: continue
            okx = np.ones_like(xs, bool) if sx == 0 else ((xs - 0.0) <= L if sx == 1 else (1.0 - xs) <= L)
            oky = np.ones_like(ys, bool) if sy == 0 else ((ys - 0.0) <= L if sy == 1 else (1.0 - ys) <= L)
            want += int(np.sum(okx & oky))
    got = int(pa.get_number_of_particles() - pa.num_real_particles)
    if dom.manager.n_layers != nl or got != want:
        bad = dict(n_layers_given=nl, n_layers_of_manager=float(dom.manager.n_layers), ghosts=got, expected=want); break
print(json.dumps(dict(bad=bad)))
"""


def replay_layers(model, ob):
    import os
    if os.environ.get('PYVC_NO_BUILD_REPLAY'):
        return dict(reproduced=False, note='build replay disabled')
    try:
        dst, msg = native.shared_build()
        if dst is None:
            return dict(reproduced=False, note=msg)
        r = native.run_venv(REPLAY_LAYERS, dict(built=dst), timeout=900,
                            cwd='/tmp')
        if r['bad']:
            return dict(reproduced=True, how='extensions built from the '
                        'working tree; DomainManager(n_layers=1,2,3) on a '
                        'doubly periodic 20x20 box', **r['bad'])
        return dict(reproduced=False)
    except Exception as e:
        return dict(reproduced=False, note=str(e)[-300:])


def loops_over(fn, what):
    """ordinals (source order) of `for i in range(<what>)` loops"""
    lp = sorted([x for x in ast.walk(fn) if isinstance(x, (ast.For,
                                                           ast.While))],
                key=lambda x: (x.lineno, x.col_offset))
    out = []
    for k, x in enumerate(lp):
        if isinstance(x, ast.For) and isinstance(x.iter, ast.Call) and \
                isinstance(x.iter.func, ast.Name) and \
                x.iter.func.id == 'range' and x.iter.args and \
                ast.unparse(x.iter.args[0]) == what:
            out.append(k)
    return out


def dm_self(m, cls='CPUDomainManager', **attrs):
    o = SymObject(cls, {}, 'self')
    o.module = m
    base = {}
    for a in AX:
        base[a + 'min'] = z3.Real(a + 'min')
        base[a + 'max'] = z3.Real(a + 'max')
        base[a + 'translate'] = z3.Real(a + 'translate')
        base['periodic_in_' + a] = z3.Bool('periodic_in_' + a)
        base['mirror_in_' + a] = z3.Bool('mirror_in_' + a)
    base.update(n_layers=z3.Real('n_layers'), cell_size=z3.Real('cell_size'),
                radius_scale=z3.Real('radius_scale'))
    base.update(attrs)
    o.attrs = base
    return o


REPLAY = r'''
import json, sys
d = json.load(sys.stdin)
sys.path.insert(0, d['built'])
import numpy as np
from pysph.base.utils import get_particle_array
from pysph.base.nnps import DomainManager, LinkedListNNPS
bad = None
# periodic box wrap, non-cubic box, crossing every face
pa = get_particle_array(name='a', x=[-0.25, 1.25, 0.5, 0.5, 0.5, 0.5], y=[0.5, 0.5, -0.25, 2.25, 0.5, 0.5],
                        z=[0.5, 0.5, 0.5, 0.5, -0.25, 3.25], h=0.1)
dm = DomainManager(xmin=0, xmax=1, ymin=0, ymax=2, zmin=0, zmax=3, periodic_in_x=True, periodic_in_y=True, periodic_in_z=True)
nn = LinkedListNNPS(dim=3, particles=[pa], domain=dm)
tg = pa.get('tag', only_real_particles=False); real = tg == 0
got = np.c_[pa.get('x', only_real_particles=False)[real], pa.get('y', only_real_particles=False)[real], pa.get('z', only_real_particles=False)[real]].tolist()
want = [[0.75, 0.5, 0.5], [0.25, 0.5, 0.5], [0.5, 1.75, 0.5], [0.5, 0.25, 0.5], [0.5, 0.5, 2.75], [0.5, 0.5, 0.25]]
if sorted(got) != sorted(want):
    bad = dict(case='box wrap', observed=got, expected=want)
if bad is None:
    # mirror corner images: velocities
    pa = get_particle_array(name='a', x=[0.95], y=[0.95], z=[0.95], h=0.05, u=[1.0], v=[2.0], w=[3.0])
    dm = DomainManager(xmin=0, xmax=1, ymin=0, ymax=1, zmin=0, zmax=1, mirror_in_x=True, mirror_in_y=True, mirror_in_z=True, n_layers=2)
    nn = LinkedListNNPS(dim=3, particles=[pa], domain=dm)
    G = {k: pa.get(k, only_real_particles=False) for k in 'xyzuvw'}
    for i in range(pa.get_number_of_particles()):
        sx = -1.0 if G['x'][i] > 1 else 1.0; sy = -1.0 if G['y'][i] > 1 else 1.0; sz = -1.0 if G['z'][i] > 1 else 1.0
        if (G['u'][i], G['v'][i], G['w'][i]) != (1.0 * sx, 2.0 * sy, 3.0 * sz):
            bad = dict(case='mirror velocities', image=[float(G[k][i]) for k in 'xyz'], observed=[float(G[k][i]) for k in 'uvw'],
                       expected=[1.0 * sx, 2.0 * sy, 3.0 * sz]); break
    if bad is None and pa.get_number_of_particles() != 8:
        bad = dict(case='mirror corner count', observed=int(pa.get_number_of_particles()), expected=8)
if bad is None:
    # two arrays, mirror in x: translations must not leak between arrays
    a = get_particle_array(name='a', x=[0.05], y=[0.5], h=0.05, u=[1.0])
    b = get_particle_array(name='b', x=[0.02], y=[0.5], h=0.05, u=[1.0])
    dm = DomainManager(xmin=0, xmax=1, mirror_in_x=True, n_layers=2)
    nn = LinkedListNNPS(dim=2, particles=[a, b], domain=dm)
    bx = b.get('x', only_real_particles=False); bt = b.get('tag', only_real_particles=False)
    gb = sorted(round(float(v), 12) for v in bx[bt != 0])
    if gb != [-0.02]:
        bad = dict(case='mirror, two arrays', observed_images_of_b=gb, expected=[-0.02])
if bad is None:
    # two arrays, periodic in x and y, three updates: the number of ghosts of
    # each array must stay the same (buffers emptied every round)
    rng = np.random.RandomState(5)
    arrs = [get_particle_array(name='p%d' % k, x=rng.rand(12), y=rng.rand(12), h=0.05) for k in range(3)]
    dm = DomainManager(xmin=0, xmax=1, ymin=0, ymax=1, periodic_in_x=True, periodic_in_y=True, n_layers=2)
    nn = LinkedListNNPS(dim=2, particles=arrs, domain=dm)
    def nghost(p): return int((p.get('tag', only_real_particles=False) != 0).sum())
    first = [nghost(p) for p in arrs]
    for rnd in range(3):
        nn.update_domain(); nn.update()
        now = [nghost(p) for p in arrs]
        if now != first:
            bad = dict(case='periodic, three arrays, update %d' % (rnd + 2), ghosts_per_array=now, after_first_update=first); break
if bad is None:
    # periodic in x and mirror in y: the mirror scan covers the periodic
    # ghosts, so a particle in the corner gets 3 images
    pa = get_particle_array(name='a', x=[0.02], y=[0.03], h=0.05, u=[1.0], v=[2.0])
    dm = DomainManager(xmin=0, xmax=1, ymin=0, ymax=1, periodic_in_x=True, mirror_in_y=True, n_layers=2)
    nn = LinkedListNNPS(dim=2, particles=[pa], domain=dm)
    pts = sorted((round(float(a_), 9), round(float(b_), 9)) for a_, b_ in zip(pa.get('x', only_real_particles=False), pa.get('y', only_real_particles=False)))
    want = sorted([(0.02, 0.03), (1.02, 0.03), (0.02, -0.03), (1.02, -0.03)])
    if pts != want:
        bad = dict(case='periodic x + mirror y corner', observed=pts, expected=want)
if bad is None:
    # particles exactly on the inner boundary of a ghost layer (closed layers:
    # distance <= n_layers*cell_size, all numbers exact in binary)
    P = [(0.125, 0.25), (0.875, 0.75), (0.25, 0.5), (0.75, 0.125), (0.5, 0.5), (0.25, 0.25), (0.75, 0.75), (0.25, 0.75)]
    pa = get_particle_array(name='a', x=[p[0] for p in P], y=[p[1] for p in P], h=0.0625)
    dm = DomainManager(xmin=0, xmax=1, ymin=0, ymax=1, periodic_in_x=True, periodic_in_y=True, n_layers=2)
    nn = LinkedListNNPS(dim=2, particles=[pa], domain=dm, radius_scale=2.0)
    L = 0.25
    want = []
    for (px, py) in P:
        for sx in (-1, 0, 1):
            for sy in (-1, 0, 1):
                if sx == 0 and sy == 0: continue
                okx = sx == 0 or (sx == 1 and px - 0.0 <= L) or (sx == -1 and 1.0 - px <= L)
                oky = sy == 0 or (sy == 1 and py - 0.0 <= L) or (sy == -1 and 1.0 - py <= L)
                if okx and oky: want.append((px + sx, py + sy))
    tg = pa.get('tag', only_real_particles=False)
    got = sorted((float(a_), float(b_)) for a_, b_, t_ in zip(pa.get('x', only_real_particles=False), pa.get('y', only_real_particles=False), tg) if t_ != 0)
    if got != sorted(want):
        bad = dict(case='periodic x+y, particles exactly on the layer boundary', missing=sorted(set(want) - set(got))[:6], extra=sorted(set(got) - set(want))[:6])
import itertools
if bad is None:
    # every combination of periodic axes in 3D: faces, edges and corners
    P = [(0.1, 0.1, 0.1), (0.9, 0.1, 0.9), (0.5, 0.9, 0.1), (0.5, 0.5, 0.5), (0.1, 0.9, 0.5), (0.9, 0.9, 0.9)]
    L = 0.25
    for fl in itertools.product((False, True), repeat=3):
        if not any(fl): continue
        pa = get_particle_array(name='a', x=[p[0] for p in P], y=[p[1] for p in P], z=[p[2] for p in P], h=0.0625)
        dm = DomainManager(xmin=0, xmax=1, ymin=0, ymax=1, zmin=0, zmax=1, periodic_in_x=fl[0], periodic_in_y=fl[1], periodic_in_z=fl[2], n_layers=2)
        nn = LinkedListNNPS(dim=3, particles=[pa], domain=dm, radius_scale=2.0)
        want = []
        for p in P:
            for sh in itertools.product((-1, 0, 1), repeat=3):
                if not any(sh): continue
                ok = True
                for a in range(3):
                    if sh[a] == 0: continue
                    if not fl[a]: ok = False
                    elif sh[a] == 1 and not (p[a] <= L): ok = False
                    elif sh[a] == -1 and not (1.0 - p[a] <= L): ok = False
                if ok: want.append(tuple(round(p[a] + sh[a], 9) for a in range(3)))
        tg = pa.get('tag', only_real_particles=False)
        G = [pa.get(k, only_real_particles=False) for k in 'xyz']
        got = sorted(tuple(round(float(G[a][i]), 9) for a in range(3)) for i in range(len(tg)) if tg[i] != 0)
        if got != sorted(want):
            bad = dict(case='3D box, periodic flags %s' % (fl,), ghosts=len(got), expected=len(want), missing=sorted(set(want) - set(got))[:6], extra=sorted(set(got) - set(want))[:6]); break
if bad is None:
    # every mix of none / periodic / mirror per axis in 3D, particles in the
    # corners, velocities, two updates: the ghosts are exactly the images
    # (the mirror pass also reflects the periodic ghosts)
    from collections import Counter
    rng = np.random.RandomState(3)
    for trial in range(d.get('trials', 4)):
        P = []
        for i in range(14):
            P.append([round(float({0: 0.01 + 0.08 * rng.rand(), 1: 0.91 + 0.08 * rng.rand()}.get(rng.randint(3), 0.3 + 0.4 * rng.rand())), 6) for a in range(3)])
        U = rng.rand(14, 3).round(4)
        nl = 1 + trial % 2; L = nl * 2.0 * 0.05
        for kinds in itertools.product('npm', repeat=3):
            if all(k == 'n' for k in kinds) or 'm' not in kinds: continue
            kw = {}
            for a, k in zip('xyz', kinds):
                if k == 'p': kw['periodic_in_' + a] = True
                if k == 'm': kw['mirror_in_' + a] = True
            pa = get_particle_array(name='a', x=[p[0] for p in P], y=[p[1] for p in P], z=[p[2] for p in P], h=0.05, u=U[:, 0], v=U[:, 1], w=U[:, 2])
            dm = DomainManager(xmin=0, xmax=1, ymin=0, ymax=1, zmin=0, zmax=1, n_layers=nl, **kw)
            nn = LinkedListNNPS(dim=3, particles=[pa], domain=dm, radius_scale=2.0)
            for rnd in range(2):
                want = []
                for p, vel in zip(P, U):
                    opts = []
                    for a, kind in enumerate(kinds):
                        o = [(0, p[a], 1.0)]
                        if kind == 'p':
                            if p[a] - 0 <= L: o.append((1, p[a] + 1, 1.0))
                            if 1 - p[a] <= L: o.append((1, p[a] - 1, 1.0))
                        elif kind == 'm':
                            if p[a] - 0 <= L: o.append((1, -p[a], -1.0))
                            if 1 - p[a] <= L: o.append((1, 2 - p[a], -1.0))
                        opts.append(o)
                    for combo in itertools.product(*opts):
                        if not any(c[0] for c in combo): continue
                        want.append(tuple(round(c[1], 9) for c in combo) + tuple(round(float(c[2] * vel[a]), 9) for a, c in enumerate(combo)))
                tg = pa.get('tag', only_real_particles=False)
                G = [pa.get(k, only_real_particles=False) for k in 'xyzuvw']
                got = [tuple(round(float(G[a][i]), 9) for a in range(6)) for i in range(len(tg)) if tg[i] != 0]
                if Counter(got) != Counter(want):
                    mi = list((Counter(want) - Counter(got)).elements())[:3]; exr = list((Counter(got) - Counter(want)).elements())[:3]
                    bad = dict(case='3D box, axes (n=open, p=periodic, m=mirror) %s, n_layers %d, update %d' % (''.join(kinds), nl, rnd + 1),
                               particles=P, ghosts=len(got), expected=len(want), missing_images_xyzuvw=mi, spurious_images_xyzuvw=exr); break
                nn.update_domain(); nn.update()
            if bad: break
        if bad: break
if bad is None:
    # one DomainManager serving a second NNPS with other (and more) arrays
    dm = DomainManager(xmin=0, xmax=1, periodic_in_x=True)
    a = get_particle_array(name='a', x=np.arange(0.05, 1, 0.1), h=0.05)
    a.add_property('foo')
    nn = LinkedListNNPS(dim=1, particles=[a], domain=dm)
    b = get_particle_array(name='b', x=np.arange(0.05, 1, 0.1), h=0.05)
    c = get_particle_array(name='c', x=np.arange(0.02, 1, 0.1), h=0.05)
    try:
        nn2 = LinkedListNNPS(dim=1, particles=[b, c], domain=dm)
        if 'foo' in b.properties:
            bad = dict(case='DomainManager re-used for other arrays', problem='array b acquired property foo of the array served before')
        else:
            gb = sorted(round(float(v), 9) for v, t in zip(b.get('x', only_real_particles=False), b.get('tag', only_real_particles=False)) if t != 0)
            # layer = n_layers (2) * radius_scale (2) * h (0.05) = 0.2
            if gb != [-0.15, -0.05, 1.05, 1.15]:
                bad = dict(case='DomainManager re-used for other arrays', ghosts_of_b=gb, expected=[-0.15, -0.05, 1.05, 1.15])
    except Exception as e:
        bad = dict(case='DomainManager re-used for more arrays than before', raised='%s: %s' % (type(e).__name__, e))
if bad is None:
    # two arrays with different smoothing lengths: the ghost layer of EVERY
    # array is n_layers * radius_scale * (largest h over all arrays)
    xc = np.arange(0.0625, 1, 0.125); xf = np.arange(0.015625, 1, 0.03125)
    for order in (0, 1):
        coarse = get_particle_array(name='coarse', x=xc, h=0.0625)
        fine = get_particle_array(name='fine', x=xf, h=0.015625)
        arrs = [coarse, fine] if order == 0 else [fine, coarse]
        dm = DomainManager(xmin=0, xmax=1, periodic_in_x=True, n_layers=2)
        nn = LinkedListNNPS(dim=1, particles=arrs, domain=dm, radius_scale=2.0)
        L = 2 * 2.0 * 0.0625
        for pa_, xs in ((coarse, xc), (fine, xf)):
            want = sorted([float(v) + 1.0 for v in xs if v - 0.0 <= L] + [float(v) - 1.0 for v in xs if 1.0 - v <= L])
            tg = pa_.get('tag', only_real_particles=False)
            got = sorted(float(v) for v, t in zip(pa_.get('x', only_real_particles=False), tg) if t != 0)
            if got != want:
                bad = dict(case='periodic x, coarse (h=0.0625) and fine (h=0.015625) arrays, order %d' % order, array=pa_.name,
                           ghosts=len(got), expected=len(want), missing=sorted(set(want) - set(got))[:6]); break
        if bad: break
print(json.dumps(dict(bad=bad)))
'''


def replay_built(model, ob):
    import os
    import shutil
    import subprocess
    import tempfile
    from pyvc.repo import REPO_ROOT
    if os.environ.get('PYVC_NO_BUILD_REPLAY'):
        return dict(reproduced=False, note='build replay disabled')
    try:
        dst, msg = native.shared_build()
        if dst is None:
            return dict(reproduced=False, note=msg)
        r = native.run_venv(REPLAY, dict(built=dst), timeout=900, cwd='/tmp')
        if r['bad']:
            return dict(reproduced=True, how='nnps_base built from the '
                        'working tree', **r['bad'])
        return dict(reproduced=False)
    except Exception as e:
        return dict(reproduced=False, note=str(e)[-300:])


def task_native(ctx):
    """BOUNDED stand-in, never counted as proved: the replay scenarios run on
    the extensions built from the working tree on EVERY run, not only when an
    obligation fails.  The composition contracts state how the ghost buffer
    is put together; that this yields every face / edge / corner image
    exactly once is a lemma outside the generator, and a contract written
    from the code can encode a defect of the code (it did: 25b2043).  The
    scenarios compare with the property's own definition of the images."""
    import os
    if os.environ.get('PYVC_NO_BUILD_REPLAY'):
        ctx.note('native scenarios skipped: PYVC_NO_BUILD_REPLAY set '
                 '(development)')
        return
    trials = 12 if ctx.tier == 'thorough' else 4
    dst, msg = native.shared_build()
    if dst is None:
        raise RuntimeError('extensions could not be built: %s' % msg)
    try:
        r = native.run_venv(REPLAY, dict(built=dst, trials=trials), timeout=1800,
                            cwd='/tmp')
    except RuntimeError as e:
        # the real code died under the scenarios (segfault, abort): a
        # failing case, not a checker error
        ctx.bounded_check('native.process_died', 'the scenarios of this '
                          'stand-in, run in one process', 1, False,
                          dict(problem='the process running the real '
                               'code died', output=str(e)[-400:]))
        return
    bound = ('9 scenario groups on the built extensions: box wrap across '
             'every face of a non-cubic box; mirror corner velocities; two '
             'and three arrays; three updates; particles exactly on the '
             'layer boundary; all 7 periodic flag combinations in 3D; all 19 '
             'mixes of open/periodic/mirror axes with a mirror axis x %d '
             'random corner-heavy particle sets x n_layers 1,2 x 2 updates '
             '(positions and velocities of every ghost, as multisets); two '
             'smoothing-length scales' % trials)
    if r['bad']:
        ctx.bounded_check('native.' + str(r['bad'].get('case'))[:80], bound,
                          1, False, r['bad'])
    else:
        ctx.bounded_check('native.ghost_scenarios', bound, 9, True,
                          'every scenario agrees with the definition of '
                          'the images')


# --------------------------------------------------------------------- wrap
def task_wrap(ctx, repo, m):
    cls = 'CPUDomainManager'
    fn = m.methods(cls)['_box_wrap_periodic']
    W = m.path
    n = z3.Int('np')
    arrs = {a: carr(a, length=n) for a in AX}
    old = {a: arrs[a].attrs['data'].arr for a in AX}
    paw = SymObject(None, dict(x=arrs['x'], y=arrs['y'], z=arrs['z']), 'paw')
    obj = dm_self(m, cls, pa_wrappers=[paw])
    A = obj.attrs

    def wrapped(a, new, o_):
        lo, hi, T, per = A[a + 'min'], A[a + 'max'], A[a + 'translate'], \
            A['periodic_in_' + a]
        return z3.And(
            z3.Implies(z3.Not(per), new == o_),
            z3.Implies(per, z3.And(
                z3.Or(new == o_, new == o_ + T, new == o_ - T),
                z3.Implies(z3.And(o_ >= lo - T, o_ <= hi + T),
                           z3.And(new >= lo, new <= hi)),
                z3.Implies(z3.And(o_ >= lo, o_ <= hi), new == o_))))

    def inv(ex, st):
        i = S.to_z3(st.env['i'])
        k = z3.Int('k')
        parts = [i >= 0, i <= n]
        for a in AX:
            cur = st.env[a].attrs['data'].arr
            parts.append(z3.ForAll([k], z3.Implies(z3.And(0 <= k, k < i),
                                                   wrapped(a, z3.Select(
                                                       cur, k), z3.Select(
                                                           old[a], k)))))
            parts.append(z3.ForAll([k], z3.Implies(z3.Or(k >= i, k < 0),
                                                   z3.Select(cur, k) ==
                                                   z3.Select(old[a], k))))
        return z3.And(*parts)
    k_inner = loops_over(fn, 'np')[0]
    ex = Executor(repo, m, qualname=cls + '._box_wrap_periodic', merge=True,
                  prune=False, loop_specs={('_box_wrap_periodic', k_inner):
                                           LoopSpec(inv=[('wrapped', inv)])})
    pre = [n >= 0]
    for a in AX:
        pre += [A[a + 'translate'] == A[a + 'max'] - A[a + 'min'],
                z3.Implies(A['periodic_in_' + a], A[a + 'translate'] > 0)]
    outs = ex.exec_function(fn, dict(self=obj), State(pc=pre))
    ctx.function(m, fn, cls + '._box_wrap_periodic', ex.dropped)
    obs = [o for o in ex.obligations if o.kind in ('inv-entry', 'inv-step',
                                                   'index')]
    for i_, o in enumerate(outs):
        k = z3.Int('k')
        for a in AX:
            cur = o.state.env['self'].attrs['pa_wrappers'][0].attrs[
                a].attrs['data'].arr
            obs.append(Obligation('wrap.post.%s.%d' % (a, i_), o.pc,
                                  z3.ForAll([k], z3.Implies(
                                      z3.And(0 <= k, k < n),
                                      wrapped(a, z3.Select(cur, k),
                                              z3.Select(old[a], k)))), W))
    for o_ in obs:
        o_.extra = dict(o_.extra or {}, backends=['z3'])
    ctx.prove('wrap.back_into_the_box', obs, replay=replay_built,
              sample=True, use_nf=False)
    # translate = max - min is what the constructor sets
    bm = m.methods('DomainManagerBase').get('__init__')
    ok = False
    if bm is not None:
        src = ast.unparse(bm)
        ok = all(('self.%stranslate = %smax - %smin' % (a, a, a)) in
                 src.replace('(', '').replace(')', '') for a in AX)
        ctx.function(m, bm, 'DomainManagerBase.__init__')
    ctx.prove('init.translate', [Obligation(
        'translate', [], z3.BoolVal(bool(ok)), W)],
        info='structural: self.<a>translate = <a>max - <a>min')


# ------------------------------------------------------------------ helpers
def owner(m, meth):
    for cn in m.classes:
        if meth in m.methods(cn):
            return cn
    raise VCError('method %s not found' % meth)


def task_helpers(ctx, repo, m):
    cls = owner(m, '_add_to_array')
    W = m.path
    obs = []
    n = z3.Int('len')
    # _add_to_array
    fn = m.methods(cls)['_add_to_array']
    a = carr('arr', length=n)
    old = a.attrs['data'].arr
    disp, start = z3.Real('disp'), z3.Int('start')

    def inv_add(ex, st):
        i = S.to_z3(st.env['i'])
        cur = st.env['arr'].attrs['data'].arr
        k = z3.Int('k')
        return z3.And(i >= 0, z3.ForAll([k], z3.Select(cur, k) == z3.If(
            z3.And(k >= start, k < start + i), z3.Select(old, k) + disp,
            z3.Select(old, k))))
    obj = SymObject(cls, {}, 'self')
    obj.module = m
    ex = Executor(repo, m, qualname=cls + '._add_to_array', loop_specs={
        ('_add_to_array', 0): LoopSpec(inv=[('added', inv_add)])})
    outs = ex.exec_function(fn, dict(self=obj, arr=a, disp=disp,
                                     start=start),
                            State(pc=[n >= 0, start >= 0, start <= n]))
    ctx.function(m, fn, cls + '._add_to_array', ex.dropped)
    obs += [o for o in ex.obligations if o.kind in ('inv-entry', 'inv-step',
                                                    'index')]
    for i_, o in enumerate(outs):
        cur = o.state.env['arr'].attrs['data'].arr
        k = z3.Int('k')
        obs.append(Obligation('add_to_array.post.%d' % i_, o.pc, z3.ForAll(
            [k], z3.Select(cur, k) == z3.If(z3.And(k >= start, k < n),
                                            z3.Select(old, k) + disp,
                                            z3.Select(old, k))), W))
    # _mul_to_array / _add_array_to_array
    for name in ('_mul_to_array', '_add_array_to_array'):
        fn = m.methods(cls)[name]
        a = carr('arr', length=n)
        old = a.attrs['data'].arr
        tr = carr('translate', length=n)
        T = tr.attrs['data'].arr
        val = z3.Real('val')

        def newv(k, name=name, old=old, T=T):
            return z3.Select(old, k) * val if name == '_mul_to_array' else \
                z3.Select(old, k) + z3.Select(T, k)

        def inv2(ex, st, newv=newv, old=old):
            i = S.to_z3(st.env['i'])
            cur = st.env['arr'].attrs['data'].arr
            k = z3.Int('k')
            return z3.And(i >= 0, i <= n, z3.ForAll([k], z3.Select(
                cur, k) == z3.If(z3.And(k >= 0, k < i), newv(k),
                                 z3.Select(old, k))))
        ex = Executor(repo, m, qualname=cls + '.' + name, loop_specs={
            (name, 0): LoopSpec(inv=[('cells', inv2)])})
        args = dict(self=obj, arr=a)
        if name == '_mul_to_array':
            args['val'] = val
        else:
            args['translate'] = tr
        outs = ex.exec_function(fn, args, State(pc=[n >= 0]))
        ctx.function(m, fn, cls + '.' + name, ex.dropped)
        obs += [o for o in ex.obligations if o.kind in ('inv-entry',
                                                        'inv-step', 'index')]
        for i_, o in enumerate(outs):
            cur = o.state.env['arr'].attrs['data'].arr
            k = z3.Int('k')
            obs.append(Obligation('%s.post.%d' % (name, i_), o.pc, z3.ForAll(
                [k], z3.Select(cur, k) == z3.If(z3.And(k >= 0, k < n),
                                                newv(k), z3.Select(old, k))),
                W))
    for o_ in obs:
        o_.extra = dict(o_.extra or {}, backends=['z3'])
    ctx.prove('helpers.array_loops', obs, use_nf=False)


# ------------------------------------------------------------- composition
class ListStub(object):
    """LongArray / DoubleArray stand-in: what was appended since the last
    reset, as descriptors."""

    def __init__(self, name):
        self.name = name
        self.items = []

    def vc_clone(self, memo, clone):
        c = ListStub(self.name)
        c.items = list(self.items)
        return c

    def vc_getattr(self, name, ex, st, node):
        if name == 'reset':
            def reset(e, s_, a, k, n):
                self.items = []
                s_.trace.append(('reset', self.name))
            return Native(reset)
        if name == 'append':
            def app(e, s_, a, k, n):
                s_.trace.append(('append', self.name, a[0]))
                self.items.append(('one', a[0]))
            return Native(app)
        if name == 'length':
            return z3.Int('len_' + self.name)
        raise VCError('list stub .%s' % name)


class ArrStub(object):
    """A particle array (real or ghost buffer): records operations."""

    def __init__(self, name):
        self.name = name

    def vc_clone(self, memo, clone):
        return self

    def vc_getattr(self, name, ex, st, node):
        me = self
        if name == 'extract_particles':
            def f(e, s_, a, k, n):
                dest = a[1] if len(a) > 1 else k.get('dest_array')
                res = dest
                if dest is None:
                    cnt = s_.env.get('__ncopy__', 0) + 1
                    s_.env['__ncopy__'] = cnt
                    res = ArrStub('copy%d<%s[%s]>' % (cnt, me.name,
                                                     a[0].name))
                s_.trace.append(('extract', me.name, a[0].name,
                                 tuple(a[0].items),
                                 dest.name if dest is not None else None,
                                 k.get('align', True), res.name))
                return res
            return Native(f)
        if name == 'get_carray':
            return Native(lambda e, s_, a, k, n: ColStub(me.name, a[0]))
        if name == 'get_number_of_particles':
            def f(e, s_, a, k, n):
                if me.name.startswith('copy'):
                    return 3        # a non-empty copy (the empty case only
                    #                 skips the three operations)
                cnt = s_.env.get('__nsize__', 0) + 1
                s_.env['__nsize__'] = cnt
                v = z3.Int('size_%s_%d' % (me.name.split('<')[0], cnt))
                s_.trace.append(('size', me.name, v))
                return v
            return Native(f)
        if name == 'append_parray':
            return Native(lambda e, s_, a, k, n: s_.trace.append(
                ('append_parray', me.name, a[0].name)))
        if name == 'resize':
            return Native(lambda e, s_, a, k, n: s_.trace.append(
                ('resize', me.name, a[0] if a else None)))
        if name == 'empty_clone':
            def f(e, s_, a, k, n):
                s_.trace.append(('empty_clone', me.name))
                return ArrStub('ghost' + me.name[2:])
            return Native(f)
        if name in ('ensure_properties', 'set_num_real_particles'):
            return Native(lambda e, s_, a, k, n: s_.trace.append(
                (name, me.name)))
        if name == 'tag':
            return TagStub(me.name)
        raise VCError('array stub .%s' % name)


class TagStub(object):
    def __init__(self, name):
        self.name = name

    def vc_setitem(self, idx, v, ex, st, node):
        st.trace.append(('tag[:]=', self.name, v))


class ColStub(object):
    def __init__(self, arr, col):
        self.arr, self.col = arr, col
        self.name = '%s.%s' % (arr, col)
        self.data = SymArray('col_%s_%s' % (arr.split('<')[0], col))
        self.length = self.data.length

    def vc_clone(self, memo, clone):
        return self

    def length_at(self, st):
        """the column of a live array grows with it: the length read at a
        program point is that of the array then -- 0 for a ghost buffer
        nothing has been copied into yet on this path (buffers start empty:
        obligation buffers_start_empty), one symbol per number of copies
        made so far otherwise"""
        if not self.arr.startswith('ghost'):
            return self.length
        k = sum(1 for t in st.trace if t[0] == 'extract' and
                t[4] == self.arr)
        if k == 0:
            return z3.IntVal(0)
        v = z3.Int('len_%s_after_%d_copies' % (self.arr, k))
        st.pc.append(v >= 0)
        return v

    def vc_getattr(self, name, ex, st, node):
        if name == 'data':
            return self.data
        if name == 'length':
            return self.length_at(st)
        raise VCError('column stub .%s' % name)


def scan_checks(spec_by_loop, m, W, mode, A, L):
    """per-iteration contract of every scan loop (arbitrary iteration)."""
    obs = []
    for (k, (log, cols, lists)) in spec_by_loop.items():
        head = log['head']
        if head is None:
            continue
        n0 = len(head.trace)
        iv = S.to_z3(head.env['i'])
        for j, (s1, sig) in enumerate(log['ends']):
            ev = [t for t in s1.trace[n0:] if t[0] == 'append']
            got = {}
            for t in ev:
                got.setdefault(t[1], []).append(t[2])
            for ax, (lo_name, hi_name, tlo, thi) in lists.items():
                col = cols[ax]
                xi = z3.Select(col, iv)
                flag = A[('periodic_in_' if mode == 'periodic' else
                          'mirror_in_') + ax]
                lo, hi = A[ax + 'min'], A[ax + 'max']
                for (nm, tnm, cond, tval) in (
                        (lo_name, tlo, xi - lo <= L, -2 * (xi - lo)),
                        (hi_name, thi, hi - xi <= L, 2 * (hi - xi))):
                    want = z3.And(flag, cond) if not isinstance(
                        flag, bool) else (cond if flag else z3.BoolVal(
                            False))
                    apps = got.get(nm, [])
                    if apps:
                        g = z3.And(want, z3.BoolVal(len(apps) == 1),
                                   S.to_z3(apps[0]) == iv)
                    else:
                        g = z3.Not(want)
                    obs.append(Obligation('scan.%d.%s.%d' % (k, nm, j),
                                          s1.pc, g, W))
                    if mode == 'mirror':
                        tapps = got.get(tnm, [])
                        if apps:
                            g2 = z3.And(z3.BoolVal(len(tapps) == 1),
                                        S.to_real(tapps[0]) == tval
                                        if tapps else z3.BoolVal(False))
                        else:
                            g2 = z3.BoolVal(not tapps)
                        obs.append(Obligation('scan.%d.%s.%d' % (k, tnm, j),
                                              s1.pc, g2, W))
    return obs


def task_compose(ctx, repo, m, mode):
    _compose(ctx, repo, m, mode, True)
    if mode == 'periodic':
        # the very first update: no ghost buffers yet
        _compose(ctx, repo, m, mode, False)
    # the composition above is for all three axes switched on; for EVERY
    # combination of the axis flags each scan still covers the whole column
    # it reads (the edge images of a y-z periodic box come from the y images)
    _compose(ctx, repo, m, mode, True, any_flags=True)


def _compose(ctx, repo, m, mode, have_ghosts, any_flags=False):
    cls = 'CPUDomainManager'
    mname = '_create_ghosts_' + mode
    fn = m.methods(cls)[mname]
    W = m.path
    narrays = 2
    lists = {}

    def mk(kind):
        def f(ex, st, a, k, n):
            # name after the variable being assigned: use creation order
            cnt = st.env.get('__nlists__', 0)
            st.env['__nlists__'] = cnt + 1
            s_ = ListStub('%s%d' % (kind, cnt))
            return s_
        return Native(f)
    paws, pas, ghosts = [], [], []
    for i in range(narrays):
        pa = ArrStub('pa%d' % i)
        cols = {a: carr('pa%d_%s' % (i, a), length=z3.Int('np%d' % i))
                for a in AX}
        # (h is not read by the unchanged code: the layer thickness is the
        # manager's cell_size, the same for every array)
        paw = SymObject(None, dict(
            pa=pa, x=cols['x'], y=cols['y'], z=cols['z'],
            h=SymObject(None, dict(maximum=z3.Real('hmax%d' % i),
                                   minimum=z3.Real('hmin%d' % i)), 'h')),
            'paw%d' % i)
        paws.append(paw)
        pas.append(pa)
        ghosts.append(ArrStub('ghost%d' % i))
    flags = {}
    for a in AX:
        nm_ = ('periodic_in_' if mode == 'periodic' else 'mirror_in_') + a
        flags[nm_] = z3.Bool('flag_' + nm_) if any_flags else True
    obj = dm_self(m, cls, pa_wrappers=paws, narrays=narrays,
                  copy_props=[None, None],
                  ghosts=list(ghosts) if have_ghosts else [], **flags)
    A = obj.attrs
    L = A['n_layers'] * A['cell_size']
    tagp = mode if have_ghosts else mode + '.first_update'
    # loop specs for every scan loop
    ks = loops_over(fn, 'np')
    specs = {}
    for k in ks:
        specs[k] = LoopSpec(inv=[('range', lambda ex, st: S.to_z3(
            st.env['i']) >= 0)])
    ex = Executor(repo, m, qualname=cls + '.' + mname, merge=False,
                  prune=False,
                  loop_specs={(mname, k): specs[k] for k in ks},
                  contracts={
                      cls + '._add_to_array': CalleeContract(
                          lambda e, s_, a, k, n: s_.trace.append(
                              ('add_to', a[1].name, a[2],
                               k.get('start', a[3] if len(a) > 3 else 0)))),
                      'DomainManagerBase._add_to_array': CalleeContract(
                          lambda e, s_, a, k, n: s_.trace.append(
                              ('add_to', a[1].name, a[2],
                               k.get('start', a[3] if len(a) > 3 else 0)))),
                      cls + '._add_array_to_array':
                      CalleeContract(lambda e, s_, a, k, n: s_.trace.append(
                          ('add_arr', a[1].name, a[2].name,
                           tuple(a[2].items)))),
                      cls + '._mul_to_array': CalleeContract(
                          lambda e, s_, a, k, n: s_.trace.append(
                              ('mul', a[1].name, a[2])))})
    ex.spec_env['LongArray'] = mk('L')
    ex.spec_env['DoubleArray'] = mk('D')
    ex.spec_env['Ghost'] = 2
    ex.spec_env['ParticleArray'] = Native(
        lambda e, s_, a, k, n: ArrStub('added%d' % (
            s_.env.__setitem__('__nadded__', s_.env.get('__nadded__', 0) + 1)
            or s_.env['__nadded__'])))

    # after a scan loop, each list the body may append to holds "the scan of
    # this loop in this array iteration": install that abstract content
    scan_id = [0]

    def make_exit_hook(k):
        def hook(se):
            log = specs[k].log
            head = log['head']
            n0 = len(head.trace) if head is not None else 0
            names = set()
            for (s1, sig) in log['ends']:
                for t in s1.trace[n0:]:
                    if t[0] == 'append':
                        names.add(t[1])
            ai = se.env.get('array_index')
            for v in list(se.env.values()):
                if isinstance(v, ListStub) and v.name in names:
                    v.items = v.items + [('scan', k, ai)]
            se.trace.append(('scan_done', k, ai))
        return hook
    for k in ks:
        specs[k].exit_hook = make_exit_hook(k)
    try:
        outs = ex.exec_function(fn, dict(self=obj), State(
            pc=[A['cell_size'] > 0, A['n_layers'] >= 1]))
    except VCError as e:
        ctx.outside(mode + ('' if have_ghosts else '.first_update') +
                    ('.anyflags' if any_flags else '') + '.compose', str(e))
        return
    ctx.function(m, fn, cls + '.' + mname, ex.dropped)
    # scan contracts: which column / lists each scan loop works on
    obs = []
    # map variable names -> stub names from the final env of one outcome
    if not outs:
        ctx.outside(mode + ('' if have_ghosts else '.first_update') +
                    ('.anyflags' if any_flags else '') + '.compose',
                    'no outcome')
        return
    env = outs[0].state.env
    var = {nm: v.name for nm, v in env.items() if isinstance(v, ListStub)}
    for k in ks:
      for li, log in enumerate(specs[k].logs):
        head = log['head']
        if head is None:
            continue
        henv = head.env
        cols = {}
        for a in AX:
            c = henv.get(a)
            if isinstance(c, SymObject):
                cols[a] = c.attrs['data'].arr
            elif isinstance(c, ColStub):
                cols[a] = c.data.arr
        body_lists = set()
        n0 = len(head.trace)
        for (s1, sig) in log['ends']:
            for t in s1.trace[n0:]:
                if t[0] == 'append':
                    body_lists.add(t[1])
        inv_var = {v: kname for kname, v in var.items()}
        cands = {inv_var.get(nm): nm for nm in body_lists}
        lst = {}
        for a in AX:
            if (a + '_low') in cands:
                lst[a] = (cands[a + '_low'], cands.get(a + '_high'),
                          cands.get(a + 't_low'), cands.get(a + 't_high'))
        if not lst and 'low' in cands:
            # a corner scan over the ghost buffer: axis y for the first such
            # loop in source order, z for the second
            corner = [k2 for k2 in ks if k2 != ks[0]]
            a = AX[1 + corner.index(k)]
            lst[a] = (cands['low'], cands.get('high'),
                      cands.get('low_translate'),
                      cands.get('high_translate'))
        if not any_flags:
            sub = scan_checks({k: (log, cols, lst)}, m, W, mode, A, L)
            for o_ in sub:
                o_.name = 'exec%d.%s' % (li, o_.name)
            obs += sub
        # the scan covers EVERY particle of the column it reads (ghosts
        # appended by an earlier pass included)
        ent = log['entry']
        xc = ent.env.get('x')
        if isinstance(xc, SymObject):
            xlen = xc.attrs['length']
        elif isinstance(xc, ColStub):
            xlen = xc.length_at(ent)
        else:
            xlen = getattr(xc, 'length', None)
        lp = [x_ for x_ in _all_loops(fn)][k]
        bound = None
        try:
            bound = ex.eval(lp.iter.args[-1] if len(lp.iter.args) < 3 else
                            lp.iter.args[1], ent)
        except Exception:
            pass
        okb = xlen is not None and bound is not None and \
            len(lp.iter.args) == 1
        obs.append(Obligation('exec%d.scan.%d.covers_whole_column' % (li, k),
                              ent.pc, S.to_z3(S.cmp('==', bound, xlen))
                              if okb else z3.BoolVal(False), W))
    if any_flags:
        nscan = sum(1 for o_ in obs if 'covers_whole_column' in o_.name)
        obs.append(Obligation('anyflags.scans_found', [],
                              z3.BoolVal(nscan >= 6), W,
                              extra=dict(scans=nscan)))
        for o_ in obs:
            o_.extra = dict(o_.extra or {}, backends=['z3'])
        ctx.prove('%s.every_flag_combination.scans_cover_their_column' % mode,
                  obs, replay=replay_built, use_nf=False)
        return
    # composition trace per outcome
    for i_, o in enumerate(outs):
        ok, why = check_composition(o.state.trace, var, mode, narrays, ks)
        obs.append(Obligation('%s.compose.%d' % (mode, i_), o.pc,
                              z3.BoolVal(bool(ok)), W, extra=dict(why=why)))
        if mode == 'periodic':
            # every ghost buffer is empty before images are collected in it:
            # freshly cloned on the first update, resized to 0 afterwards
            tr = o.state.trace
            why2 = ''
            for ai in range(narrays):
                buf = 'ghost%d' % ai
                first = [j for j, t in enumerate(tr) if t[0] == 'extract'
                         and t[4] == buf]
                prep = [j for j, t in enumerate(tr) if (
                    t[0] == 'resize' and t[1] == buf and str(t[2]) == '0')
                    or (t[0] == 'empty_clone' and t[1] == 'pa%d' % ai)]
                if not first or not prep or min(prep) > min(first) or \
                        len(prep) != 1:
                    why2 = 'buffer of array %d not emptied exactly once ' \
                        'before its images are collected' % ai
            obs.append(Obligation('%s.buffers_start_empty.%d' % (mode, i_),
                                  o.pc, z3.BoolVal(not why2), W,
                                  extra=dict(why=why2)))
    for o_ in obs:
        o_.extra = dict(o_.extra or {}, backends=['z3'])
    ctx.prove('%s.ghost_construction' % tagp, obs, replay=replay_built,
              sample=True, use_nf=False,
              info='; '.join(sorted(set(o_.extra.get('why', '') for o_ in obs
                                        if o_.extra.get('why')))[:3]))


def _all_loops(fn):
    import ast as _ast
    return sorted([x for x in _ast.walk(fn) if isinstance(x, (_ast.For,
                                                              _ast.While))],
                  key=lambda x: (x.lineno, x.col_offset))


def check_composition(trace, var, mode, narrays, ks):
    """The sequence of array operations against the documented construction.
    Returns (ok, reason)."""
    inv = {v: k for k, v in var.items()}
    if mode == 'mirror':
        return check_mirror(trace, inv, narrays, ks)
    ops = [t for t in trace if t[0] in ('extract', 'add_to', 'add_arr',
                                        'mul', 'append_parray', 'tag[:]=')]
    pos = 0
    main_scans = []       # scan loop ordinals, per array

    def content_ok(items, array_index):
        # exactly one scan, of this array iteration
        return len(items) == 1 and items[0][0] == 'scan' and \
            items[0][2] == array_index
    for ai in range(narrays):
        buf = 'ghost%d' % ai if mode == 'periodic' else None
        for axn, ax in enumerate(AX):
            sign = {'low': +1, 'high': -1}
            if ax == 'x':
                seq = [('pa', 'x_low', 'low'), ('pa', 'x_high', 'high')]
            else:
                seq = [('buf', 'low', 'low'), ('buf', 'high', 'high'),
                       ('pa', ax + '_high', 'high'),
                       ('pa', ax + '_low', 'low')]
            for (src, lname, side) in seq:
                if pos >= len(ops) or ops[pos][0] != 'extract':
                    return False, 'array %d axis %s: expected an extract, ' \
                        'got %r' % (ai, ax, ops[pos][:3] if pos < len(ops)
                                    else None)
                _, sname, lst, items, dest, align = ops[pos][:6]
                pos += 1
                if inv.get(lst) != lname:
                    return False, 'array %d axis %s: extract uses list %s, ' \
                        'expected %s' % (ai, ax, inv.get(lst), lname)
                if not content_ok(items, ai):
                    return False, 'array %d axis %s: list %s holds %r ' \
                        '(stale or unfilled)' % (ai, ax, lname, items)
                if mode == 'periodic':
                    want_src = 'pa%d' % ai if src == 'pa' else buf
                    if sname != want_src or dest != buf or align is not \
                            False:
                        return False, 'array %d axis %s: extract %s -> %s ' \
                            'align=%s' % (ai, ax, sname, dest, align)
                    if pos >= len(ops) or ops[pos][0] != 'add_to':
                        return False, 'no shift after extract (%s)' % lname
                    _, col, disp, start = ops[pos]
                    pos += 1
                    if col != '%s.%s' % (buf, ax):
                        return False, 'array %d: images of %s shifted ' \
                            'along %s' % (ai, lname, col)
                    tname = str(disp).replace(' ', '')
                    want = ax + 'translate' if side == 'low' else \
                        '-' + ax + 'translate'
                    if tname not in (want, '-1*' + ax + 'translate'
                                     if side == 'high' else want):
                        return False, 'array %d: %s shifted by %s' % (
                            ai, lname, disp)
                    # start = size of the buffer taken just before extract
                    prev = [t for t in trace if t[0] == 'size' and
                            t[1] == buf]
                    if not any(S.is_sym(start) and start.eq(t[2])
                               for t in prev):
                        return False, 'array %d: shift of %s does not ' \
                            'start at the old end of the buffer' % (ai,
                                                                   lname)
                else:
                    want_src = 'pa%d' % ai if src == 'pa' else None
                    if src == 'pa' and sname != want_src:
                        return False, 'mirror: extract from %s' % sname
                    if src == 'buf' and not sname.startswith('added'):
                        return False, 'mirror: corner extract from %s' % \
                            sname
                    # add_arr(copy.<ax>, translate list), mul(copy.<vel>,-1),
                    # append_parray(added, copy)
                    vel = {'x': 'u', 'y': 'v', 'z': 'w'}[ax]
                    tl = {'x_low': 'xt_low', 'x_high': 'xt_high',
                          'y_low': 'yt_low', 'y_high': 'yt_high',
                          'z_low': 'zt_low', 'z_high': 'zt_high',
                          'low': 'low_translate',
                          'high': 'high_translate'}[lname]
                    for (kind, chk) in (('add_arr', None), ('mul', None),
                                        ('append_parray', None)):
                        if pos >= len(ops) or ops[pos][0] != kind:
                            return False, 'mirror array %d %s: expected ' \
                                '%s, got %r' % (ai, lname, kind,
                                                ops[pos][:3] if pos <
                                                len(ops) else None)
                        t = ops[pos]
                        pos += 1
                        if kind == 'add_arr':
                            if not t[1].endswith('.' + ax) or \
                                    inv.get(t[2]) != tl:
                                return False, 'mirror: %s translated ' \
                                    'with %s along %s' % (lname,
                                                          inv.get(t[2]),
                                                          t[1])
                            if not content_ok(t[3], ai):
                                return False, 'mirror array %d: ' \
                                    'translation list %s holds %r (not ' \
                                    'reset between arrays?)' % (ai, tl,
                                                                t[3])
                        elif kind == 'mul':
                            if not t[1].endswith('.' + vel) or \
                                    str(t[2]) not in ('-1', '-1.0'):
                                return False, 'mirror array %d %s: ' \
                                    'velocity %s scaled by %s (expected ' \
                                    '%s * -1)' % (ai, lname, t[1], t[2],
                                                  vel)
        if pos + 1 >= len(ops) or ops[pos][0] != 'tag[:]=' or \
                ops[pos + 1][0] != 'append_parray' or \
                ops[pos + 1][1] != 'pa%d' % ai:
            return False, '%s array %d: images not tagged/appended' % (
                mode, ai)
        if str(ops[pos][2]) != '2':
            return False, '%s: images tagged %s' % (mode, ops[pos][2])
        if mode == 'periodic' and (ops[pos][1] != buf or
                                   ops[pos + 1][2] != buf):
            return False, 'periodic array %d: wrong buffer tagged/appended' \
                % ai
        pos += 2
    if pos != len(ops):
        return False, 'unexpected extra operations: %r' % (ops[pos][:3],)
    return True, ''


def check_mirror(trace, inv, narrays, ks):
    """The mirror construction, as constraints on the order of events (not a
    fixed sequence).  Per array: ten copies -- x: low_x(P), high_x(P); y and
    z: low/high OF THE IMAGES SO FAR, then high/low of P -- each translated
    along its own axis by the list filled in the same scan, its normal
    velocity negated, then appended to the image buffer `added`; and

      order     the corner scan of an axis reads the buffer after every copy
                of the earlier axes and before any copy of its own axis went
                in
      fresh     an index list filled by scanning the buffer is used (extract)
                before the buffer is appended to again: append_parray
                re-aligns its target (local-tagged entries move in front of
                ghost-tagged ones, which copies of periodic ghosts are), so
                the indices name other particles afterwards
      finally   the buffer is tagged Ghost and appended to the array.
    """
    ev = [t for t in trace if t[0] in ('extract', 'add_arr', 'mul',
                                       'append_parray', 'tag[:]=',
                                       'scan_done', 'add_to')]
    vel = {'x': 'u', 'y': 'v', 'z': 'w'}
    tl = {'x_low': 'xt_low', 'x_high': 'xt_high', 'y_low': 'yt_low',
          'y_high': 'yt_high', 'z_low': 'zt_low', 'z_high': 'zt_high',
          'low': 'low_translate', 'high': 'high_translate'}
    # sections: one per array, ending with append_parray(pa<i>, added..)
    ends = [j for j, t in enumerate(ev) if t[0] == 'append_parray' and
            t[1].startswith('pa')]
    if len(ends) != narrays:
        return False, 'mirror: images appended to the arrays %d times for ' \
            '%d arrays' % (len(ends), narrays)
    start = 0
    for ai, end in enumerate(ends):
        sec = ev[start:end + 1]
        start = end + 1
        buf = sec[-1][2]
        if sec[-1][1] != 'pa%d' % ai or not buf.startswith('added'):
            return False, 'mirror array %d: %s appended to %s' % (
                ai, buf, sec[-1][1])
        if len(sec) < 2 or sec[-2][0] != 'tag[:]=' or sec[-2][1] != buf or \
                str(sec[-2][2]) != '2':
            return False, 'mirror array %d: images not tagged Ghost just ' \
                'before they are appended' % ai
        marks = {}
        for j, t in enumerate(sec):
            if t[0] == 'scan_done':
                marks.setdefault(t[1], j)
        if sorted(marks) != sorted(ks):
            return False, 'mirror array %d: scans found %r' % (ai,
                                                               sorted(marks))
        axis_mark = {'y': marks[ks[1]], 'z': marks[ks[2]]}
        appends = [j for j, t in enumerate(sec[:-1])
                   if t[0] == 'append_parray']
        for j, t in enumerate(sec[:-2]):
            if t[0] == 'add_to':
                return False, 'mirror: constant shift of %s' % t[1]
            if t[0] == 'tag[:]=':
                return False, 'mirror array %d: stray tag assignment' % ai
        units = {}
        order = []
        for j, t in enumerate(sec[:-2]):
            if t[0] != 'extract':
                continue
            _, sname, lst, items, dest, align, cname = t
            lname = inv.get(lst)
            if dest is not None:
                return False, 'mirror: extract into %s' % dest
            if lname in ('low', 'high'):
                if not (len(items) == 1 and items[0][0] == 'scan' and
                        items[0][1] in (ks[1], ks[2])):
                    return False, 'mirror array %d: list %s holds %r ' \
                        '(stale or unfilled)' % (ai, lname, items)
                ax = 'y' if items[0][1] == ks[1] else 'z'
                key = (ax, lname)
                if not sname == buf:
                    return False, 'mirror array %d: corner extract from ' \
                        '%s' % (ai, sname)
                mk_ = axis_mark[ax]
                if j < mk_:
                    return False, 'mirror array %d axis %s: %s used ' \
                        'before its scan' % (ai, ax, lname)
                between = [a_ for a_ in appends if mk_ < a_ < j and
                           sec[a_][1] == buf]
                if between:
                    return False, 'mirror array %d axis %s: the image ' \
                        'buffer is appended to (and re-aligned) between ' \
                        'the scan that filled `%s` and the extract that ' \
                        'uses it: the indices are stale when the buffer ' \
                        'holds copies of periodic ghosts' % (ai, ax, lname)
            elif lname in ('x_low', 'x_high', 'y_low', 'y_high', 'z_low',
                           'z_high'):
                ax = lname[0]
                key = (ax, lname)
                if sname != 'pa%d' % ai:
                    return False, 'mirror: extract from %s' % sname
                if not (len(items) == 1 and items[0][0] == 'scan' and
                        items[0][1] == ks[0] and items[0][2] == ai):
                    return False, 'mirror array %d axis %s: list %s holds ' \
                        '%r (stale or unfilled)' % (ai, ax, lname, items)
            else:
                return False, 'mirror: extract uses list %s' % lname
            if items and items[0][2] != ai:
                return False, 'mirror array %d: list %s filled for array ' \
                    '%s' % (ai, lname, items[0][2])
            if key in units:
                return False, 'mirror array %d: %s extracted twice' % (
                    ai, key[1])
            units[key] = dict(j=j, ax=ax, lname=lname, lst=lst, src=sname,
                              name=cname, scan=items[0][1])
            order.append(key)
        need = [('x', 'x_low'), ('x', 'x_high')]
        for ax in ('y', 'z'):
            need += [(ax, 'low'), (ax, 'high'), (ax, ax + '_high'),
                     (ax, ax + '_low')]
        if sorted(units) != sorted(need):
            return False, 'mirror array %d: copies made %r' % (
                ai, sorted(set(need) ^ set(units)))
        used = set()
        for key, u in units.items():
            cname = u['name']
            mine = [(j, t) for j, t in enumerate(sec[:-2]) if (
                t[0] in ('add_arr', 'mul') and
                t[1].rsplit('.', 1)[0] == cname) or (
                t[0] == 'append_parray' and t[2] == cname)]
            if any(j < u['j'] for (j, t) in mine):
                return False, 'mirror array %d: copy of %s used before ' \
                    'it is made' % (ai, u['lname'])
            kinds = [t[0] for (j, t) in mine]
            if sorted(kinds) != ['add_arr', 'append_parray', 'mul'] or \
                    kinds[-1] != 'append_parray':
                return False, 'mirror array %d %s: operations on the copy ' \
                    'are %r (expected translate, negate, then append)' % (
                        ai, u['lname'], kinds)
            for (j, t) in mine:
                used.add(j)
                if t[0] == 'add_arr':
                    if not t[1].endswith('.' + u['ax']) or \
                            inv.get(t[2]) != tl[u['lname']]:
                        return False, 'mirror: %s translated with %s ' \
                            'along %s' % (u['lname'], inv.get(t[2]), t[1])
                    it = t[3]
                    if not (len(it) == 1 and it[0][0] == 'scan' and
                            it[0][2] == ai and it[0][1] == u['scan']):
                        return False, 'mirror array %d: translation list ' \
                            '%s holds %r (not reset between arrays?)' % (
                                ai, tl[u['lname']], it)
                elif t[0] == 'mul':
                    if not t[1].endswith('.' + vel[u['ax']]) or \
                            str(t[2]) not in ('-1', '-1.0'):
                        return False, 'mirror array %d %s: velocity %s ' \
                            'scaled by %s (expected %s * -1)' % (
                                ai, u['lname'], t[1], t[2], vel[u['ax']])
                else:
                    if t[1] != buf:
                        return False, 'mirror array %d: copy of %s ' \
                            'appended to %s' % (ai, u['lname'], t[1])
                    u['app'] = j
        # order: corner scans see exactly the copies of the earlier axes
        for ax, earlier in (('y', ('x',)), ('z', ('x', 'y'))):
            mk_ = axis_mark[ax]
            for key, u in units.items():
                if u['ax'] in earlier and u['app'] > mk_:
                    return False, 'mirror array %d: the %s corner scan ' \
                        'runs before the %s images are in the buffer' % (
                            ai, ax, u['lname'])
                if u['ax'] == ax and u['app'] < mk_:
                    return False, 'mirror array %d: %s images in the ' \
                        'buffer before the %s corner scan' % (ai, ax, ax)
                if ax == 'y' and u['ax'] == 'z' and u['app'] < mk_:
                    return False, 'mirror array %d: z images before the ' \
                        'y corner scan' % ai
        extra = [t for j, t in enumerate(sec[:-2]) if j not in used and
                 t[0] in ('add_arr', 'mul', 'append_parray')]
        if extra:
            return False, 'mirror array %d: unexpected extra operations: ' \
                '%r' % (ai, extra[0][:3])
    if start != len(ev) and any(t[0] != 'scan_done' for t in ev[start:]):
        return False, 'mirror: operations after the last array'
    return True, ''


# ------------------------------------------------------------------- update
def task_update(ctx, repo, m):
    cls = 'CPUDomainManager'
    fn = m.methods(cls)['update']
    W = m.path
    obs = []
    for per in (True, False):
        for mir in (True, False):
            ev = []

            def rec(nm):
                return CalleeContract(lambda e, s_, a, k, n, nm=nm:
                                      ev.append(nm))
            obj = dm_self(m, cls, is_periodic=per, is_mirror=mir,
                          in_parallel=False)
            names = ['_compute_cell_size_for_binning', '_update_from_gpu',
                     '_remove_ghosts', '_box_wrap_periodic',
                     '_create_ghosts_periodic', '_create_ghosts_mirror',
                     '_update_gpu']
            contracts = {}
            for nm in names:
                contracts[cls + '.' + nm] = rec(nm)
                contracts['DomainManagerBase.' + nm] = rec(nm)
            ex = Executor(repo, m, qualname=cls + '.update',
                          contracts=contracts)
            outs = ex.exec_function(fn, dict(self=obj))
            want = ['_compute_cell_size_for_binning']
            if per or mir:
                want += ['_update_from_gpu', '_remove_ghosts']
                if per:
                    want += ['_box_wrap_periodic', '_create_ghosts_periodic']
                if mir:
                    want += ['_create_ghosts_mirror']
                want += ['_update_gpu']
            obs.append(Obligation('update.%s.%s' % (per, mir), [],
                                  z3.BoolVal(len(outs) == 1 and ev == want),
                                  W, extra=dict(events=list(ev))))
    ctx.function(m, fn, cls + '.update')
    # _remove_ghosts removes the Ghost-tagged particles of every array
    fr = m.methods('DomainManagerBase')['_remove_ghosts']
    ev = []
    paws = [SymObject(None, dict(remove_tagged_particles=Native(
        lambda e, s_, a, k, n, i=i: ev.append((i, a[0])))), 'paw%d' % i)
        for i in range(3)]
    o2 = SymObject('DomainManagerBase', dict(pa_wrappers=paws, narrays=3),
                   'self')
    o2.module = m
    ex = Executor(repo, m, qualname='DomainManagerBase._remove_ghosts')
    ex.spec_env['Ghost'] = 2
    ex.exec_function(fr, dict(self=o2))
    obs.append(Obligation('remove_ghosts', [], z3.BoolVal(
        ev == [(0, 2), (1, 2), (2, 2)]), W))
    ctx.function(m, fr, 'DomainManagerBase._remove_ghosts')
    ctx.prove('update.removes_old_ghosts_first', obs, replay=replay_built)
