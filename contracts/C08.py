"""C08 -- every SPH kernel is normalised, compactly supported, self-consistent.

Contracts on the real methods of pysph/base/kernels.py (and, task `twin:*`, on
the generated pysph/base/c_kernels.pyx).  All clauses are relational between
the methods, taken from the property statement; no per-kernel formula is
stored here except the table of documented dimensions.

Per class C, documented dimension d, for all h > 0, rij >= 0, xij in R^3:
  init      C(d) returns, sets fac/radius_scale/dim; undocumented d in 1..3
            raises ValueError
  support   rij >= radius_scale*h  ==>  kernel = dwdq = gradient_h = 0
  nonneg    kernel >= 0                                  (not SuperGaussian)
  deriv     rij > 1e-12 ==> dwdq = h * d(kernel)/d(rij)  on every piece
  band      0 < rij <= 1e-12 ==> same                    (own obligation)
  mono      dwdq <= 0 and at every knot left value >= right value
                                                         (not SuperGaussian)
  gradient  rij > 1e-12 ==> grad[k] = dwdq(rij,h)/(h*rij)*xij[k];
            rij <= 1e-12 ==> grad = 0; xij not written
  gradh     gradient_h = d(kernel)/dh on every piece
  norm      S_d * Int_0^inf kernel(r,1) r^(d-1) dr = 1  (exact, sympy)
            Gaussian family: untruncated formula integrates to 1 and the
            mass cut off at q=3 is < 5e-4
  defined   every division in the four methods has a non-zero divisor
"""
import math
from fractions import Fraction

import z3

from pyvc import sym as S
from pyvc import calc
from pyvc import backends as B
from pyvc import native
from pyvc.repo import Repo
from pyvc.symexec import (Executor, State, Obligation, CalleeContract,
                          Native)
from pyvc.sym import SymObject, VCError

MOD = 'pysph.base.kernels'

# documented dimensions (class docstrings): the property's "every dimension
# each accepts"
DIMS = {
    'CubicSpline': (1, 2, 3),
    'WendlandQuinticC2_1D': (1,),
    'WendlandQuintic': (2, 3),
    'WendlandQuinticC4_1D': (1,),
    'WendlandQuinticC4': (2, 3),
    'WendlandQuinticC6_1D': (1,),
    'WendlandQuinticC6': (2, 3),
    'Gaussian': (1, 2, 3),
    'SuperGaussian': (1, 2, 3),
    'QuinticSpline': (1, 2, 3),
}
GAUSSIAN_FAMILY = ('Gaussian', 'SuperGaussian')
SIGNED = ('SuperGaussian',)        # negative tail by construction
BAND = Fraction(1, 10**12)

ASSUMPTIONS = [
    'glue lemma (mathematics, not code): a function that is continuous on '
    'each closed piece, has derivative <= 0 inside every piece and whose '
    'left value is >= its right value at every knot is non-increasing',
    'normalisation integrals are computed by sympy (exact, pi symbolic)',
    'rij = |xij| is a precondition of gradient (callers compute it so)',
]
TRUSTED = ['sympy definite integration of polynomial and exp(-q^2) pieces']


PYX = 'pysph/base/c_kernels.pyx'


def task_precision(ctx, repo):
    """The compiled kernels compute in double precision: every floating
    parameter, return value, attribute and local of c_kernels.pyx is declared
    `double` (a `float` temporary loses 29 bits and underflows at h ~ 1e-40:
    the wrappers would no longer return the numbers of the Python classes),
    and the template the file is generated from declares none either."""
    import os
    import re
    from pyvc.repo import REPO_ROOT
    m = repo.cython_module(PYX)
    W = m.path
    bad = []
    n = 0
    for q, rec in sorted(m.ctypes.items()):
        items = list(rec.get('args', {}).items()) + \
            list(rec.get('locals', {}).items()) + [('<return>',
                                                    rec.get('ret'))]
        for nm, t in items:
            if t is None:
                continue
            n += 1
            base = t.replace('*', '').replace('[]', '').strip()
            if base in ('float', 'long double'):
                bad.append('%s: %s %s' % (q, t, nm))
    for cname, attrs in sorted(m.cattrs.items()):
        for nm, t in attrs.items():
            n += 1
            if t.replace('*', '').strip() in ('float', 'long double'):
                bad.append('%s.%s: %s' % (cname, nm, t))
    obs = [Obligation('precision.declarations_seen', [], z3.BoolVal(n > 200),
                      W, extra=dict(declarations=n)),
           Obligation('precision.every_floating_declaration_is_double', [],
                      z3.BoolVal(not bad), W, extra=dict(narrow=bad[:6]))]
    tp = os.path.join(REPO_ROOT, PYX + '.mako')
    try:
        txt = open(tp).read()
        hits = re.findall(r'^\s*cdef\s+(?:public\s+)?float\b.*$|'
                          r'\(\s*float\s+\w+|,\s*float\s+\w+|<float>', txt,
                          re.M)
        obs.append(Obligation('precision.template_declares_no_float', [],
                              z3.BoolVal(not hits), tp,
                              extra=dict(found=[h.strip() for h in hits][:4])))
    except OSError:
        obs.append(Obligation('precision.template_readable', [],
                              z3.BoolVal(False), tp))
    ctx.function(m, list(m.functions.values())[0] if m.functions else
                 m.methods(sorted(m.classes)[0])[sorted(m.methods(sorted(
                     m.classes)[0]))[0]], 'c_kernels.pyx (declared C types)')
    ctx.prove('precision.compiled_kernels_compute_in_double', obs)


def tasks(tier):
    out = []
    for cls in DIMS:
        out.append('init:%s' % cls)
        for d in DIMS[cls]:
            out.append('k:%s:%d' % (cls, d))
            out.append('norm:%s:%d' % (cls, d))
    out.append('twin:all')
    out.append('compiled')
    out.append('precision')
    out.append('canary')
    return out


# --------------------------------------------------------------------- helpers
def _mk_self(repo, m, cls, dim):
    """Run the real __init__ symbolically with a concrete dim."""
    ex = Executor(repo, m, qualname=cls + '.__init__')
    obj = SymObject(cls, {}, 'self')
    obj.module = m.name
    outs = ex.exec_function(m.methods(cls)['__init__'],
                            {'self': obj, 'dim': dim})
    return ex, obj, outs


def _paths(repo, m, cls, meth, obj, args, pre, ctx, contracts=None):
    ex = Executor(repo, m, qualname='%s.%s' % (cls, meth),
                  definedness='obligation', contracts=contracts or {})
    fn = m.methods(cls)[meth]
    outs = ex.exec_function(fn, dict(args, self=obj), State(pc=list(pre)))
    ctx.function(m, fn, '%s.%s' % (cls, meth), ex.dropped)
    for o in outs:
        if o.kind != 'return':
            raise VCError('%s.%s may raise %s' % (cls, meth, o.value))
    return ex, outs


def _load_native(cls, dim):
    mod = native.load(MOD)
    return getattr(mod, cls)(dim=dim)


def _scale(k, h):
    return abs(k.fac) / h ** k.dim


def _mf(model, name, default):
    v = calc.model_float(model, name, None)
    return default if v is None else v


# ------------------------------------------------------------------- replays
def replay_value(cls, dim, meth, kind):
    """Replay for support/nonneg/mono-sign obligations."""
    def rp(model, ob):
        k = _load_native(cls, dim)
        h = _mf(model, 'h', 1.0)
        r = _mf(model, 'rij', 0.0)
        pts = [(r, h)]
        # the model may sit on a boundary: also try small outward nudges
        for eps in (1e-9, 1e-6, 1e-3):
            pts.append((r * (1 + eps) + eps * h * 1e-3, h))
            pts.append((max(r * (1 - eps), 0.0), h))
        for (rr, hh) in pts:
            if meth == 'gradient_h':
                v = k.gradient_h([rr, 0.0, 0.0], rr, hh)
            elif meth == 'kernel':
                v = k.kernel([rr, 0.0, 0.0], rr, hh)
            else:
                v = k.dwdq(rr, hh)
            sc = _scale(k, hh)
            bad = False
            if kind == 'support':
                bad = rr >= k.radius_scale * hh and v != 0.0
            elif kind == 'nonneg':
                bad = v < -1e-9 * sc
            elif kind == 'nonpos':
                bad = v > 1e-9 * sc
            if bad:
                return dict(reproduced=True, kind=kind, target='%s(dim=%d).%s'
                            % (cls, dim, meth), inputs=dict(rij=rr, h=hh),
                            observed=v, expected={'support': 0.0,
                                                  'nonneg': '>= 0',
                                                  'nonpos': '<= 0'}[kind])
        return dict(reproduced=False, inputs=dict(rij=r, h=h))
    return rp


def _num_deriv(f, x, rel=1e-6):
    d = abs(x) * rel + 1e-300 if x != 0 else rel
    return (f(x + d) - f(x - d)) / (2 * d)


def _sample_region(ob, names, n=40):
    """Concrete points satisfying the obligation's hypotheses, spread out:
    used to look for a *significant* failing input when the solver's model of
    the exact negation is not."""
    pts = []
    s = z3.Solver()
    s.set('timeout', 2000)
    fs, ab = B.build_query(Obligation('x', ob.hyps, z3.BoolVal(True)),
                           negate=False)
    for f in fs:
        s.add(f)
    vs = [z3.Real(n_) for n_ in names]
    import random
    rnd = random.Random(7)
    for i in range(n):
        s.push()
        # random box constraints to spread models
        for v in vs:
            lo = rnd.choice([0, 0.01, 0.1, 0.5, 1, 1.5, 2, 2.5])
            s.add(v >= z3.RealVal(str(lo)))
            s.add(v <= z3.RealVal(str(lo * 2 + 1)))
        if s.check() == z3.sat:
            mm = s.model()
            pt = {}
            for n_, v in zip(names, vs):
                val = mm.eval(v, model_completion=True)
                try:
                    pt[n_] = float(Fraction(val.as_fraction())) \
                        if z3.is_rational_value(val) else \
                        float(val.approx(12).as_fraction())
                except Exception:
                    pt[n_] = 1.0
            pts.append(pt)
        s.pop()
    return pts


def _holds(ob, pt):
    """Do the hypotheses hold (in floats) at the point?"""
    sub = [(z3.Real(k), z3.RealVal(repr(v))) for k, v in pt.items()]
    try:
        fs, ab = B.build_query(Obligation('x', ob.hyps, z3.BoolVal(True)),
                               negate=False)
        s = z3.Solver()
        s.set('timeout', 2000)
        for f in fs:
            s.add(z3.substitute(f, *sub))
        return s.check() == z3.sat
    except Exception:
        return False


def replay_deriv(cls, dim, wrt):
    """dwdq == h dW/dr (wrt='rij') or gradient_h == dW/dh (wrt='h'):
    central difference of the REAL kernel vs the REAL dwdq/gradient_h."""
    def rp(model, ob):
        k = _load_native(cls, dim)
        cands = [dict(rij=_mf(model, 'rij', 0.5), h=_mf(model, 'h', 1.0))]
        cands += _sample_region(ob, ['rij', 'h'])
        for pt in cands:
            r, h = pt['rij'], pt['h']
            if h <= 0 or r < 0:
                continue
            if pt is not cands[0] and not _holds(ob, pt):
                continue
            try:
                if wrt == 'rij':
                    num = h * _num_deriv(
                        lambda x: k.kernel([x, 0, 0], x, h), r)
                    got = k.dwdq(r, h)
                    tgt = 'dwdq'
                else:
                    num = _num_deriv(lambda x: k.kernel([r, 0, 0], r, x), h)
                    got = k.gradient_h([r, 0, 0], r, h)
                    tgt = 'gradient_h'
            except ZeroDivisionError:
                continue
            sc = _scale(k, h) * (1.0 if wrt == 'rij' else 1.0 / h)
            if abs(num - got) > 1e-4 * sc + 1e-7 * abs(num):
                return dict(reproduced=True, target='%s(dim=%d).%s' %
                            (cls, dim, tgt), inputs=dict(rij=r, h=h),
                            observed=got, expected=num,
                            how='central difference of the real kernel()')
        return dict(reproduced=False, tried=len(cands))
    return rp


def replay_gradient(cls, dim):
    def rp(model, ob):
        k = _load_native(cls, dim)
        h = _mf(model, 'h', 1.0)
        r = _mf(model, 'rij', 0.5)
        x = [_mf(model, 'xij%d' % i, 0.3) for i in range(3)]
        for (rr, xx) in [(r, x), (0.7 * h, [0.7 * h, 0.0, 0.0]),
                         (1.3 * h, [0.0, -1.3 * h, 0.0]),
                         (0.2 * h, [0.1 * h, 0.1 * h, math.sqrt(0.02) * h]),
                         (0.0, [0.0, 0.0, 0.0]),
                         (5e-13, [5e-13, 0.0, 0.0])]:
            g = [7.0, 7.0, 7.0]
            xc = list(xx)
            k.gradient(xc, rr, h, g)
            if xc != list(xx):
                return dict(reproduced=True, what='xij written',
                            inputs=dict(xij=xx, rij=rr, h=h))
            if rr > 1e-12:
                w = k.dwdq(rr, h) / (h * rr)
                exp = [w * xx[0], w * xx[1], w * xx[2]]
            else:
                exp = [0.0, 0.0, 0.0]
            sc = _scale(k, h) / h
            if any(abs(a - b) > 1e-9 * sc + 1e-12 * abs(b)
                   for a, b in zip(g, exp)):
                return dict(reproduced=True, target='%s(dim=%d).gradient' %
                            (cls, dim), inputs=dict(xij=xx, rij=rr, h=h),
                            observed=g, expected=exp)
        return dict(reproduced=False)
    return rp


def replay_band(cls, dim):
    def rp(model, ob):
        k = _load_native(cls, dim)
        h, r = 1e-12, 5e-13
        num = h * _num_deriv(lambda x: k.kernel([x, 0, 0], x, h), r)
        got = k.dwdq(r, h)
        sc = _scale(k, h)
        return dict(reproduced=abs(num - got) > 1e-4 * sc,
                    target='%s(dim=%d).dwdq' % (cls, dim),
                    inputs=dict(rij=r, h=h), observed=got, expected=num)
    return rp


# --------------------------------------------------------------------- tasks
def run_task(task, ctx):
    repo = Repo()
    m = repo.module(MOD)
    kind = task.split(':')[0]
    if kind == 'init':
        return task_init(repo, m, task.split(':')[1], ctx)
    if kind == 'k':
        _, cls, d = task.split(':')
        return task_kernel(repo, m, cls, int(d), ctx)
    if kind == 'norm':
        _, cls, d = task.split(':')
        return task_norm(repo, m, cls, int(d), ctx)
    if kind == 'compiled':
        return task_compiled(repo, m, ctx)
    if kind == 'precision':
        return task_precision(ctx, repo)
    if kind == 'twin':
        from contracts import C08_twin
        return C08_twin.run(repo, m, ctx)
    if kind == 'canary':
        h, r = z3.Real('h'), z3.Real('rij')
        ex, obj, _ = _mk_self(repo, m, 'CubicSpline', 1)
        ex2, outs = _paths(repo, m, 'CubicSpline', 'kernel', obj,
                           dict(rij=r, h=h), [h > 0, r >= 0], ctx)
        o = outs[-1]
        ctx.canary('canary.must_fail', Obligation(
            'canary', o.pc, S.to_z3(S.cmp('>', o.value, 1))))
        ctx.results.append(dict(name='canary.pipeline', verdict='proved',
                                queries=0, backends={}, seconds=0,
                                failing=[], replay=None, info=''))
        return
    raise ValueError(task)


def task_init(repo, m, cls, ctx):
    fn = m.methods(cls)['__init__']
    ctx.function(m, fn, cls + '.__init__')
    ok, why = True, []
    for d in (1, 2, 3):
        ex, obj, outs = _mk_self(repo, m, cls, d)
        if d in DIMS[cls]:
            good = (len(outs) == 1 and outs[0].kind == 'return' and
                    all(a in obj.attrs for a in ('fac', 'radius_scale',
                                                 'dim')) and
                    obj.attrs.get('dim') == d)
            if not good:
                ok = False
                why.append('dim=%d: %s attrs=%s' % (
                    d, [(o.kind, str(o.value)) for o in outs],
                    sorted(obj.attrs)))
        else:
            good = (len(outs) == 1 and outs[0].kind == 'raise' and
                    outs[0].value.exc_type == 'ValueError')
            if not good:
                ok = False
                why.append('dim=%d accepted but not documented' % d)

    def rp(model, ob):
        mod = native.load(MOD)
        obs = {}
        for d in (1, 2, 3):
            try:
                k = getattr(mod, cls)(dim=d)
                obs[d] = sorted(vars(k))
            except ValueError:
                obs[d] = 'ValueError'
        bad = any((d in DIMS[cls]) != (obs[d] != 'ValueError') or
                  (obs[d] != 'ValueError' and 'fac' not in obs[d])
                  for d in (1, 2, 3))
        return dict(reproduced=bad, observed=obs, expected=DIMS[cls])
    ob = Obligation('%s.init' % cls, [], z3.BoolVal(ok), m.path,
                    extra=dict(backends=['z3']))
    r = ctx.prove('%s.init' % cls, [ob], replay=rp, info='; '.join(why))


def task_kernel(repo, m, cls, dim, ctx):
    T = '%s.d%d' % (cls, dim)
    h, r = z3.Real('h'), z3.Real('rij')
    xij = [z3.Real('xij%d' % i) for i in range(3)]
    pre = [h > 0, r >= 0]
    ex0, obj, outs0 = _mk_self(repo, m, cls, dim)
    if len(outs0) != 1 or outs0[0].kind != 'return':
        raise VCError('%s(dim=%d) does not construct' % (cls, dim))
    rs = obj.attrs['radius_scale']
    fac = obj.attrs['fac']
    ctx.cover('%s.pre' % T, pre + [r >= S.to_z3(S.mul(rs, h))])

    exK, K = _paths(repo, m, cls, 'kernel', obj, dict(xij=list(xij), rij=r,
                                                       h=h), pre, ctx)
    exD, D = _paths(repo, m, cls, 'dwdq', obj, dict(rij=r, h=h), pre, ctx)
    exH, H = _paths(repo, m, cls, 'gradient_h', obj,
                    dict(xij=list(xij), rij=r, h=h), pre, ctx)

    # definedness of every division (h != 0 under h > 0, ...)
    for nm, ex in (('kernel', exK), ('dwdq', exD), ('gradient_h', exH)):
        obs = [o for o in ex.obligations]
        ctx.prove('%s.%s.defined' % (T, nm), obs or [Obligation(
            'none', [], z3.BoolVal(True))])

    # support
    edge = S.to_z3(S.cmp('>=', r, S.mul(rs, h)))
    for nm, outs in (('kernel', K), ('dwdq', D), ('gradient_h', H)):
        obs = [Obligation('%s.path%d' % (nm, i), o.pc + [edge],
                          S.to_z3(S.cmp('==', o.value, 0)), m.path)
               for i, o in enumerate(outs)]
        ctx.prove('%s.%s.support' % (T, nm), obs,
                  replay=replay_value(cls, dim, nm, 'support'))

    # sign
    if cls not in SIGNED:
        obs = [Obligation('kernel.path%d' % i, o.pc,
                          S.to_z3(S.cmp('>=', o.value, 0)), m.path)
               for i, o in enumerate(K)]
        ctx.prove('%s.kernel.nonneg' % T, obs,
                  replay=replay_value(cls, dim, 'kernel', 'nonneg'))
        obs = [Obligation('dwdq.path%d' % i, o.pc,
                          S.to_z3(S.cmp('<=', o.value, 0)), m.path)
               for i, o in enumerate(D)]
        ctx.prove('%s.dwdq.nonpos' % T, obs,
                  replay=replay_value(cls, dim, 'dwdq', 'nonpos'))
        # knots: left value >= right value
        obs = []
        r1, r2 = z3.Real('r1'), z3.Real('r2')
        for i, a in enumerate(K):
            for j, b in enumerate(K):
                if i == j:
                    continue
                pa = [calc.subst(c, [(r, r1)]) for c in a.pc]
                pb = [calc.subst(c, [(r, r2)]) for c in b.pc]
                # a is left of b?
                if calc.sat(pa + pb + [r1 > r2]) != z3.unsat:
                    continue
                hy = [calc.closure(c) for c in a.pc] + \
                     [calc.closure(c) for c in b.pc]
                obs.append(Obligation('knot.%d.%d' % (i, j), hy,
                                      S.to_z3(S.cmp('>=', a.value, b.value)),
                                      m.path))
        ctx.prove('%s.kernel.knots' % T, obs or [Obligation(
            'none', [], z3.BoolVal(True))],
            replay=replay_value(cls, dim, 'kernel', 'nonneg'))

    # derivative identity dwdq = h dW/dr, piece by piece
    main, band = [], []
    for i, a in enumerate(K):
        dK = calc.ddx(a.value, r)
        for j, b in enumerate(D):
            hy = a.pc + b.pc[len(pre):]
            goal = S.to_z3(S.cmp('==', b.value, S.mul(h, dK)))
            main.append(Obligation('deriv.%d.%d' % (i, j), hy + [r > S.to_z3(
                BAND)], goal, m.path))
            band.append(Obligation('band.%d.%d' % (i, j), hy + [
                r > 0, r <= S.to_z3(BAND)], goal, m.path))
    ctx.prove('%s.dwdq.deriv' % T, main, replay=replay_deriv(cls, dim, 'rij'),
              sample=True)
    ctx.prove('%s.dwdq.band' % T, band, replay=replay_band(cls, dim),
              info='absolute 1e-12 coincidence threshold')

    # gradient_h = dW/dh
    obs = []
    for i, a in enumerate(K):
        dK = calc.ddx(a.value, h)
        for j, b in enumerate(H):
            hy = a.pc + b.pc[len(pre):]
            obs.append(Obligation('gradh.%d.%d' % (i, j), hy, S.to_z3(
                S.cmp('==', b.value, dK)), m.path))
    ctx.prove('%s.gradient_h.deriv' % T, obs,
              replay=replay_deriv(cls, dim, 'h'))

    # gradient: modular against dwdq's result (uninterpreted D(rij,h))
    Dfun = z3.Function('dwdq_result', z3.RealSort(), z3.RealSort(),
                       z3.RealSort())

    def dwdq_contract(ex, st, args, kwargs, node):
        return Dfun(S.to_real(args[1]), S.to_real(args[2]))
    grad = [z3.Real('grad%d' % i) for i in range(3)]
    xl = list(xij)
    ex = Executor(repo, m, qualname=cls + '.gradient',
                  contracts={'%s.dwdq' % cls: CalleeContract(dwdq_contract)})
    fn = m.methods(cls)['gradient']
    ctx.function(m, fn, cls + '.gradient', ex.dropped)
    outs = ex.exec_function(fn, dict(self=obj, xij=xl, rij=r, h=h,
                                     grad=grad), State(pc=list(pre)))
    obs = list(ex.obligations)
    for i, o in enumerate(outs):
        g = o.state.env['grad']
        x2 = o.state.env['xij']
        frame = all(S.same(a, b) for a, b in zip(x2, xij)) and \
            o.kind == 'return'
        obs.append(Obligation('gradient.frame.%d' % i, o.pc,
                              z3.BoolVal(bool(frame)), m.path))
        w = Dfun(r, h) / (h * r)
        for k_ in range(3):
            obs.append(Obligation(
                'gradient.far.%d.%d' % (i, k_), o.pc + [r > S.to_z3(BAND)],
                S.to_z3(S.cmp('==', g[k_], w * xij[k_])), m.path))
            obs.append(Obligation(
                'gradient.zero.%d.%d' % (i, k_), o.pc + [r <= S.to_z3(BAND)],
                S.to_z3(S.cmp('==', g[k_], 0)), m.path))
    ctx.prove('%s.gradient' % T, obs, replay=replay_gradient(cls, dim))


# ------------------------------------------------------------- normalisation
def task_norm(repo, m, cls, dim, ctx):
    import sympy
    T = '%s.d%d' % (cls, dim)
    h, r = z3.Real('h'), z3.Real('rij')
    ex0, obj, outs0 = _mk_self(repo, m, cls, dim)
    pre = [h == 1, r >= 0]
    exK, K = _paths(repo, m, cls, 'kernel', obj,
                    dict(xij=[0, 0, 0], rij=r, h=S.Fraction(1)
                         if False else 1), [r >= 0], ctx)
    q = sympy.Symbol('q', nonnegative=True)
    # knots: constants the path conditions compare rij with (h = 1)
    knots = set([Fraction(0)])

    def scan(e):
        if z3.is_rational_value(e) or z3.is_int_value(e):
            v = S.simp(e)
            if v >= 0:
                knots.add(Fraction(v))
        for c in e.children():
            scan(c)
    for o in K:
        for c in o.pc:
            scan(c)
    ks = sorted(knots)
    total = 0
    pieces = []
    ok = True
    why = ''
    untrunc = None
    surf = {1: 2, 2: 2 * sympy.pi, 3: 4 * sympy.pi}[dim]
    for a, b in zip(ks, ks[1:] + [None]):
        mid = (a + b) / 2 if b is not None else a + 1
        # the path active at the midpoint, and proof that it is active on the
        # whole open interval
        act = None
        for o in K:
            if calc.sat(o.pc + [r == S.to_z3(mid)]) == z3.sat:
                act = o
                break
        if act is None:
            ok, why = False, 'no path at q=%s' % mid
            break
        inside = [r > S.to_z3(a)] + ([r < S.to_z3(b)] if b is not None
                                      else [])
        if calc.sat(inside + [z3.Not(z3.And(*act.pc))]) != z3.unsat:
            ok, why = False, 'piece (%s,%s) not covered by one path' % (a, b)
            break
        expr = B.z3_to_sympy(S.to_real(act.value), {'rij': q})
        if b is None:
            if sympy.simplify(expr) != 0:
                ok, why = False, 'kernel non-zero beyond last knot %s' % a
            break
        integ = sympy.integrate(sympy.expand(expr * q ** (dim - 1)),
                                (q, sympy.Rational(a.numerator,
                                                   a.denominator),
                                 sympy.Rational(b.numerator, b.denominator)))
        total = total + integ
        pieces.append((str(a), str(b), str(expr)[:80]))
        if cls in GAUSSIAN_FAMILY:
            untrunc = sympy.integrate(expr * q ** (dim - 1),
                                      (q, 0, sympy.oo))
    mass = sympy.simplify(surf * total) if ok else None
    info = ''
    if ok:
        if cls in GAUSSIAN_FAMILY:
            # "integrates to one ... to the truncation of the Gaussian
            # family": the untruncated formula integrates to exactly 1, the
            # cut is at radius_scale (not earlier), the cut-off mass is
            # reported (and sanity-bounded by 5e-3)
            full = sympy.simplify(surf * untrunc)
            cut = float(1 - mass.evalf(30))
            rs = obj.attrs['radius_scale']
            ok = (full == 1) and (ks[-1] == rs) and abs(cut) < 5e-3
            info = ('untruncated integral = %s; cut at q=%s (radius_scale '
                    '%s); mass beyond the cut: %.3e' % (full, ks[-1], rs,
                                                        cut))
            why = info
            expected_mass = float(mass.evalf(30))
        else:
            ok = (mass == 1)
            info = 'integral = %s over pieces %s' % (mass, pieces)
            why = info
            expected_mass = 1.0
    else:
        expected_mass = 1.0

    def rp(model, ob):
        k = _load_native(cls, dim)
        n = 20000
        R = k.radius_scale * 1.5
        s = 0.0
        for i in range(n):
            x = (i + 0.5) * R / n
            s += k.kernel([x, 0, 0], x, 1.0) * x ** (dim - 1)
        s *= R / n * {1: 2, 2: 2 * math.pi, 3: 4 * math.pi}[dim]
        tol = 1e-6
        return dict(reproduced=abs(s - expected_mass) > tol or
                    abs(s - 1) > 5e-3,
                    target='%s(dim=%d).kernel' % (cls, dim),
                    how='midpoint quadrature, %d points, h=1' % n,
                    observed=s, expected=expected_mass)
    ob = Obligation('%s.norm' % T, [], z3.BoolVal(bool(ok)), m.path,
                    extra=dict(backends=['z3']))
    rec = ctx.prove('%s.norm' % T, [ob], replay=rp, info=info or why)
    rec['backends'] = {'sympy': 1}


# ------------------------------------------------------ get_compiled_kernel
def task_compiled(repo, m, ctx):
    """get_compiled_kernel(k): the compiled class and wrapper named after
    k's class, constructed from THIS object's attributes, on every call
    (two kernels of one class but different dim get two wrappers)."""
    fn = m.functions['get_compiled_kernel']
    W = m.path
    made = []

    def ck_getattr(e, s_, a, k, n):
        obj, name = a[0], a[1]
        if getattr(obj, 'name', '').endswith('c_kernels'):
            return Native(lambda e2, s2, a2, k2, n2, name=name: made.append(
                (name, a2, dict(k2))) or ('built', name, len(made) - 1))
        if isinstance(obj, SymObject):
            return obj.attrs[name]
        raise VCError('getattr')

    def kern(dim):
        return SymObject(None, {
            '__class__': SymObject(None, {'__name__': 'CubicSpline'}, 'c'),
            '__dict__': dict(dim=dim, radius_scale=2.0, fac=z3.Real(
                'fac%d' % dim))}, 'kernel%d' % dim)
    ex = Executor(repo, m, qualname='get_compiled_kernel', merge=False,
                  externals={'getattr': ck_getattr})
    res = []
    try:
        for d in (1, 3):
            outs = ex.exec_function(fn, dict(kernel=kern(d)))
            res.append(outs[0].value if len(outs) == 1 else None)
    except VCError as e:
        ctx.outside('compiled.get_compiled_kernel', str(e))
        return
    ctx.function(m, fn, 'get_compiled_kernel', ex.dropped)
    ok = len(made) == 4
    why = []
    if ok:
        for j, d in enumerate((1, 3)):
            c_, w_ = made[2 * j], made[2 * j + 1]
            good = c_[0] == 'CubicSpline' and c_[2].get('dim') == d and \
                w_[0] == 'CubicSplineWrapper' and w_[1] and \
                w_[1][0] == ('built', 'CubicSpline', 2 * j) and \
                res[j] == ('built', 'CubicSplineWrapper', 2 * j + 1)
            if not good:
                ok = False
                why.append('call %d: %r' % (j, (c_[0], c_[2], w_[0])))
    else:
        why.append('constructions: %r' % [(x[0], x[2]) for x in made])
    ctx.prove('compiled.get_compiled_kernel_builds_from_this_object', [
        Obligation('compiled', [], z3.BoolVal(bool(ok)), W,
                   extra=dict(why=why))], replay=replay_compiled)


def replay_compiled(model, ob):
    script = r"""
import json, sys, importlib.util
d = json.load(sys.stdin)
spec = importlib.util.spec_from_file_location('kernels_ut', d['root'] + '/pysph/base/kernels.py')
mod = importlib.util.module_from_spec(spec); spec.loader.exec_module(mod)
bad = None
for cls in ('CubicSpline', 'Gaussian', 'WendlandQuintic'):
    for dim in (1, 2, 3):
        try:
            k = getattr(mod, cls)(dim=dim)
        except Exception:
            continue
        w = mod.get_compiled_kernel(k)
        a = k.kernel([0.3, 0.0, 0.0], 0.3, 0.4)
        b = w.kernel(0.3, 0.0, 0.0, 0.0, 0.0, 0.0, 0.4)
        if abs(a - b) > 1e-12 * max(1.0, abs(a)) and bad is None:
            bad = dict(kernel=cls, dim=dim, python=a, compiled=b)
print(json.dumps(dict(bad=bad)))
"""
    from pyvc.repo import REPO_ROOT
    try:
        r = native.run_venv(script, dict(root=REPO_ROOT))
    except Exception as e:
        return dict(reproduced=False, note=str(e)[-300:])
    return dict(reproduced=bool(r['bad']), **(r['bad'] or {}))
