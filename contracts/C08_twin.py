"""C08 clause (j): the generated pysph/base/c_kernels.pyx computes the same
numbers as pysph/base/kernels.py.

Each cdef-class method body is extracted mechanically (pyvc/cy2py.py) and run
through the same symbolic executor as its Python twin, with `self` carrying
the attributes the real Python __init__ sets (get_compiled_kernel passes
kernel.__dict__).  For every pair of paths whose conditions can hold together
the two results must be equal as real expressions.  The *Wrapper classes are
verified modularly against the wrapped kernel: xij = xi - xj, rij =
sqrt(xij.xij), delegate, return what the kernel wrote.
"""
import z3

from pyvc import sym as S
from pyvc import calc
from pyvc import native
from pyvc.symexec import Executor, State, Obligation, CalleeContract
from pyvc.sym import SymObject, VCError

PYX = 'pysph/base/c_kernels.pyx'


def _run(repo, m, cls, meth, obj, args, pre, contracts=None):
    ex = Executor(repo, m, qualname='%s.%s' % (cls, meth),
                  definedness='ignore', contracts=contracts or {})
    fn = m.methods(cls)[meth]
    outs = ex.exec_function(fn, dict(args, self=obj), State(pc=list(pre)))
    return ex, fn, outs


def replay_twin(cls, dim, meth):
    def rp(model, ob):
        from pyvc.calc import model_float
        h = model_float(model, 'h', 1.0) or 1.0
        r = model_float(model, 'rij', 0.5)
        script = r'''
import json, sys
d = json.load(sys.stdin)
from pysph.base import kernels, c_kernels
import numpy as np
k = getattr(kernels, d['cls'])(dim=d['dim'])
c = getattr(c_kernels, d['cls'])(**k.__dict__)
out = []
for (r, h) in d['pts']:
    x = np.array([r, 0.0, 0.0])
    if d['meth'] == 'kernel':
        a, b = k.kernel(list(x), r, h), c.py_kernel(x, r, h)
    elif d['meth'] == 'dwdq':
        a, b = k.dwdq(r, h), c.py_dwdq(r, h)
    elif d['meth'] == 'gradient_h':
        a, b = k.gradient_h(list(x), r, h), c.py_gradient_h(x, r, h)
    else:
        ga = [0.0, 0.0, 0.0]; gb = np.zeros(3)
        k.gradient(list(x), r, h, ga); c.py_gradient(x, r, h, gb)
        a, b = ga[0], float(gb[0])
    out.append([r, h, a, b])
print(json.dumps(out))
'''
        pts = [(r, h), (0.5 * h, h), (1.5 * h, h), (2.5 * h, h), (0.0, h)]
        try:
            res = native.run_venv(script, dict(cls=cls, dim=dim, meth=meth,
                                               pts=pts))
        except Exception as e:
            return dict(reproduced=False, note='compiled replay unavailable: '
                        '%s' % str(e)[:200])
        for (rr, hh, a, b) in res:
            if abs(a - b) > 1e-12 * (abs(a) + abs(b)) + 1e-300:
                return dict(reproduced=True, inputs=dict(rij=rr, h=hh),
                            python=a, compiled=b,
                            note='installed compiled build vs /repo Python')
        return dict(reproduced=False, note='installed .so is built from the '
                    'pinned c_kernels.pyx, not from the working tree; the '
                    'text-level mismatch is the finding')
    return rp


def run(repo, mpy, ctx):
    from contracts.C08 import DIMS, _mk_self
    mcy = repo.cython_module(PYX)
    ctx.assume('c_kernels.pyx is compared as source text (mechanical '
               'extraction); Cython/gcc are trusted to compile it')
    h, r = z3.Real('h'), z3.Real('rij')
    xij = [z3.Real('xij%d' % i) for i in range(3)]
    pre = [h > 0, r >= 0]
    Dfun = z3.Function('dwdq_result', z3.RealSort(), z3.RealSort(),
                       z3.RealSort())

    def dwdq_contract(ex, st, args, kwargs, node):
        return Dfun(S.to_real(args[1]), S.to_real(args[2]))
    for cls in DIMS:
        dc = {'%s.dwdq' % cls: CalleeContract(dwdq_contract)}
        if cls not in mcy.classes:
            ctx.outside('twin.%s' % cls, 'class missing from c_kernels.pyx')
            continue
        for dim in DIMS[cls]:
            ex0, obj, outs0 = _mk_self(repo, mpy, cls, dim)
            cobj = SymObject(cls, dict(obj.attrs), 'self')
            cobj.module = mcy
            for meth in ('kernel', 'dwdq', 'gradient_h', 'gradient',
                         'get_deltap'):
                args = {}
                if meth in ('kernel', 'gradient_h'):
                    args = dict(xij=list(xij), rij=r, h=h)
                elif meth == 'dwdq':
                    args = dict(rij=r, h=h)
                elif meth == 'gradient':
                    args = dict(xij=list(xij), rij=r, h=h)
                name = 'twin.%s.d%d.%s' % (cls, dim, meth)
                try:
                    if meth == 'gradient':
                        ga = [z3.Real('g%d' % i) for i in range(3)]
                        gb = list(ga)
                        exa, fa, A = _run(repo, mpy, cls, meth, obj,
                                          dict(args, grad=ga), pre, dc)
                        exb, fb, Bo = _run(repo, mcy, cls, meth, cobj,
                                           dict(args, grad=gb), pre, dc)
                    else:
                        exa, fa, A = _run(repo, mpy, cls, meth, obj, args,
                                          pre)
                        exb, fb, Bo = _run(repo, mcy, cls, meth, cobj, args,
                                           pre)
                except VCError as e:
                    ctx.outside(name, str(e))
                    continue
                # inline self.dwdq in gradient: both sides call their own
                ctx.function(mcy, fb, '%s.%s' % (cls, meth), exb.dropped)
                obs = []
                for i, a in enumerate(A):
                    for j, b in enumerate(Bo):
                        hy = a.pc + b.pc[len(pre):]
                        if calc.sat(hy, 2000) == z3.unsat:
                            continue
                        if a.kind != b.kind:
                            obs.append(Obligation('%d.%d.kind' % (i, j), hy,
                                                  z3.BoolVal(False),
                                                  mcy.path))
                            continue
                        if meth == 'gradient':
                            va = a.state.env['grad']
                            vb = b.state.env['grad']
                            g = S.b_and(*[S.cmp('==', x, y)
                                          for x, y in zip(va, vb)])
                        else:
                            g = S.cmp('==', a.value, b.value)
                        obs.append(Obligation('%d.%d' % (i, j), hy,
                                              S.to_z3(g), mcy.path))
                ctx.prove(name, obs or [Obligation('none', [],
                                                   z3.BoolVal(False))],
                          replay=replay_twin(cls, dim, meth))
        wrapper(repo, mcy, cls, ctx)


def wrapper(repo, mcy, cls, ctx):
    W = cls + 'Wrapper'
    if W not in mcy.classes:
        ctx.outside('twin.%s' % W, 'wrapper class missing')
        return
    Kf = z3.Function('kern_kernel', *([z3.RealSort()] * 6))
    Gf = [z3.Function('kern_grad%d' % i, *([z3.RealSort()] * 6))
          for i in range(3)]

    def k_contract(ex, st, args, kwargs, node):
        x, rij, hh = args[1], args[2], args[3]
        return Kf(*[S.to_real(v) for v in list(x) + [rij, hh]])

    def g_contract(ex, st, args, kwargs, node):
        x, rij, hh, grad = args[1], args[2], args[3], args[4]
        a = [S.to_real(v) for v in list(x) + [rij, hh]]
        for i in range(3):
            grad[i] = Gf[i](*a)
        return None
    kern = SymObject(cls, {}, 'kern')
    kern.module = mcy
    names = ['xi', 'yi', 'zi', 'xj', 'yj', 'zj', 'h']
    v = {n: z3.Real(n) for n in names}
    dx = [v['xi'] - v['xj'], v['yi'] - v['yj'], v['zi'] - v['zj']]
    rij = S.UF['sqrt'](dx[0] * dx[0] + dx[1] * dx[1] + dx[2] * dx[2])
    for meth in ('kernel', 'gradient'):
        wobj = SymObject(W, dict(kern=kern,
                                 xij=[S.fresh('wx') for _ in range(3)],
                                 grad=[S.fresh('wg') for _ in range(3)]),
                         'self')
        wobj.module = mcy
        ex = Executor(repo, mcy, qualname='%s.%s' % (W, meth),
                      definedness='ignore',
                      contracts={'%s.kernel' % cls: CalleeContract(k_contract),
                                 '%s.gradient' % cls:
                                 CalleeContract(g_contract)})
        fn = mcy.methods(W)[meth]
        name = 'twin.%s.%s' % (W, meth)
        try:
            outs = ex.exec_function(fn, dict(v, self=wobj), State(
                pc=[v['h'] > 0]))
        except VCError as e:
            ctx.outside(name, str(e))
            continue
        ctx.function(mcy, fn, '%s.%s' % (W, meth), ex.dropped)
        obs = []
        a = [S.to_real(x) for x in dx] + [rij, v['h']]
        for i, o in enumerate(outs):
            if meth == 'kernel':
                g = S.cmp('==', o.value, Kf(*a))
            else:
                val = o.value
                if not isinstance(val, tuple) or len(val) != 3:
                    g = False
                else:
                    g = S.b_and(*[S.cmp('==', val[k], Gf[k](*a))
                                  for k in range(3)])
            obs.append(Obligation('%s.%d' % (meth, i), o.pc, S.to_z3(g)
                                  if not isinstance(g, bool)
                                  else z3.BoolVal(g), mcy.path))
        ctx.prove(name, obs)
