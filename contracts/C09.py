"""C09 -- pair-symmetric momentum equations conserve linear/angular momentum.

Relational contract on the real `loop` text of each listed equation class:
run 1 evaluates the pair (destination a, source b), run 2 the pair
(destination b, source a), on two-cell arrays with d_idx = 0, s_idx = 1 (so a
wrong array or a wrong index reads an unrelated cell).  The pair symbols are
*defined* from the particle data by their documented formulas (C02):
    XIJ = x_d - x_s, VIJ = v_d - v_s, R2IJ = XIJ.XIJ, RIJ = sqrt(R2IJ),
    HIJ = (h_d+h_s)/2, RHOIJ = (rho_d+rho_s)/2, RHOIJ1 = 1/RHOIJ,
    EPS = 0.01 HIJ^2,
and the kernel values obey the C08 contracts (assumed here, proved there):
    WIJ, WDP symmetric; WI(run2) = WJ(run1);
    DWIJ = F_ij XIJ, DWI = F_i XIJ, DWJ = F_j XIJ  (gradient parallel to
    XIJ, scalar factor depends on (RIJ, h) only) so run 2 sees -DWIJ and
    DWI <-> -DWJ.
Equation parameters (self.*) are arbitrary reals shared by both runs.

linear   m_a * da_a + m_b * da_b = 0      (each of au, av, aw)
angular  XIJ x (m_a da_a) = 0              (central-force terms only)
density  SummationDensity: contribution m_s * W >= 0, and W(0, h) > 0 for
         every kernel class, hence rho > 0 wherever a particle sees itself.
Glue (mathematics, assumed): antisymmetric pair terms over a symmetric
neighbour relation sum to zero; sum x_a x F_a = 1/2 sum (x_a - x_b) x F_ab.
"""
import z3
from fractions import Fraction

from pyvc import sym as S
from pyvc import native
from pyvc.repo import Repo
from pyvc.symexec import Executor, State, Obligation
from pyvc.sym import SymObject, VCError

# (module, class, central?)  -- fixed from the property's wording
EQUATIONS = [
    ('pysph.sph.wc.basic', 'MomentumEquation', True),
    ('pysph.sph.wc.basic', 'MomentumEquationDeltaSPH', True),
    ('pysph.sph.wc.basic', 'PressureGradientUsingNumberDensity', True),
    ('pysph.sph.basic_equations', 'MonaghanArtificialViscosity', True),
    ('pysph.sph.wc.transport_velocity', 'MomentumEquationPressureGradient',
     True),
    ('pysph.sph.wc.transport_velocity', 'MomentumEquationViscosity', False),
    ('pysph.sph.wc.transport_velocity',
     'MomentumEquationArtificialViscosity', True),
    ('pysph.sph.wc.transport_velocity', 'MomentumEquationArtificialStress',
     False),
    ('pysph.sph.wc.edac', 'MomentumEquation', True),
    ('pysph.sph.wc.viscosity', 'LaminarViscosity', False),
    ('pysph.sph.wc.viscosity', 'MonaghanSignalViscosityFluids', True),
    ('pysph.sph.wc.viscosity', 'ClearyArtificialViscosity', True),
    ('pysph.sph.wc.viscosity', 'LaminarViscosityDeltaSPH', True),
    ('pysph.sph.gas_dynamics.basic', 'Monaghan92Accelerations', True),
    ('pysph.sph.gas_dynamics.basic', 'ADKEAccelerations', True),
    ('pysph.sph.gas_dynamics.basic', 'MPMAccelerations', True),
    ('pysph.sph.solid_mech.basic', 'MomentumEquationWithStress', False),
]
DENSITY = [
    ('pysph.sph.basic_equations', 'SummationDensity', 'rho'),
    ('pysph.sph.wc.transport_velocity', 'SummationDensity', 'V'),
    ('pysph.sph.gas_dynamics.basic', 'SummationDensity', 'rho'),
]
# array-level constants read as d_name[0]: same value on every array
SHARED_CONSTANTS = ('wdeltap', 'n')

ASSUMPTIONS = [
    'kernel contracts of C08: W symmetric in the pair, gradient = scalar(r,h)'
    ' * XIJ (hence antisymmetric and central)',
    'precomputed pair symbols equal their documented formulas (C02)',
    'the neighbour relation is symmetric (C01) and body forces are off',
    'equation parameters are the same object for both arrays; array-level '
    'constants wdeltap, n are equal on both arrays',
    'glue: double sums of antisymmetric pair terms over a symmetric '
    'neighbour relation vanish: lemmas/PairSum.lean (Lean 4 + Mathlib, '
    'compiled in the thorough tier only; stated-without-sorry check in quick)',
]
TRUSTED = []


def tasks(tier):
    out = ['eq:%s:%s' % (m, c) for m, c, _ in EQUATIONS]
    out += ['rho:%s:%s' % (m, c) for m, c, _ in DENSITY]
    out += ['w0', 'canary']
    # contracts this property ASSUMES from other checks are re-proved here,
    # so that a change to a pair symbol or to a kernel gradient that breaks
    # conservation fails this check too (names prefixed dep.)
    out += ['lemma', 'dep:symbols']
    from contracts import C08
    out += ['dep:kernel:%s:%d' % (cls, max(C08.DIMS[cls]))
            for cls in C08.DIMS]
    return out


class LazyObj(SymObject):
    """self of an equation: every attribute read is an arbitrary real,
    shared between the two runs."""
    pass


def _lazy_self(cls, shared):
    o = SymObject(cls, shared, 'self')
    return o


def build_env(which, argnames):
    """which = 'ab' (dest a, source b) or 'ba'.  -> args dict, outputs"""
    d, s = ('a', 'b') if which == 'ab' else ('b', 'a')

    def P(name, who):
        if name in SHARED_CONSTANTS:
            return z3.Real('const_%s' % name)
        return z3.Real('%s_%s' % (name, who))
    junk = lambda name, tag: z3.Real('junk_%s_%s_%s' % (tag, name, which))
    # the separation and relative velocity of the pair are the independent
    # variables (x_b = x_a - xij, v_b = v_a - vij): both runs then share the
    # same atoms and run 2 sees exactly their negation
    X0 = [z3.Real('xij%d' % k) for k in range(3)]
    V0 = [z3.Real('vij%d' % k) for k in range(3)]
    xa = [z3.Real('%s_a' % c) for c in ('x', 'y', 'z')]
    va = [z3.Real('%s_a' % c) for c in ('u', 'v', 'w')]
    x = dict(a=xa, b=[xa[k] - X0[k] for k in range(3)])
    v = dict(a=va, b=[va[k] - V0[k] for k in range(3)])
    h = {w: z3.Real('h_%s' % w) for w in 'ab'}
    rho = {w: z3.Real('rho_%s' % w) for w in 'ab'}
    XIJ = list(X0) if d == 'a' else [-X0[k] for k in range(3)]
    VIJ = list(V0) if d == 'a' else [-V0[k] for k in range(3)]
    R2 = X0[0] * X0[0] + X0[1] * X0[1] + X0[2] * X0[2]
    RIJ = S.UF['sqrt'](R2)
    HIJ = (h['a'] + h['b']) / 2
    RHOIJ = (rho['a'] + rho['b']) / 2
    Fij, Fa, Fb = z3.Real('F_ij'), z3.Real('F_a'), z3.Real('F_b')
    F = dict(a=Fa, b=Fb)
    W = dict(a=z3.Real('W_a'), b=z3.Real('W_b'))
    GH = dict(a=z3.Real('GH_a'), b=z3.Real('GH_b'))
    pair = dict(
        XIJ=XIJ, VIJ=VIJ, R2IJ=R2, RIJ=RIJ, HIJ=HIJ, RHOIJ=RHOIJ,
        RHOIJ1=1 / RHOIJ, EPS=Fraction(1, 100) * HIJ * HIJ,
        WIJ=z3.Real('W_ij'), WDP=z3.Real('W_dp'), WI=W[d], WJ=W[s],
        DWIJ=[Fij * XIJ[k] for k in range(3)],
        DWI=[F[d] * XIJ[k] for k in range(3)],
        DWJ=[F[s] * XIJ[k] for k in range(3)],
        GHI=GH[d], GHJ=GH[s], GHIJ=z3.Real('GH_ij'),
        t=z3.Real('t'), dt=z3.Real('dt'))
    special = {'x': 0, 'y': 1, 'z': 2}
    vel = {'u': 0, 'v': 1, 'w': 2}
    args = {}
    outs = {}
    for a in argnames:
        if a == 'd_idx':
            args[a] = 0
        elif a == 's_idx':
            args[a] = 1
        elif a in pair:
            val = pair[a]
            args[a] = list(val) if isinstance(val, list) else val
        elif a.startswith('d_') or a.startswith('s_'):
            name = a[2:]
            who = d if a[0] == 'd' else s

            def val(nm, w):
                if nm in special:
                    return x[w][special[nm]]
                if nm in vel:
                    return v[w][vel[nm]]
                if nm == 'h':
                    return h[w]
                if nm == 'rho':
                    return rho[w]
                return P(nm, w)
            if a[0] == 'd':
                cell0 = val(name, who)
                if name in SHARED_CONSTANTS:
                    lst = [cell0, junk(name, 'd')]
                else:
                    lst = [cell0, junk(name, 'd')]
                if name in ('au', 'av', 'aw'):
                    # the accumulator already holds the contributions of the
                    # neighbours seen so far (arbitrary): what is claimed is
                    # antisymmetry of the INCREMENT, so `=` instead of `+=`
                    # does not pass
                    lst[0] = z3.Real('acc0_%s_%s' % (name, who))
                    outs[name] = lst[0]
            else:
                lst = [val(name, who) if name in SHARED_CONSTANTS
                       else junk(name, 's'), val(name, who)]
            args[a] = lst
        else:
            raise VCError('argument %s of loop has no documented meaning' % a)
    return args, outs, pair, dict(d=d, s=s)


def run_pair(repo, m, cls, loopfn, shared):
    res = {}
    argnames = [a.arg for a in loopfn.args.args][1:]
    for which in ('ab', 'ba'):
        args, outs, pair, who = build_env(which, argnames)
        ex = Executor(repo, m, qualname='%s.loop' % cls,
                      definedness='assume', merge=True, prune=False,
                      inline={'*'})
        obj = _lazy_self(cls, shared)
        obj.module = m.name
        ex.lazy_attrs = True
        o = ex.exec_function(loopfn, dict(args, self=obj))
        res[which] = (ex, o, outs, pair, args)
    return res


def mass(which):
    return z3.Real('m_a') if which == 'ab' else z3.Real('m_b')


# ------------------------------------------------------------------ replay
REPLAY_SCRIPT = r'''
import json, sys, math, random, importlib.util, inspect
d = json.load(sys.stdin)
def load(root, modname):
    path = root + '/' + modname.replace('.', '/') + '.py'
    spec = importlib.util.spec_from_file_location('m_' + modname.replace('.', '_'), path)
    mod = importlib.util.module_from_spec(spec); spec.loader.exec_module(mod); return mod
mod = load(d['root'], d['module'])
K = load(d['root'], 'pysph.base.kernels')
cls = getattr(mod, d['cls'])
sig = inspect.signature(cls.__init__)
kw = {}
rnd = random.Random(d['seed'])
for name, p in list(sig.parameters.items())[1:]:
    if name == 'dest': kw[name] = 'f'
    elif name == 'sources': kw[name] = ['f']
    elif name == 'dim': kw[name] = 3
    elif name in ('gx', 'gy', 'gz'): kw[name] = 0.0
    elif name == 'tensile_correction': kw[name] = True
    elif p.default is inspect._empty or isinstance(p.default, (int, float)) and not isinstance(p.default, bool):
        kw[name] = rnd.uniform(0.5, 2.0)
try:
    eq = cls(**kw)
except Exception as e:
    print(json.dumps(dict(error='ctor: %r' % (e,)))); sys.exit(0)
names = list(inspect.signature(eq.loop).parameters)
kern = K.CubicSpline(dim=3)
SHARED = set(d['shared'])
worst = None
for trial in range(d['trials']):
    P = {}
    def prop(nm, w):
        if nm in SHARED: w = 'c'
        k = (nm, w)
        if k not in P:
            if nm in ('rho', 'm', 'h', 'cs', 'V', 'e', 'omega'): P[k] = rnd.uniform(0.5, 2.0)
            elif nm in ('n',): P[k] = 4.0
            elif nm in ('wdeltap',): P[k] = 0.3
            else: P[k] = rnd.uniform(-1.5, 1.5)
        return P[k]
    for w in 'ab':
        prop('h', w)
    # keep the pair inside the support
    for c in 'xyz':
        P[(c, 'a')] = rnd.uniform(-0.3, 0.3); P[(c, 'b')] = rnd.uniform(-0.3, 0.3)
    acc = {}
    for (dd, ss) in (('a', 'b'), ('b', 'a')):
        xij = [prop(c, dd) - prop(c, ss) for c in 'xyz']
        vij = [prop(c, dd) - prop(c, ss) for c in 'uvw']
        r2 = sum(t * t for t in xij); rij = math.sqrt(r2)
        hij = 0.5 * (prop('h', dd) + prop('h', ss))
        rhoij = 0.5 * (prop('rho', dd) + prop('rho', ss))
        def grad(hh):
            g = [0.0, 0.0, 0.0]; kern.gradient(xij, rij, hh, g); return g
        pair = dict(XIJ=xij, VIJ=vij, R2IJ=r2, RIJ=rij, HIJ=hij, RHOIJ=rhoij, RHOIJ1=1.0 / rhoij,
                    EPS=0.01 * hij * hij, WIJ=kern.kernel(xij, rij, hij),
                    WDP=kern.kernel(xij, kern.get_deltap() * hij, hij),
                    WI=kern.kernel(xij, rij, prop('h', dd)), WJ=kern.kernel(xij, rij, prop('h', ss)),
                    DWIJ=grad(hij), DWI=grad(prop('h', dd)), DWJ=grad(prop('h', ss)),
                    GHI=kern.gradient_h(xij, rij, prop('h', dd)), GHJ=kern.gradient_h(xij, rij, prop('h', ss)),
                    GHIJ=kern.gradient_h(xij, rij, hij), t=0.0, dt=0.01)
        args = []
        out = {}
        for nm in names:
            if nm == 'd_idx': args.append(0)
            elif nm == 's_idx': args.append(1)
            elif nm in pair: args.append(pair[nm])
            elif nm.startswith('d_'):
                v0 = prop(nm[2:], dd); lst = [v0, 123.456 + len(nm)]
                if nm[2:] in ('au', 'av', 'aw'): lst[0] = 0.0; out[nm[2:]] = lst
                args.append(lst)
            elif nm.startswith('s_'):
                lst = [-77.7 - len(nm), prop(nm[2:], ss)]
                if nm[2:] in SHARED: lst[0] = lst[1]
                args.append(lst)
            else:
                print(json.dumps(dict(error='arg %s' % nm))); sys.exit(0)
        try:
            eq.loop(*args)
        except ZeroDivisionError:
            acc = None; break
        acc[dd] = ([out[k][0] for k in ('au', 'av', 'aw')], xij)
    if acc is None:
        continue
    ma, mb = prop('m', 'a'), prop('m', 'b')
    lin = [ma * acc['a'][0][k] + mb * acc['b'][0][k] for k in range(3)]
    scale = sum(abs(ma * acc['a'][0][k]) + abs(mb * acc['b'][0][k]) for k in range(3)) + 1e-300
    f = [ma * t for t in acc['a'][0]]; x = acc['a'][1]
    tor = [x[1] * f[2] - x[2] * f[1], x[2] * f[0] - x[0] * f[2], x[0] * f[1] - x[1] * f[0]]
    rl = max(abs(t) for t in lin) / scale
    rt = max(abs(t) for t in tor) / (scale * (abs(x[0]) + abs(x[1]) + abs(x[2])) + 1e-300)
    bad = rl > 1e-9 or (d['central'] and rt > 1e-9)
    if bad:
        worst = dict(linear_residual=rl, torque_residual=rt, particle_data={'%s_%s' % k: v for k, v in P.items()},
                     ctor=kw, acc_a=acc['a'][0], acc_b=acc['b'][0])
        break
print(json.dumps(dict(bad=worst)))
'''


def replay_eq(modname, cls, central):
    def rp(model, ob):
        from pyvc.repo import REPO_ROOT
        try:
            r = native.run_venv(REPLAY_SCRIPT, dict(
                root=REPO_ROOT, module=modname, cls=cls, seed=7, trials=300,
                central=bool(central), shared=list(SHARED_CONSTANTS)))
        except Exception as e:
            return dict(reproduced=False, note=str(e)[:400])
        if r.get('error'):
            return dict(reproduced=False, note=r['error'])
        if r.get('bad'):
            return dict(reproduced=True, target='%s.%s.loop' % (modname, cls),
                        how='real loop() called for the pair (a,b) and '
                            '(b,a) with a real CubicSpline kernel',
                        **r['bad'])
        return dict(reproduced=False)
    return rp


# --------------------------------------------------------------------- tasks
def task_lemma(ctx):
    """The glue from the per-pair contracts to the property (the sum of an
    antisymmetric pair term over a symmetric neighbour relation vanishes) is
    lemmas/PairSum.lean.  Quick tier: the file is present, states the three
    theorems and contains no sorry/axiom/admit.  Thorough tier: it is
    compiled by Lean 4 + Mathlib (about 150 s cold)."""
    import os
    import re
    import subprocess
    here = os.path.dirname(os.path.dirname(os.path.abspath(__file__)))
    path = os.path.join(here, 'lemmas', 'PairSum.lean')
    try:
        src = open(path).read()
    except OSError:
        src = ''
    code = re.sub(r'/-.*?-/', '', src, flags=re.S)
    code = re.sub(r'--.*', '', code)
    ok = all(('theorem ' + t) in code for t in (
        'pair_sum_zero', 'pair_sum_zero_on_neighbours', 'torque_sum_zero')) \
        and not re.search(r'\b(sorry|axiom|admit|native_decide)\b', code)
    obs = [Obligation('lemma.pair_sum.stated_without_sorry', [],
                      z3.BoolVal(bool(ok)), path)]
    if ctx.tier == 'thorough':
        try:
            p_ = subprocess.run(['lean', path], capture_output=True,
                                text=True, timeout=1800, cwd=os.path.dirname(
                                    path))
            good = p_.returncode == 0 and 'error' not in (p_.stdout +
                                                          p_.stderr)
            out = (p_.stdout + p_.stderr)[-300:]
        except Exception as e:
            good, out = False, str(e)[-200:]
        obs.append(Obligation('lemma.pair_sum.compiled_by_lean', [],
                              z3.BoolVal(bool(good)), path,
                              extra=dict(lean_output=out)))
    else:
        ctx.note('lemmas/PairSum.lean is compiled by Lean only in the '
                 'thorough tier')
    ctx.prove('lemma.antisymmetric_pair_terms_sum_to_zero', obs)


def run_task(task, ctx):
    repo = Repo()
    parts = task.split(':')
    if parts[0] == 'eq':
        central = [c for m, k, c in EQUATIONS if m == parts[1] and
                   k == parts[2]][0]
        return task_eq(ctx, repo, parts[1], parts[2], central)
    if parts[0] == 'rho':
        prop = [p for m, k, p in DENSITY if m == parts[1] and
                k == parts[2]][0]
        return task_rho(ctx, repo, parts[1], parts[2], prop)
    if parts[0] == 'w0':
        return task_w0(ctx, repo)
    if parts[0] == 'lemma':
        return task_lemma(ctx)
    if parts[0] == 'dep':
        n0 = len(ctx.results)
        if parts[1] == 'symbols':
            from contracts import C02
            C02.task_symbols(ctx, repo)
        else:
            from contracts import C08
            m8 = repo.module(C08.MOD)
            C08.task_kernel(repo, m8, parts[2], int(parts[3]), ctx)
        if parts[1] != 'symbols':
            # only what conservation relies on: the gradient is the scalar
            # dwdq factor times XIJ (central, antisymmetric in the pair)
            # ... and, for the densities, that the kernel value is
            # non-negative and vanishes outside its support for every h
            keep = ('.gradient', '.kernel.nonneg', '.kernel.support',
                    '.kernel.knots')
            ctx.results[n0:] = [r for r in ctx.results[n0:]
                                if r['name'].endswith(keep) or
                                r.get('kind') in ('cover', 'canary')]
        for r in ctx.results[n0:]:
            r['name'] = 'dep.' + r['name']
        return
    if parts[0] == 'canary':
        a, b = z3.Reals('ca cb')
        ctx.canary('canary.must_fail', Obligation('c', [], a * b == a + b))
        ctx.results.append(dict(name='canary.pipeline', verdict='proved',
                                queries=0, backends={}, seconds=0,
                                failing=[], replay=None, info=''))
        return
    raise ValueError(task)


def _short(modname):
    return modname.replace('pysph.sph.', '')


def task_eq(ctx, repo, modname, cls, central):
    m = repo.module(modname)
    r = repo.find_method(modname, cls, 'loop')
    if r is None:
        raise VCError('%s.%s has no loop' % (modname, cls))
    mm, cdef, loopfn = r
    shared = {}
    res = run_pair(repo, mm, cls, loopfn, shared)
    ctx.function(mm, loopfn, '%s.loop' % cls, res['ab'][0].dropped)
    T = '%s.%s' % (_short(modname), cls)
    (ex1, A, out1, pair1, _), (ex2, Bo, out2, pair2, _) = res['ab'], res['ba']
    lin, ang, frame = [], [], []
    ma, mb = z3.Real('m_a'), z3.Real('m_b')
    for i, a in enumerate(A):
        for j, b in enumerate(Bo):
            hy = a.pc + b.pc
            if a.kind != 'return' or b.kind != 'return':
                lin.append(Obligation('raise', hy, z3.BoolVal(False), mm.path))
                continue
            da = [S.sub(a.state.env['d_' + k][0], out1[k])
                  for k in ('au', 'av', 'aw')]
            db = [S.sub(b.state.env['d_' + k][0], out2[k])
                  for k in ('au', 'av', 'aw')]
            for k in range(3):
                g = S.cmp('==', S.add(S.mul(ma, da[k]), S.mul(mb, db[k])), 0)
                lin.append(Obligation('lin.%d.%d.%d' % (i, j, k), hy,
                                      S.to_z3(g) if S.is_sym(g) else
                                      z3.BoolVal(bool(g)), mm.path))
            if central:
                X = pair1['XIJ']
                c = [S.sub(S.mul(X[1], da[2]), S.mul(X[2], da[1])),
                     S.sub(S.mul(X[2], da[0]), S.mul(X[0], da[2])),
                     S.sub(S.mul(X[0], da[1]), S.mul(X[1], da[0]))]
                for k in range(3):
                    g = S.cmp('==', c[k], 0)
                    ang.append(Obligation('ang.%d.%d' % (i, k), a.pc,
                                          S.to_z3(g) if S.is_sym(g) else
                                          z3.BoolVal(bool(g)), mm.path))
        # frame: no store to any source array, none outside the own cell
        if a.kind == 'return':
            args0 = res['ab'][4]
            for nm, v0 in args0.items():
                if not isinstance(v0, list) or nm in ('XIJ', 'VIJ', 'DWIJ',
                                                      'DWI', 'DWJ'):
                    continue
                fin = a.state.env.get(nm)
                ok = isinstance(fin, list) and len(fin) == len(v0)
                if ok and nm.startswith('s_'):
                    ok = all(S.same(p, q) for p, q in zip(fin, v0))
                elif ok:
                    ok = S.same(fin[1], v0[1])
                frame.append(Obligation('frame.%s' % nm, a.pc,
                                        z3.BoolVal(bool(ok)), mm.path))
    ctx.prove('%s.linear' % T, lin, replay=replay_eq(modname, cls, central),
              sample=True)
    if central:
        ctx.prove('%s.angular' % T, ang, replay=replay_eq(modname, cls, True))
    ctx.prove('%s.frame' % T, frame or [Obligation('none', [],
                                                   z3.BoolVal(False))])


def task_rho(ctx, repo, modname, cls, prop):
    r = repo.find_method(modname, cls, 'loop')
    mm, cdef, loopfn = r
    argnames = [a.arg for a in loopfn.args.args][1:]
    args, outs, pair, who = build_env('ab', argnames)
    acc0 = z3.Real('acc0')
    args['d_' + prop] = [acc0, z3.Real('junk_d_out')]
    ex = Executor(repo, mm, qualname='%s.loop' % cls, definedness='assume',
                  merge=True, prune=False, inline={'*'})
    obj = SymObject(cls, {}, 'self')
    obj.module = mm.name
    ex.lazy_attrs = True
    pre = [z3.Real('m_b') > 0, pair['WIJ'] >= 0, pair['WI'] >= 0,
           z3.Real('m_a') > 0]
    outs_ = ex.exec_function(loopfn, dict(args, self=obj), State(pc=pre))
    ctx.function(mm, loopfn, '%s.loop' % cls, ex.dropped)
    T = '%s.%s' % (_short(modname), cls)
    obs = []
    for i, o in enumerate(outs_):
        if o.kind != 'return':
            obs.append(Obligation('raise', o.pc, z3.BoolVal(False), mm.path))
            continue
        fin = o.state.env['d_' + prop][0]
        W = pair['WI'] if 'WI' in argnames else pair['WIJ']
        term = W if prop == 'V' else S.mul(
            z3.Real('m_b') if 's_m' in argnames else z3.Real('m_a'), W)
        obs.append(Obligation('term.%d' % i, o.pc, S.to_z3(S.cmp(
            '==', fin, S.add(acc0, term))), mm.path))
        obs.append(Obligation('nonneg.%d' % i, o.pc, S.to_z3(S.cmp(
            '>=', S.sub(fin, acc0), 0)), mm.path))
    ctx.prove('%s.term_nonneg' % T, obs)


def task_w0(ctx, repo):
    """W(0, h) > 0 for every kernel (the self term of a density sum)."""
    from contracts import C08
    m = repo.module(C08.MOD)
    h = z3.Real('h')
    obs = []
    for cls in C08.DIMS:
        for dim in C08.DIMS[cls]:
            ex0, obj, _ = C08._mk_self(repo, m, cls, dim)
            ex = Executor(repo, m, qualname=cls + '.kernel',
                          definedness='assume')
            outs = ex.exec_function(m.methods(cls)['kernel'],
                                    dict(self=obj, xij=[0, 0, 0],
                                         rij=Fraction(0), h=h),
                                    State(pc=[h > 0]))
            for o in outs:
                obs.append(Obligation('%s.d%d' % (cls, dim), o.pc, S.to_z3(
                    S.cmp('>', o.value, 0)), m.path))
            ctx.function(m, m.methods(cls)['kernel'], cls + '.kernel')

    def rp(model, ob):
        mod = native.load(C08.MOD)
        for cls in C08.DIMS:
            for dim in C08.DIMS[cls]:
                k = getattr(mod, cls)(dim=dim)
                if not k.kernel([0., 0., 0.], 0.0, 1.0) > 0:
                    return dict(reproduced=True, kernel=cls, dim=dim)
        return dict(reproduced=False)
    ctx.prove('kernel.self_term_positive', obs, replay=rp)
