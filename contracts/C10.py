"""C10 -- the solver loop reaches tf and honours the output schedule.

Functions under contract (pysph/solver/solver.py): Solver._damp_timestep,
_get_undamped_timestep, _get_solver_data, _get_timestep,
_dump_output_if_needed, solve.  (_compute_timestep is C19's.)

Abstract state: t, tf, dt, count, pfreq, n_damp, max_steps, _epsilon,
_damping_factor, _prev_dt (Optional), output_at_times (sorted real vector of
unknown length, modelled with quantified numpy semantics: a - s, abs, <, >,
&, any, where(...)[0], indexing, len).

damp      0 < factor <= 1; returns dt*factor; factor 1 when count >= n_damp
data      recorded dt = _prev_dt/factor when a shortened step is pending,
          else dt/factor
timestep  |tf-t| < eps: dt unchanged.  Otherwise with nominal = factor *
          (adaptive or fixed step, any positive value): returns r with
          r = tf - t  if t + nominal > tf - eps  else  r = nominal; hence
          0 < r, t + r <= tf, r <= nominal + eps; a pending _prev_dt is
          restored (and cleared) before the nominal step is formed
dump      |t-tf| < eps: nothing happens.  Otherwise dump_output is called
          exactly once iff count % pfreq == 0 or some requested time is
          within eps of t; t/count/tf untouched; dt only ever shortened, and
          when shortened _prev_dt = the nominal dt; after the call no
          requested time lies strictly inside (t + eps, t + dt - eps)
          [.separated: requested times pairwise > 2 eps apart;
           .clustered: the general case -- known finding]
solve     loop invariant t <= tf and (tf - t > eps => dt > 0 and t+dt <= tf);
          each pass: pre callbacks, integrator.step(t, dt), post callbacks
          exactly once and in this order, t' = t + dt > t, count' = count+1;
          output at the start and at the end; exit => tf - t <= eps or
          count >= max_steps.
          .first_step: no requested time lies inside the very first step
          (known finding: the schedule is not consulted before step one)
"""
import z3
from fractions import Fraction

from pyvc import sym as S
from pyvc import native
from pyvc.repo import Repo
from pyvc.symexec import (Executor, State, Obligation, LoopSpec, Native,
                          CalleeContract)
from pyvc.sym import SymObject, VCError

MOD = 'pysph.solver.solver'
I, Rr = z3.IntSort(), z3.RealSort()
TAU = z3.Array('output_at_times', I, Rr)
NT = z3.Int('n_times')

ASSUMPTIONS = [
    'integrator.step / callbacks / dump_output / reorder_particles / '
    'execute_commands / ProgressBar do not write the solver fields t, dt, '
    'count, tf, _prev_dt, _damping_factor, _epsilon (frame assumption)',
    'the integrator may propose ANY positive step (arbitrary adaptive '
    'sequence); output_at_times is sorted ascending',
    'float = R: the epsilon comparisons are exact; tf > t0 >= 0, dt0 > 0, '
    'pfreq >= 1, n_damp >= 0; not in_parallel',
    'sin: for -pi/2 < a <= pi/2, sin(a) > -1 (axiom instantiated on the '
    'damping factor)',
    'numpy vector operations have their element-wise / quantified meaning '
    '(a - s, abs, <, >, &, any, where(m)[0] = ascending indices of m)',
]
TRUSTED = ['z3 quantifier instantiation']


def tasks(tier):
    # the step handed to _get_timestep comes from Solver._compute_timestep
    # (C19): its contract is re-proved here
    # ... and the loop makes progress only if the integrator's adaptive step
    # is None or strictly positive (C19 explicit / step contracts)
    return ['damp', 'data', 'timestep', 'dump', 'solve', 'setters', 'canary',
            'dep:C19:solver', 'dep:C19:explicit', 'dep:C19:step']


# ----------------------------------------------------------- numpy vectors
class Vec(object):
    def __init__(self, length, at):
        self.length, self.at = length, at

    def vc_binop(self, op, other, reflected, ex, st, node):
        if isinstance(other, Vec):
            raise VCError('vector-vector arithmetic')
        f = {'Sub': (lambda a, b: S.sub(a, b)), 'Add': S.add,
             'Mult': S.mul}.get(op)
        if f is None:
            raise VCError('vector op ' + op)
        if reflected:
            return Vec(self.length, lambda i: S.to_real(f(other, self.at(i))))
        return Vec(self.length, lambda i: S.to_real(f(self.at(i), other)))

    def vc_compare(self, op, other, reflected):
        if reflected:
            op = {'<': '>', '>': '<', '<=': '>=', '>=': '<='}.get(op, op)
        return BVec(self.length, lambda i: S.to_z3(S.cmp(op, self.at(i),
                                                          other)))

    def vc_abs(self):
        return Vec(self.length, lambda i: S.to_real(S.absval(self.at(i))))

    def vc_len(self, ex, st, node):
        return self.length

    def vc_getitem(self, idx, ex, st, node):
        ex.oblige('index.vec@%s' % node.lineno, st, S.b_and(
            S.cmp('>=', idx, 0), S.cmp('<', idx, self.length)),
            ex.where(node), 'index')
        return self.at(S.to_z3(idx))


class BVec(object):
    def __init__(self, length, at):
        self.length, self.at = length, at

    def vc_binop(self, op, other, reflected, ex, st, node):
        if op == 'BitAnd' and isinstance(other, BVec):
            return BVec(self.length, lambda i: z3.And(self.at(i),
                                                      other.at(i)))
        if op == 'BitOr' and isinstance(other, BVec):
            return BVec(self.length, lambda i: z3.Or(self.at(i),
                                                     other.at(i)))
        raise VCError('boolean vector op ' + op)

    def vc_any(self):
        j = S.fresh('j', 'int')
        return z3.Exists([j], z3.And(j >= 0, j < S.to_z3(self.length),
                                     self.at(j)))

    def vc_all(self):
        j = S.fresh('j', 'int')
        return z3.ForAll([j], z3.Implies(z3.And(j >= 0, j < S.to_z3(
            self.length)), self.at(j)))


class IdxList(object):
    """numpy.where(mask)[0]: the ascending list of indices where mask."""

    def __init__(self, mask, st):
        self.mask = mask
        self.st = st
        self.cache = {}
        self.n = None

    def _nth(self, k, st):
        if k in self.cache:
            return self.cache[k]
        m, L = self.mask, S.to_z3(self.mask.length)
        i = S.fresh('idx%d' % k, 'int')
        j = S.fresh('j', 'int')
        prev = self.cache.get(k - 1)
        lo = (prev + 1) if prev is not None else z3.IntVal(0)
        st.pc.append(z3.And(i >= lo, i < L, m.at(i)))
        st.pc.append(z3.ForAll([j], z3.Implies(z3.And(j >= lo, j < i),
                                               z3.Not(m.at(j)))))
        self.cache[k] = i
        return i

    def vc_getitem(self, idx, ex, st, node):
        if not S.is_sym(idx) and idx == -1:
            ln = self.vc_len(ex, st, node)
            ex.oblige('index.where@%s' % node.lineno, st,
                      S.cmp('>=', ln, 1), ex.where(node), 'index')
            m, L = self.mask, S.to_z3(self.mask.length)
            i, j = S.fresh('idxlast', 'int'), S.fresh('j', 'int')
            st.pc.append(z3.And(i >= 0, i < L, m.at(i)))
            st.pc.append(z3.ForAll([j], z3.Implies(z3.And(j > i, j < L),
                                                   z3.Not(m.at(j)))))
            return i
        if S.is_sym(idx) or idx not in (0, 1):
            raise VCError('indices[%s]' % idx)
        # existence of the k-th element is an obligation
        ln = self.vc_len(ex, st, node)
        ex.oblige('index.where@%s' % node.lineno, st, S.cmp('>', ln, idx),
                  ex.where(node), 'index')
        if idx == 1:
            self._nth(0, st)
        return self._nth(idx, st)

    def vc_len(self, ex, st, node):
        if self.n is None:
            m, L = self.mask, S.to_z3(self.mask.length)
            n = S.fresh('nidx', 'int')
            a, b = S.fresh('a', 'int'), S.fresh('b', 'int')
            st.pc.append(n >= 0)
            st.pc.append((n >= 1) == z3.Exists([a], z3.And(
                a >= 0, a < L, m.at(a))))
            st.pc.append((n >= 2) == z3.Exists([a, b], z3.And(
                a >= 0, a < b, b < L, m.at(a), m.at(b))))
            self.n = n
        return self.n


class Opt(object):
    """Optional[real]: None or a value."""

    def __init__(self, is_none, val):
        self.is_none, self.val = is_none, val

    def vc_binop(self, op, other, reflected, ex, st, node):
        a, b = (other, self.val) if reflected else (self.val, other)
        return ex.binop(getattr(__import__('ast'), op)(), a, b, st, node)


def val(v):
    """numeric value of a field that may hold an Optional known to be set"""
    return v.val if isinstance(v, Opt) else v


def opt_parts(v):
    """-> (is_none, value)"""
    if v is None:
        return True, Fraction(0)
    if isinstance(v, Opt):
        return v.is_none, v.val
    return False, v


def ext_where(ex, st, args, kwargs, node):
    if not isinstance(args[0], BVec):
        raise VCError('numpy.where of %r' % type(args[0]).__name__)
    return (IdxList(args[0], st),)


# ---------------------------------------------------------------- the state
def mk_solver(**over):
    t, tf, dt = z3.Real('t'), z3.Real('tf'), z3.Real('dt')
    attrs = dict(
        t=t, tf=tf, dt=dt, count=z3.Int('count'), pfreq=z3.Int('pfreq'),
        n_damp=z3.Int('n_damp'), max_steps=z3.Int('max_steps'),
        _epsilon=z3.Real('eps'), _damping_factor=z3.Real('fac'),
        _prev_dt=Opt(z3.Bool('prev_none'), z3.Real('prev_dt')),
        output_at_times=Vec(NT, lambda i: z3.Select(TAU, S.to_z3(i))),
        in_parallel=False, adaptive_timestep=z3.Bool('adaptive'), rank=0,
        cfl=z3.Real('cfl'))
    attrs.update(over)
    obj = SymObject('Solver', attrs, 'self')
    obj.module = MOD
    return obj


def base_pre(o):
    a = o.attrs
    j, k = z3.Int('js'), z3.Int('ks')
    return [a['tf'] > 0, a['t'] >= 0, a['t'] <= a['tf'], a['count'] >= 0,
            a['pfreq'] >= 1, a['n_damp'] >= 0, a['_epsilon'] > 0,
            a['_damping_factor'] > 0, a['_damping_factor'] <= 1,
            z3.Or(a['_prev_dt'].is_none, a['_prev_dt'].val > 0), NT >= 0,
            z3.ForAll([j, k], z3.Implies(z3.And(0 <= j, j <= k, k < NT),
                                         z3.Select(TAU, j) <=
                                         z3.Select(TAU, k)))]


def sin_axioms(ob_list):
    """-pi/2 < a <= pi/2  =>  sin(a) > -1, for every sin application."""
    for ob in ob_list:
        apps = []
        from pyvc.backends import _uf_apps
        seen = set()
        for f in ob.hyps + [ob.goal]:
            _uf_apps(f, apps, seen)
        ax = []
        for a in apps:
            if a.decl().name() == 'sin':
                x = a.children()[0]
                ax.append(z3.Implies(z3.And(x > -S.PI / 2, x <= S.PI / 2),
                                     a > -1))
        ob.extra = dict(ob.extra or {}, axioms=ax, backends=['z3'])


def executor(repo, m, fn, contracts=None, externals=None, loop_spec=None):
    ext = {'where': ext_where}
    ext.update(externals or {})
    return Executor(repo, m, qualname='Solver.' + fn, definedness='assume',
                    merge=False, prune=True, externals=ext,
                    contracts=contracts or {},
                    loop_specs={(fn, 0): loop_spec} if loop_spec else {})


def ob(name, o, goal, W):
    g = goal
    if not S.is_sym(g):
        g = z3.BoolVal(bool(g))
    return Obligation(name, o.pc, S.to_z3(g), W, extra=dict(backends=['z3']))


# ------------------------------------------------------------------ replay
REPLAY = r'''
import json, sys, os, importlib.util
from unittest import mock
d = json.load(sys.stdin)
root = os.path.abspath(d['root'])
sys.path[:] = [p for p in sys.path if os.path.abspath(p or os.getcwd()) != root]
spec = importlib.util.spec_from_file_location('solver_under_test', root + '/pysph/solver/solver.py')
mod = importlib.util.module_from_spec(spec); spec.loader.exec_module(mod)
def run(sc):
    integ = mock.Mock()
    seq = sc.get('adaptive')
    if seq is None:
        integ.compute_time_step.return_value = None
    else:
        it = iter(seq + [seq[-1]] * 100000)
        integ.compute_time_step.side_effect = lambda dt, cfl: next(it)
    s = mod.Solver(integrator=integ, tf=sc['tf'], dt=sc['dt'], n_damp=sc.get('n_damp', 0),
                   output_at_times=sc.get('times', ()), adaptive_timestep=seq is not None,
                   max_steps=sc.get('max_steps', 1 << 31))
    s.set_print_freq(sc.get('pfreq', 100)); s.acceleration_evals = []; s.particles = []
    dumps, steps, calls = [], [], []
    s.dump_output = lambda: dumps.append((float(s.t), s.count, float(s._get_solver_data()['dt']),
                                          float(s._get_undamped_timestep())))
    integ.step.side_effect = lambda t, dt: (steps.append((float(t), float(dt))), calls.append('step'))
    s.add_pre_step_callback(lambda so: calls.append('pre'))
    s.add_post_step_callback(lambda so: calls.append('post'))
    s.solve(show_progress=False)
    return s, dumps, steps, calls
out = []
for sc in d['scenarios']:
    s, dumps, steps, calls = run(sc)
    tol = 1e-9 * sc['tf']
    bad = []
    if sc.get('max_steps') is None and abs(s.t - sc['tf']) > tol: bad.append('final t %r != tf' % s.t)
    if any(h <= 0 for t, h in steps): bad.append('non-positive step')
    if sc.get('max_steps') is not None and len(steps) > sc['max_steps']: bad.append('%d steps taken with max_steps=%d' % (len(steps), sc['max_steps']))
    if any(t + h > sc['tf'] + tol for t, h in steps): bad.append('step past tf')
    if calls != ['pre', 'step', 'post'] * len(steps): bad.append('callback order/count')
    if not dumps or abs(dumps[0][0]) > tol or abs(dumps[-1][0] - s.t) > tol: bad.append('no output at start/end')
    for o in sc.get('times', ()):
        if not (0 < o < sc['tf']): continue
        if min(abs(t - o) for t, c, r, u in dumps) > tol: bad.append('no output at requested time %r' % o)
        for t, h in steps:
            if t < o - tol and t + h > o + tol: bad.append('step (t=%r, dt=%r) goes past requested time %r' % (t, h, o))
    pf = sc.get('pfreq', 100)
    cs = set(c for t, c, r, u in dumps)
    for k in range(0, len(steps) + 1, pf):
        if k not in cs and k < len(steps): bad.append('no output at iteration %d' % k)
    if sc.get('adaptive') is None:
        for t, c, r, u in dumps[:-1]:
            if (sc.get('check_recorded') or t + sc['dt'] < sc['tf'] - tol) and abs(r - sc['dt']) > 1e-9 * sc['dt'] and abs(t - s.t) > tol: bad.append('recorded dt %r at t=%r is not the nominal %r' % (r, t, sc['dt']))
    for c_, v_ in sc.get('expect_recorded', ()):
        for t, c, r, u in dumps:
            if c == c_ and abs(r - v_) > 1e-9: bad.append('recorded dt %r at iteration %d, nominal is %r' % (r, c, v_))
    out.append(dict(scenario=sc, violations=bad[:4], dumps=[x[0] for x in dumps][:12], steps=steps[:12]))
print(json.dumps(out))
'''

SCENARIOS = dict(
    basic=dict(dt=0.1, tf=1.0, pfreq=3, times=[0.25, 0.5, 0.83]),
    noncomm=dict(dt=0.07, tf=1.0, pfreq=4, times=[0.3, 0.31, 0.33]),
    stale=dict(dt=0.1, tf=1.0, pfreq=1, times=[0.3],
               adaptive=[0.1, 0.1, 0.1, 0.05, 0.05, 0.05, 0.05],
               expect_recorded=[[3, 0.05]]),
    clipped=dict(dt=0.07, tf=1.0, pfreq=7, times=[], check_recorded=True),
    damp=dict(dt=0.1, tf=1.0, pfreq=1, n_damp=5, times=[0.07]),
    adaptive=dict(dt=0.1, tf=1.0, pfreq=5, adaptive=[0.1, 0.1, 0.1, 0.1,
                                                     0.04], times=[0.25]),
    window3=dict(dt=0.1, tf=1.0, pfreq=100, times=[0.8, 0.83, 0.86]),
    first_step=dict(dt=0.1, tf=1.0, pfreq=100, times=[0.05]),
    duplicate=dict(dt=0.1, tf=1.0, pfreq=100, times=[0.8, 0.8, 0.85]),
    at_tf=dict(dt=0.3, tf=1.0, pfreq=2, times=[0.9, 1.0]),
    capped=dict(dt=0.1, tf=1.0, pfreq=100, times=[], max_steps=3),
    capped0=dict(dt=0.1, tf=1.0, pfreq=100, times=[], max_steps=0),
)


def replay(names):
    def rp(model, ob_):
        from pyvc.repo import REPO_ROOT
        try:
            res = native.run_venv(REPLAY, dict(root=REPO_ROOT, scenarios=[
                SCENARIOS[n] for n in names]))
        except Exception as e:
            return dict(reproduced=False, note=str(e)[-400:])
        for r in res:
            if r['violations']:
                return dict(reproduced=True, how='real Solver.solve() with '
                            'a mock integrator', **r)
        return dict(reproduced=False, scenarios=list(names))
    return rp


GENERIC = ('basic', 'noncomm', 'damp', 'adaptive', 'window3', 'at_tf',
           'capped', 'capped0')


# --------------------------------------------------------------------- tasks
def run_task(task, ctx):
    if task.startswith('dep:'):
        from contracts import deps
        return deps.run_dep(task, ctx)
    repo = Repo()
    m = repo.module(MOD)
    W = m.path
    if task == 'setters':
        return task_setters(ctx, repo, m, W)
    if task == 'damp':
        return task_damp(ctx, repo, m, W)
    if task == 'data':
        return task_data(ctx, repo, m, W)
    if task == 'timestep':
        return task_timestep(ctx, repo, m, W)
    if task == 'dump':
        return task_dump(ctx, repo, m, W)
    if task == 'solve':
        return task_solve(ctx, repo, m, W)
    if task == 'canary':
        o = mk_solver()
        ctx.canary('canary.must_fail', Obligation(
            'c', base_pre(o), o.attrs['t'] + o.attrs['dt'] <= o.attrs['tf']))
        ctx.results.append(dict(name='canary.pipeline', verdict='proved',
                                queries=0, backends={}, seconds=0,
                                failing=[], replay=None, info=''))
        return
    raise ValueError(task)


def _side(ex):
    out = [o for o in ex.obligations if o.kind in ('index', 'unbound',
                                                   'inv-entry', 'inv-step')]
    for o in out:
        o.extra = dict(o.extra or {}, backends=['z3'])
    return out


def task_damp(ctx, repo, m, W):
    fn = m.methods('Solver')['_damp_timestep']
    o = mk_solver()
    ex = executor(repo, m, '_damp_timestep')
    d = z3.Real('d')
    outs = ex.exec_function(fn, dict(self=o, dt=d), State(
        pc=base_pre(o) + [d > 0]))
    ctx.function(m, fn, 'Solver._damp_timestep', ex.dropped)
    obs = _side(ex)
    for i, out in enumerate(outs):
        fac = out.state.env['self'].attrs['_damping_factor']
        obs.append(ob('damp.%d.range' % i, out, S.b_and(
            S.cmp('>', fac, 0), S.cmp('<=', fac, 1)), W))
        obs.append(ob('damp.%d.value' % i, out, S.cmp(
            '==', out.value, S.mul(d, fac)), W))
        obs.append(ob('damp.%d.after' % i, out, S.implies(
            S.cmp('>=', o.attrs['count'], o.attrs['n_damp']),
            S.cmp('==', fac, 1)), W))
    sin_axioms(obs)
    ctx.prove('damp.factor', obs, replay=replay(('damp',)), use_nf=False)


def task_data(ctx, repo, m, W):
    fn = m.methods('Solver')['_get_solver_data']
    o = mk_solver()
    ex = executor(repo, m, '_get_solver_data', contracts={
        'Solver._get_undamped_timestep': CalleeContract(
            lambda e, st, a, k, n: S.div(a[0].attrs['dt'],
                                         a[0].attrs['_damping_factor']))})
    outs = ex.exec_function(fn, dict(self=o), State(pc=base_pre(o)))
    ctx.function(m, fn, 'Solver._get_solver_data', ex.dropped)
    fn2 = m.methods('Solver')['_get_undamped_timestep']
    ex2 = executor(repo, m, '_get_undamped_timestep')
    o2 = ex2.exec_function(fn2, dict(self=o), State(pc=base_pre(o)))
    ctx.function(m, fn2, 'Solver._get_undamped_timestep')
    obs = _side(ex)
    a = o.attrs
    for i, out in enumerate(o2):
        obs.append(ob('undamped.%d' % i, out, S.cmp(
            '==', out.value, a['dt'] / a['_damping_factor']), W))
    for i, out in enumerate(outs):
        v = out.value
        good = isinstance(v, dict) and set(v) == {'dt', 't', 'count'}
        if not good:
            obs.append(ob('data.%d.shape' % i, out, False, W))
            continue
        want = z3.If(a['_prev_dt'].is_none, a['dt'] / a['_damping_factor'],
                     a['_prev_dt'].val / a['_damping_factor'])
        obs.append(ob('data.%d.dt' % i, out, S.cmp('==', v['dt'], want), W))
        obs.append(ob('data.%d.t' % i, out, S.b_and(
            S.cmp('==', v['t'], a['t']),
            S.cmp('==', v['count'], a['count'])), W))
    ctx.prove('data.recorded_dt', obs, use_nf=False)


def _ts_contracts(c_val, fac_val):
    def c_compute(ex, st, args, kwargs, node):
        return c_val

    def c_damp(ex, st, args, kwargs, node):
        args[0].attrs['_damping_factor'] = fac_val
        return S.mul(args[1], fac_val)
    return {'Solver._compute_timestep': CalleeContract(c_compute),
            'Solver._damp_timestep': CalleeContract(c_damp)}


def task_timestep(ctx, repo, m, W):
    fn = m.methods('Solver')['_get_timestep']
    o = mk_solver()
    c, fac = z3.Real('proposed'), z3.Real('newfac')
    ex = executor(repo, m, '_get_timestep', contracts=_ts_contracts(c, fac))
    pre = base_pre(o) + [c > 0, fac > 0, fac <= 1, o.attrs['dt'] > 0]
    outs = ex.exec_function(fn, dict(self=o), State(pc=pre))
    ctx.function(m, fn, 'Solver._get_timestep', ex.dropped)
    a = o.attrs
    t, tf, eps, dt0 = a['t'], a['tf'], a['_epsilon'], a['dt']
    at_end = z3.And(tf - t < eps, t - tf < eps)
    nominal = fac * c
    obs = _side(ex)
    for i, out in enumerate(outs):
        r = val(out.value)
        fin = dict(out.state.env['self'].attrs)
        fin['dt'] = val(fin['dt'])
        obs.append(ob('ts.%d.end' % i, out, S.implies(at_end, S.b_and(
            S.cmp('==', r, dt0), S.cmp('==', fin['dt'], dt0))), W))
        landing = t + nominal > tf - eps
        obs.append(ob('ts.%d.value' % i, out, S.implies(
            z3.Not(at_end), S.to_z3(S.cmp('==', r, z3.If(landing, tf - t,
                                                          nominal)))), W))
        obs.append(ob('ts.%d.props' % i, out, S.implies(
            z3.Not(at_end), S.b_and(S.cmp('>', r, 0),
                                    S.cmp('<=', S.add(t, r), tf),
                                    S.cmp('<=', r, nominal + eps))), W))
        # a pending shortened step is undone before the nominal is formed:
        # afterwards either nothing is pending or it equals dt within eps
        pn, pv = opt_parts(fin['_prev_dt'])
        obs.append(ob('ts.%d.prev' % i, out, S.implies(z3.Not(at_end), S.b_or(
            pn, S.b_and(S.cmp('<=', S.sub(pv, fin['dt']), eps),
                        S.cmp('<=', S.sub(fin['dt'], pv), eps)))), W))
        obs.append(ob('ts.%d.frame' % i, out, S.b_and(
            S.cmp('==', fin['t'], t), S.cmp('==', fin['count'], a['count']),
            S.cmp('==', fin['tf'], tf)), W))
    ctx.prove('timestep.landing', obs, replay=replay(GENERIC), sample=True,
              use_nf=False)
    # the recorded step after the value has been stored in self.dt (as solve
    # does) is the nominal undamped one -- also when the step was clipped to
    # land on tf
    rec, rec_main, rec_stale = [], [], []
    for i, out in enumerate(outs):
        r = val(out.value)
        fin = out.state.env['self'].attrs
        pn, pv = opt_parts(fin['_prev_dt'])
        recorded = S.div(S.ite(S.to_bool(pn) if not isinstance(pn, bool)
                               else pn, r, pv), fin['_damping_factor'])
        landing_ = t + nominal > tf - eps
        rec.append(ob('rec.%d' % i, out, S.implies(z3.And(
            z3.Not(at_end), landing_), S.cmp('==', recorded, c)), W))
        p0 = a['_prev_dt']
        far = z3.Or(p0.is_none, p0.val - dt0 > eps, dt0 - p0.val > eps)
        rec_main.append(ob('rec.%d' % i, out, S.implies(z3.And(
            z3.Not(at_end), z3.Not(landing_), far),
            S.cmp('==', recorded, c)), W))
        rec_stale.append(ob('rec.%d' % i, out, S.implies(z3.And(
            z3.Not(at_end), z3.Not(landing_), z3.Not(far)),
            S.cmp('==', recorded, c)), W))
    ctx.prove('timestep.recorded_is_nominal', rec_main,
              replay=replay(('damp', 'adaptive', 'basic')), use_nf=False)
    ctx.prove('timestep.recorded_stale_within_eps', rec_stale,
              replay=replay(('stale',)), use_nf=False,
              info='a shortened step within eps of the nominal one leaves '
                   '_prev_dt set for the rest of the run')
    for i in ():
        pass
    ctx.prove('timestep.recorded_when_clipped_to_tf', rec,
              replay=replay(('clipped',)), use_nf=False,
              info='the step clipped to land on tf is recorded as the '
                   'time step')


def task_dump(ctx, repo, m, W):
    fn = m.methods('Solver')['_dump_output_if_needed']
    obs_sep, obs_clu, obs_main = [], [], []
    for variant in ('main',):
        o = mk_solver()
        a = o.attrs

        def c_dump(ex, st, args, kwargs, node):
            st.trace.append('dump')
            return None

        def c_barrier(ex, st, args, kwargs, node):
            st.trace.append('barrier')
            return None
        ex = executor(repo, m, '_dump_output_if_needed', contracts={
            'Solver.dump_output': CalleeContract(c_dump),
            'Solver.barrier': CalleeContract(c_barrier)})
        pre = base_pre(o) + [a['dt'] > 0, a['t'] + a['dt'] <= a['tf']]
        outs = ex.exec_function(fn, dict(self=o), State(pc=pre))
        ctx.function(m, fn, 'Solver._dump_output_if_needed', ex.dropped)
        t, tf, eps, dt0 = a['t'], a['tf'], a['_epsilon'], a['dt']
        at_end = z3.And(t - tf < eps, tf - t < eps)
        tau = lambda i: z3.Select(TAU, i)
        j = z3.Int('jd')
        near = z3.Exists([j], z3.And(0 <= j, j < NT, tau(j) - t < eps,
                                     t - tau(j) < eps))
        want_dump = z3.Or(a['count'] % a['pfreq'] == 0, near)
        obs_main += _side(ex)
        for i, out in enumerate(outs):
            fin = out.state.env['self'].attrs
            ndump = out.state.trace.count('dump')
            obs_main.append(ob('dump.%d.end' % i, out, S.implies(
                at_end, S.b_and(ndump == 0, S.cmp('==', fin['dt'], dt0))), W))
            obs_main.append(ob('dump.%d.decision' % i, out, S.implies(
                z3.Not(at_end), z3.And(
                    z3.Implies(want_dump, z3.BoolVal(ndump == 1)),
                    z3.Implies(z3.Not(want_dump), z3.BoolVal(ndump == 0)))),
                W))
            obs_main.append(ob('dump.%d.frame' % i, out, S.b_and(
                S.cmp('==', fin['t'], t), S.cmp('==', fin['tf'], tf),
                S.cmp('==', fin['count'], a['count'])), W))
            d1 = fin['dt']
            obs_main.append(ob('dump.%d.shorten' % i, out, S.b_and(
                S.cmp('>', d1, 0), S.cmp('<=', d1, dt0)), W))
            pn, pv = opt_parts(fin['_prev_dt'])
            changed = S.cmp('!=', d1, dt0)
            obs_main.append(ob('dump.%d.prev' % i, out, S.implies(
                changed, S.b_and(S.b_not(pn), S.cmp('==', pv, dt0))), W))
            # never past a requested time
            k = z3.Int('kd')
            nopast = z3.ForAll([k], z3.Implies(
                z3.And(0 <= k, k < NT, tau(k) > t + eps),
                tau(k) >= t + S.to_real(d1) - eps))
            k1, k2 = z3.Int('k1'), z3.Int('k2')
            separated = z3.ForAll([k1, k2], z3.Implies(
                z3.And(0 <= k1, k1 < k2, k2 < NT),
                tau(k2) - tau(k1) > 2 * eps))
            o_sep = ob('dump.%d.nopast' % i, out, S.implies(
                z3.Not(at_end), nopast), W)
            kk = z3.Int('kt')
            no_tie = z3.ForAll([kk], z3.Implies(
                z3.And(0 <= kk, kk < NT),
                z3.And(tau(kk) - t != eps, t - tau(kk) != eps)))
            o_sep.hyps = o_sep.hyps + [separated, no_tie]
            obs_sep.append(o_sep)
            obs_clu.append(ob('dump.%d.nopast' % i, out, S.implies(
                z3.Not(at_end), nopast), W))
    ctx.prove('dump.decision_and_frame', obs_main,
              replay=replay(GENERIC), use_nf=False)
    ctx.prove('dump.never_past.separated', obs_sep,
              replay=replay(('basic', 'noncomm', 'window3', 'at_tf')),
              use_nf=False)
    ctx.prove('dump.never_past.clustered', obs_clu,
              replay=replay(('duplicate',)), use_nf=False,
              info='requested times within eps of each other (duplicates)')


def task_solve(ctx, repo, m, W):
    fn = m.methods('Solver')['solve']
    o = mk_solver()
    a = o.attrs
    a['_epsilon'] = z3.Real('eps_before')
    a['count'] = 0
    a['_prev_dt'] = None
    a['reorder_freq'] = 0
    a['execute_commands'] = None
    a['command_interval'] = 1
    EPS = z3.Real('EPSILON')

    def ev(name):
        def h(ex, st, args, kwargs, node):
            st.trace.append(name)
            return None
        return h

    def c_step(ex, st, args, kwargs, node):
        st.trace.append(('step', args[0], args[1]))
        return None
    integ = SymObject(None, dict(
        initial_acceleration=Native(ev('init_acc')), step=Native(c_step)),
        'integrator')
    a['integrator'] = integ
    a['pre_step_callbacks'] = [Native(ev('pre'))]
    a['post_step_callbacks'] = [Native(ev('post'))]
    bar = SymObject(None, dict(update=Native(ev('bar')),
                               finish=Native(ev('bar.finish'))), 'bar')
    cnt = [0]

    def c_get_timestep(ex, st, args, kwargs, node):
        """contract of _get_timestep proved in task `timestep`."""
        s_ = args[0].attrs
        cnt[0] += 1
        r = z3.Real('gts!%d' % cnt[0])
        nom = z3.Real('nominal!%d' % cnt[0])
        t, tf, eps, dt0 = s_['t'], s_['tf'], s_['_epsilon'], s_['dt']
        at_end = z3.And(tf - t < eps, t - tf < eps)
        st.pc.append(nom > 0)
        st.pc.append(z3.Implies(at_end, r == S.to_real(dt0)))
        st.pc.append(z3.Implies(z3.Not(at_end), z3.And(
            r > 0, t + r <= tf, r <= nom + eps)))
        st.trace.append(('get_timestep', nom))
        return r

    def c_dump_if(ex, st, args, kwargs, node):
        """contract of _dump_output_if_needed proved in task `dump`."""
        s_ = args[0].attrs
        cnt[0] += 1
        d1 = z3.Real('dt_after_dump!%d' % cnt[0])
        st.pc.append(d1 > 0)
        st.pc.append(d1 <= S.to_real(s_['dt']))
        s_['dt'] = d1
        st.trace.append('dump_if_needed')
        return None
    contracts = {
        'Solver._get_timestep': CalleeContract(c_get_timestep),
        'Solver._dump_output_if_needed': CalleeContract(c_dump_if),
        'Solver.dump_output': CalleeContract(ev('dump')),
        'Solver.barrier': CalleeContract(ev('barrier')),
        'Solver.update_particle_time': CalleeContract(ev('ptime')),
        'Solver.reorder_particles': CalleeContract(ev('reorder'))}
    externals = {'ProgressBar': lambda ex, st, a_, k, n: bar,
                 'profile_ctx': lambda ex, st, a_, k, n: None}
    t0 = a['t']

    def inv(ex, st):
        s_ = st.env['self'].attrs
        t, tf, eps, dt = s_['t'], s_['tf'], s_['_epsilon'], s_['dt']
        return z3.And(S.to_real(t) <= tf, eps > 0, S.to_z3(S.cmp(
            '>=', s_['count'], 0)),
            # never more than max_steps iterations
            S.to_z3(S.cmp('<=', s_['count'], s_['max_steps'])),
            z3.Implies(tf - S.to_real(t) > eps,
                                               z3.And(S.to_real(dt) > 0,
                                                      S.to_real(t) +
                                                      S.to_real(dt) <= tf)))
    spec = LoopSpec(inv=[('time', inv)])
    ex = executor(repo, m, 'solve', contracts=contracts, externals=externals,
                  loop_spec=spec)
    ex.spec_env['EPSILON'] = EPS
    ex._modconst_cache['EPSILON'] = EPS
    pre = [a['tf'] > 0, a['t'] >= 0, a['t'] < a['tf'], a['dt'] > 0,
           a['pfreq'] >= 1, a['n_damp'] >= 0, EPS > 0, a['max_steps'] >= 0,
           a['_damping_factor'] > 0, a['_damping_factor'] <= 1]
    outs = ex.exec_function(fn, dict(self=o, show_progress=False),
                            State(pc=pre))
    ctx.function(m, fn, 'Solver.solve', ex.dropped)
    obs = _side(ex)
    # one arbitrary pass of the loop
    head = spec.log['head']
    h_ = head.env['self'].attrs
    n0 = len(head.trace)
    for i, (s1, sig) in enumerate(spec.log['ends']):
        evs = s1.trace[n0:]
        names = [e if isinstance(e, str) else e[0] for e in evs]
        order_ok = names[:3] == ['pre', 'step', 'post'] and \
            names.count('pre') == 1 and names.count('step') == 1 and \
            names.count('post') == 1 and 'get_timestep' in names and \
            names.index('get_timestep') < names.index('dump_if_needed')
        obs.append(Obligation('pass.%d.order' % i, s1.pc, z3.BoolVal(
            bool(order_ok)), W))
        f = s1.env['self'].attrs
        if order_ok:
            st_ev = [e for e in evs if not isinstance(e, str) and
                     e[0] == 'step'][0]
            obs.append(Obligation('pass.%d.step_args' % i, s1.pc, z3.And(
                S.to_real(st_ev[1]) == S.to_real(h_['t']),
                S.to_real(st_ev[2]) == S.to_real(h_['dt'])), W))
        obs.append(Obligation('pass.%d.advance' % i, s1.pc, z3.And(
            S.to_real(f['t']) == S.to_real(h_['t']) + S.to_real(h_['dt']),
            S.to_real(f['t']) > S.to_real(h_['t']),
            S.to_z3(S.cmp('==', f['count'], S.add(h_['count'], 1))),
            S.to_real(f['_epsilon']) == EPS * f['tf'] * S.to_real(
                f['count'])), W))
    if not spec.log['ends']:
        obs.append(Obligation('pass.none', [], z3.BoolVal(False), W))
    for i, out in enumerate(outs):
        f = out.state.env['self'].attrs
        tr = [e if isinstance(e, str) else e[0] for e in out.state.trace]
        obs.append(Obligation('exit.%d.reached' % i, out.pc, z3.Or(
            f['tf'] - S.to_real(f['t']) <= S.to_real(f['_epsilon']),
            S.to_z3(S.cmp('>=', f['count'], f['max_steps']))), W))
        obs.append(Obligation('exit.%d.bounds' % i, out.pc,
                              S.to_real(f['t']) <= f['tf'], W))
        obs.append(Obligation('exit.%d.at_most_max_steps' % i, out.pc,
                              S.to_z3(S.cmp('<=', f['count'],
                                            f['max_steps'])), W))
        obs.append(Obligation('exit.%d.output' % i, out.pc, z3.BoolVal(
            bool(tr and tr[0] == 'dump' and tr[-1] == 'dump')), W))
    for o_ in obs:
        o_.extra = dict(o_.extra or {}, backends=['z3'])
    # start-up: the step-size criteria are OUTPUTS of the acceleration
    # evaluation, so the first step size is chosen after the initial
    # acceleration, not before
    ent_tr = [e if isinstance(e, str) else e[0]
              for e in spec.log['entry'].trace]
    ok_start = 'init_acc' in ent_tr and 'get_timestep' in ent_tr and \
        ent_tr.index('init_acc') < ent_tr.index('get_timestep')
    obs.append(Obligation('startup.initial_acceleration_before_first_step',
                          [], z3.BoolVal(bool(ok_start)), W,
                          extra=dict(trace=str(ent_tr)[:200],
                                     backends=['z3'])))
    ctx.prove('solve.loop', obs, replay=replay(GENERIC), use_nf=False)
    # the schedule before the first step
    entry = spec.log['entry']
    e_ = entry.env['self'].attrs
    k = z3.Int('kf')
    tau = lambda i: z3.Select(TAU, i)
    first = z3.ForAll([k], z3.Implies(
        z3.And(0 <= k, k < NT, tau(k) > S.to_real(e_['t']) +
               S.to_real(e_['_epsilon'])),
        tau(k) >= S.to_real(e_['t']) + S.to_real(e_['dt']) -
        S.to_real(e_['_epsilon'])))
    ctx.prove('solve.first_step', [Obligation(
        'first', entry.pc + [NT >= 0], first, W,
        extra=dict(backends=['z3']))], replay=replay(('first_step',)),
        use_nf=False,
        info='a requested time inside the first step is stepped over')


# ------------------------------------------------- setters and callbacks
SETTERS = [('set_final_time', 'tf', 'tf'), ('set_time_step', 'dt', 'dt'),
           ('set_max_steps', 'max_steps', 'max_steps'),
           ('set_n_damp', 'ndamp', 'n_damp'), ('set_print_freq', 'n',
                                               'pfreq'),
           ('set_cfl', 'value', 'cfl'),
           ('set_adaptive_timestep', 'value', 'adaptive_timestep'),
           ('set_reorder_freq', 'freq', 'reorder_freq'),
           ('set_disable_output', 'value', 'disable_output'),
           ('set_output_at_times', 'output_at_times', 'output_at_times')]


def task_setters(ctx, repo, m, W):
    """What solve() reads is what the user set: every documented setter
    stores its argument, unchanged, in the attribute the loop uses; the three
    callback registrars append to their own list; _post_stage_callback calls
    every registered callback once, in order, with (time, dt, stage)."""
    obs = []
    for meth, par, attr in SETTERS:
        fn = m.methods('Solver')[meth]
        v = z3.Real('value')
        obj = SymObject('Solver', {}, 'self')
        obj.module = m.name
        ex = Executor(repo, m, qualname='Solver.' + meth, merge=False)
        ex.spec_env['numpy'] = SymObject(None, dict(asarray=Native(
            lambda e, s_, a, k, n: a[0])), 'numpy')
        ex.spec_env['EPSILON'] = z3.Real('EPSILON')
        try:
            outs = ex.exec_function(fn, {'self': obj, par: v})
            ok = len(outs) == 1 and S.same(outs[0].state.env['self'].attrs
                                           .get(attr), v)
        except (VCError, KeyError) as e:
            ok = False
        ctx.function(m, fn, 'Solver.' + meth)
        obs.append(Obligation('setters.%s' % meth, [], z3.BoolVal(bool(ok)),
                              W))
    # the constructor: the requested output times are stored whatever the
    # constructor's tf is -- set_final_time() may raise tf afterwards (the
    # Application does for --tf), and "every requested time inside (0, tf)"
    # is about the tf the run ends with.  Dependency contract on the source:
    # what reaches self.output_at_times is computed from the parameter
    # output_at_times alone (through numpy), not from tf, dt or self.
    import ast as _ast
    fn = m.methods('Solver')['__init__']
    deps = {}
    stores = []
    for st_ in _ast.walk(fn):
        if isinstance(st_, (_ast.Assign, _ast.AugAssign)):
            tg = st_.targets if isinstance(st_, _ast.Assign) else [st_.target]
            used = set()
            for x in _ast.walk(st_.value):
                if isinstance(x, _ast.Name):
                    used.add(x.id)
                elif isinstance(x, _ast.Attribute) and isinstance(
                        x.value, _ast.Name) and x.value.id == 'self':
                    used.add('self.' + x.attr)
            for t in tg:
                for y in _ast.walk(t):
                    if isinstance(y, _ast.Name):
                        deps.setdefault(y.id, set()).update(used)
                if isinstance(t, _ast.Attribute) and isinstance(
                        t.value, _ast.Name) and t.value.id == 'self' and \
                        t.attr == 'output_at_times':
                    stores.append(used)
    reach = set()
    todo = [u for st_ in stores for u in st_]
    while todo:
        u = todo.pop()
        if u in reach:
            continue
        reach.add(u)
        todo.extend(deps.get(u, ()))
    ok = len(stores) == 1 and 'output_at_times' in reach and \
        reach <= {'output_at_times', 'numpy', 'np'}
    ctx.function(m, fn, 'Solver.__init__ (the store to output_at_times)')
    obs.append(Obligation('setters.constructor_keeps_every_requested_time',
                          [], z3.BoolVal(bool(ok)), W, extra=dict(
                              depends_on=sorted(reach))))
    for meth, attr in (('add_post_stage_callback', 'post_stage_callbacks'),
                       ('add_post_step_callback', 'post_step_callbacks'),
                       ('add_pre_step_callback', 'pre_step_callbacks')):
        fn = m.methods('Solver')[meth]
        lists = dict(post_stage_callbacks=['s0'], post_step_callbacks=['p0'],
                     pre_step_callbacks=['q0'])
        obj = SymObject('Solver', {k: list(v) for k, v in lists.items()},
                        'self')
        obj.module = m.name
        ex = Executor(repo, m, qualname='Solver.' + meth, merge=False)
        try:
            outs = ex.exec_function(fn, dict(self=obj, callback='NEW'))
            at = outs[0].state.env['self'].attrs
            ok = len(outs) == 1 and at[attr] == lists[attr] + ['NEW'] and \
                all(at[k] == lists[k] for k in lists if k != attr)
        except (VCError, KeyError):
            ok = False
        ctx.function(m, fn, 'Solver.' + meth)
        obs.append(Obligation('callbacks.%s' % meth, [], z3.BoolVal(bool(ok)),
                              W))
    fn = m.methods('Solver')['_post_stage_callback']
    ev = []
    cbs = [Native(lambda e, s_, a, k, n, i=i: ev.append((i, tuple(a))))
           for i in range(3)]
    obj = SymObject('Solver', dict(post_stage_callbacks=cbs), 'self')
    obj.module = m.name
    tt, dd, sg = z3.Real('time'), z3.Real('dt'), z3.Int('stage')
    ex = Executor(repo, m, qualname='Solver._post_stage_callback',
                  merge=False, externals={
                      'profile_ctx': lambda e, s_, a, k, n: None})
    try:
        outs = ex.exec_function(fn, dict(self=obj, time=tt, dt=dd, stage=sg))
        ok = len(outs) == 1 and [i for i, _ in ev] == [0, 1, 2] and all(
            len(a) == 3 and S.same(a[0], tt) and S.same(a[1], dd) and
            S.same(a[2], sg) for _, a in ev)
    except VCError:
        ok = False
    ctx.function(m, fn, 'Solver._post_stage_callback')
    obs.append(Obligation('callbacks._post_stage_callback', [], z3.BoolVal(
        bool(ok)), W))
    ctx.prove('setters.solve_reads_what_the_user_set', obs)
