"""C13 -- the small dense linear-algebra helpers solve what they are given.

pysph/sph/wc/linalg.py: identity, dot, mat_mult, mat_vec_mult,
augmented_matrix, gj_solve  -- for every n in 1..6 (nb, na in 1..3, nmax in
n..6): the property's own range, so the enumeration of sizes is exhaustive and
each instance is loop-free after unrolling over *symbolic real entries*.
pysph/base/linalg3.pyx (mechanical extraction): det, transform,
transform_diag, transform_diag_inv, zero_matrix_case.

helpers   every output cell equals the mathematical definition; every other
          cell of the output and all inputs are unchanged (frame); all indices
          inside the lists.
gj_solve  G1 indices inside n*(n+nb) / n*nb          (list bounds)
          G2 return value in {0.0, 1.0}
          G3 soundness, with ghost X (n x nb, any solution of A0 X = B0):
             the cut-point invariant  "row_r . [X; -I] = 0 for every row, and
             the entries already eliminated are 0 / normalised are 1"  is
             preserved by every row operation (checked after every iteration
             of the elimination and back-substitution loops; the matrix is
             then replaced by fresh symbols satisfying the invariant, which
             keeps every query linear-size);  on every path that returns 0
             without meeting a zero diagonal entry in back substitution,
             result == X, i.e. A0 . result = B0.
          G4 completeness (non-singular => returns 0): witness obligations on
             concrete matrices, executed exactly by the same executor:
             [[0,1],[1,0]] and 1e-13*I  (known findings) and a control.
NOT verified: tql2 (QL iteration convergence), get_eigenvalues (trigonometric
closed form), tred2; hence the eigen-decomposition clause A V = V diag(d) is
claimed only for zero_matrix_case and the transform helpers.
"""
import ast
import z3
from fractions import Fraction

from pyvc import sym as S
from pyvc import native
from pyvc.repo import Repo
from pyvc.symexec import Executor, State, Obligation, LoopSpec, Native
from pyvc.sym import VCError, SymObject

MOD = 'pysph.sph.wc.linalg'
PYX = 'pysph/base/linalg3.pyx'

ASSUMPTIONS = [
    'sizes n = 1..6, nb/na = 1..3 are enumerated (the sizes the property '
    'names); entries are arbitrary reals',
    'gj_solve G3 is conditional on a solution X existing and on no exactly-'
    'zero diagonal entry being met in back substitution (for non-singular '
    'input the latter cannot happen: product of pivots = det != 0 -- '
    'mathematical remark, not machine-checked)',
    'list arguments of distinct parameters do not alias',
]
TRUSTED = []


def tasks(tier):
    nmax = 4 if tier == 'quick' else 6
    out = []
    for n in range(1, nmax + 1):
        out.append('helpers:%d' % n)
        for nb in (1, 2, 3):
            out.append('gj:%d:%d' % (n, nb))
    out += ['gjwit', 'linalg3', 'tql2', 'callsites', 'systems', 'canary']
    # the interpolator's 4x4 moment block is handed to augmented_matrix /
    # gj_solve with its own row stride (C14 order1): re-proved here
    out += ['dep:C14:order1']
    out += ['tred2:%d' % k for k in range(TRED2_PATHS)]
    out += ['eigen_bounded']
    return out


def syms(prefix, k):
    return [z3.Real('%s%d' % (prefix, i)) for i in range(k)]


def _run(repo, m, fn, args, merge=False, hook=None, pre=None):
    ex = Executor(repo, m, qualname=fn, definedness='assume', merge=merge,
                  prune=True, max_paths=20000)
    ex.iter_hook = hook
    outs = ex.exec_function(m.functions[fn], args, State(pc=list(pre or [])))
    return ex, outs


def eqs(name, pc, pairs, where):
    return [Obligation('%s.%d' % (name, i), pc, S.to_z3(S.cmp('==', a, b))
                       if S.is_sym(S.cmp('==', a, b)) else
                       z3.BoolVal(bool(S.cmp('==', a, b))), where)
            for i, (a, b) in enumerate(pairs)]


# ------------------------------------------------------------------ replays
def _native():
    return native.load(MOD)


def replay_helper(fn, n, extra=None):
    def rp(model, ob):
        import random
        rnd = random.Random(3)
        mod = _native()
        A = [rnd.uniform(-2, 2) for _ in range(36)]
        Bv = [rnd.uniform(-2, 2) for _ in range(36)]
        if fn == 'identity':
            a = [7.0] * (n * n + 2)
            mod.identity(a, n)
            exp = [1.0 if i == j else 0.0 for i in range(n)
                   for j in range(n)] + [7.0, 7.0]
            return dict(reproduced=a != exp, observed=a, expected=exp, n=n)
        if fn == 'dot':
            got = mod.dot(A[:n], Bv[:n], n)
            exp = sum(A[i] * Bv[i] for i in range(n))
            return dict(reproduced=abs(got - exp) > 1e-12, observed=got,
                        expected=exp, n=n)
        if fn == 'mat_mult':
            r = [7.0] * (n * n + 1)
            a0, b0 = list(A[:n * n]), list(Bv[:n * n])
            mod.mat_mult(a0, b0, n, r)
            exp = [sum(A[n * i + j] * Bv[n * j + k] for j in range(n))
                   for i in range(n) for k in range(n)] + [7.0]
            bad = any(abs(x - y) > 1e-12 for x, y in zip(r, exp)) or \
                a0 != A[:n * n] or b0 != Bv[:n * n]
            return dict(reproduced=bad, observed=r, expected=exp, n=n)
        if fn == 'mat_vec_mult':
            r = [7.0] * (n + 1)
            mod.mat_vec_mult(list(A[:n * n]), list(Bv[:n]), n, r)
            exp = [sum(A[n * i + j] * Bv[j] for j in range(n))
                   for i in range(n)] + [7.0]
            bad = any(abs(x - y) > 1e-12 for x, y in zip(r, exp))
            return dict(reproduced=bad, observed=r, expected=exp, n=n)
        if fn == 'augmented_matrix':
            for na in (1, 2, 3):
                for nmax in range(n, 7):
                    r = [7.0] * ((n + na) * n + 1)
                    mod.augmented_matrix(list(A[:nmax * nmax]),
                                         list(Bv[:n * na]), n, na, nmax, r)
                    exp = []
                    for i in range(n):
                        exp += [A[nmax * i + j] for j in range(n)]
                        exp += [Bv[na * i + j] for j in range(na)]
                    exp += [7.0]
                    if r != exp:
                        return dict(reproduced=True, observed=r,
                                    expected=exp, n=n, na=na, nmax=nmax)
            return dict(reproduced=False)
        return dict(reproduced=False)
    return rp


def replay_gj(n, nb):
    def rp(model, ob):
        import random
        mod = _native()
        rnd = random.Random(n * 10 + nb)
        for trial in range(200):
            A = [[rnd.uniform(-2, 2) for _ in range(n)] for _ in range(n)]
            for i in range(n):
                A[i][i] += 3.0 * n          # diagonally dominant
            X = [[rnd.uniform(-2, 2) for _ in range(nb)] for _ in range(n)]
            Bm = [[sum(A[i][k] * X[k][c] for k in range(n))
                   for c in range(nb)] for i in range(n)]
            m = []
            for i in range(n):
                m += A[i] + Bm[i]
            res = [7.0] * (n * nb + 1)
            ret = mod.gj_solve(m, n, nb, res)
            exp = [X[i][c] for i in range(n) for c in range(nb)] + [7.0]
            if ret != 0.0 or any(abs(a - b) > 1e-8 for a, b in zip(res,
                                                                    exp)):
                return dict(reproduced=True, A=A, B=Bm, returned=ret,
                            observed=res, expected=exp)
        # non-singular upper-triangular systems whose last pivot is tiny
        # (the forward phase never looks at the last pivot)
        for t in (1e-13, 3e-14, 1e-15, -1e-13):
            A = [[float(1 + ((i + j) % 3)) if j > i else
                  (1.0 if j == i else 0.0) for j in range(n)]
                 for i in range(n)]
            A[n - 1][n - 1] = t
            X = [[float(1 + ((i + 2 * c) % 4)) for c in range(nb)]
                 for i in range(n)]
            Bm = [[sum(A[i][k] * X[k][c] for k in range(n))
                   for c in range(nb)] for i in range(n)]
            m = []
            for i in range(n):
                m += A[i] + Bm[i]
            res = [7.0] * (n * nb + 1)
            ret = mod.gj_solve(m, n, nb, res)
            exp = [X[i][c] for i in range(n) for c in range(nb)] + [7.0]
            if ret != 0.0 or any(abs(a - b) > 1e-6 for a, b in zip(res,
                                                                    exp)):
                return dict(reproduced=True, A=A, B=Bm, returned=ret,
                            observed=res, expected=exp)
        return dict(reproduced=False)
    return rp


# --------------------------------------------------------------- call sites
USERS = ['pysph/sph/wc/crksph.py', 'pysph/sph/wc/kernel_correction.py',
         'pysph/sph/wc/density_correction.py', 'pysph/tools/interpolator.py']

# preconditions under which the helper proofs above hold (the index
# obligations of tasks helpers / gj were discharged for lists of exactly
# these lengths): parameter -> least length, as a function of the integer
# arguments
HELPER_PRE = {
    'identity': dict(a=lambda v: v['n'] * v['n']),
    'dot': dict(a=lambda v: v['n'], b=lambda v: v['n']),
    'mat_mult': dict(a=lambda v: v['n'] ** 2, b=lambda v: v['n'] ** 2,
                     result=lambda v: v['n'] ** 2),
    'mat_vec_mult': dict(a=lambda v: v['n'] ** 2, b=lambda v: v['n'],
                         result=lambda v: v['n']),
    'augmented_matrix': dict(
        A=lambda v: v['nmax'] * (v['n'] - 1) + v['n'],
        b=lambda v: v['na'] * v['n'],
        result=lambda v: (v['n'] + v['na']) * v['n']),
    'gj_solve': dict(m=lambda v: v['n'] * (v['n'] + v['nb']),
                     result=lambda v: v['n'] * v['nb']),
}


def task_callsites(ctx, repo, m):
    """Callers are checked against the helpers' contracts: in every method
    of the anchored user files, each call of identity / dot / mat_mult /
    mat_vec_mult / augmented_matrix / gj_solve passes one argument per
    parameter (the transpiled C function has no defaults), in the helper's
    parameter order, integer sizes that are known for every dimension the
    method can run in (self.dim in 1..3), and local `declare('matrix(K)')`
    buffers at least as long as the helper's precondition demands
    (n <= nmax for augmented_matrix)."""
    import re
    sigs = {}
    for h in HELPER_PRE:
        fn = m.functions[h]
        sigs[h] = [a.arg for a in fn.args.args]
    obs = []
    ncalls = 0
    for rel in USERS:
        try:
            um = repo.module(rel[:-3].replace('/', '.'))
        except Exception as e:
            obs.append(Obligation('callsites.%s.readable' % rel, [],
                                  z3.BoolVal(False), rel))
            continue
        W = um.path
        tree = um.tree
        for cls in [n_ for n_ in tree.body if isinstance(n_, ast.ClassDef)]:
            for fn in [n_ for n_ in cls.body
                       if isinstance(n_, ast.FunctionDef)]:
                calls = [c for c in ast.walk(fn) if isinstance(c, ast.Call)
                         and isinstance(c.func, ast.Name)
                         and c.func.id in HELPER_PRE]
                if not calls:
                    continue
                ctx.function(um, fn, '%s.%s' % (cls.name, fn.name))
                # local buffers and integer assignments, in source order
                buf = {}
                ints = []
                for st_ in ast.walk(fn):
                    if isinstance(st_, ast.Assign) and isinstance(
                            st_.value, ast.Call) and isinstance(
                            st_.value.func, ast.Name) and \
                            st_.value.func.id == 'declare' and \
                            st_.value.args and isinstance(
                                st_.value.args[0], ast.Constant):
                        mm_ = re.match(r'matrix\((\d+)\)',
                                       str(st_.value.args[0].value))
                        if mm_:
                            for t in st_.targets:
                                for nm in ([t] if isinstance(t, ast.Name)
                                           else getattr(t, 'elts', [])):
                                    if isinstance(nm, ast.Name):
                                        buf[nm.id] = int(mm_.group(1))
                    elif isinstance(st_, ast.Assign) and len(
                            st_.targets) == 1 and isinstance(
                            st_.targets[0], ast.Name):
                        ints.append((st_.lineno, st_.targets[0].id,
                                     st_.value))
                ints.sort(key=lambda x: x[0])
                uses_dim = 'self.dim' in ast.unparse(fn)
                for call in calls:
                    ncalls += 1
                    h = call.func.id
                    tag = 'callsites.%s.%s.%s@%d' % (cls.name, fn.name, h,
                                                     call.lineno)
                    params = sigs[h]
                    ok_arity = len(call.args) == len(params) and \
                        not call.keywords
                    obs.append(Obligation(
                        tag + '.one_argument_per_parameter', [],
                        z3.BoolVal(ok_arity), W, extra=dict(
                            call=ast.unparse(call), parameters=params)))
                    if not ok_arity:
                        continue
                    amap = dict(zip(params, call.args))
                    for dim in ((1, 2, 3) if uses_dim else (None,)):
                        env = {}
                        for ln, nm, val in ints:
                            if ln >= call.lineno:
                                break
                            try:
                                src = ast.unparse(val).replace('self.dim',
                                                               str(dim))
                                v_ = eval(src, {'__builtins__': {}}, dict(
                                    env))
                                if isinstance(v_, int) and not isinstance(
                                        v_, bool):
                                    env[nm] = v_
                                else:
                                    env.pop(nm, None)
                            except Exception:
                                env.pop(nm, None)
                        vals = {}
                        known = True
                        for p_ in params:
                            if p_ in HELPER_PRE[h]:
                                continue
                            a_ = amap[p_]
                            try:
                                src = ast.unparse(a_).replace('self.dim',
                                                              str(dim))
                                vals[p_] = eval(src, {'__builtins__': {}},
                                                dict(env))
                            except Exception:
                                known = False
                        dt = '' if dim is None else '.dim%d' % dim
                        obs.append(Obligation(
                            tag + dt + '.sizes_are_known_integers', [],
                            z3.BoolVal(known and all(
                                isinstance(x, int) and x >= 1
                                for x in vals.values())), W,
                            extra=dict(call=ast.unparse(call),
                                       sizes=str(vals))))
                        if not known:
                            continue
                        if h == 'augmented_matrix':
                            obs.append(Obligation(
                                tag + dt + '.n_le_nmax', [], z3.BoolVal(
                                    vals['n'] <= vals['nmax']), W))
                        for p_, need in HELPER_PRE[h].items():
                            a_ = amap[p_]
                            if isinstance(a_, ast.Name) and a_.id in buf:
                                try:
                                    nd = need(vals)
                                except Exception:
                                    nd = None
                                obs.append(Obligation(
                                    '%s%s.%s_is_long_enough' % (tag, dt, p_),
                                    [], z3.BoolVal(nd is not None and
                                                   buf[a_.id] >= nd), W,
                                    extra=dict(buffer=a_.id,
                                               declared=buf[a_.id],
                                               needed=nd,
                                               call=ast.unparse(call))))
    if ncalls < 10:
        obs.append(Obligation('callsites.found', [], z3.BoolVal(False),
                              m.path, extra=dict(calls=ncalls)))
    ctx.note('%d helper calls in %d user files' % (ncalls, len(USERS)))
    ctx.prove('callsites.every_call_meets_the_helper_precondition', obs)


# ------------------------------------------------ systems handed to gj_solve
def task_systems(ctx, repo, m):
    """kernel_correction.py builds its augmented matrices by hand.  For
    dim = 1..3: what GradientCorrection.loop / MixedGradientCorrection.loop
    hand to gj_solve is [M | b] in the helper's layout (row i at (n+1)*i),
    with M[i][j] the moment matrix as its writer stores it
    (d_m_mat[9*d_idx + 3*i + j], L_a = M^-1 of the class docstring) and b the
    (mixed-corrected) kernel gradient; when the result is accepted DWIJ
    becomes the solution, otherwise DWIJ is left alone."""
    um = repo.module('pysph.sph.wc.kernel_correction')
    W = um.path
    obs = []
    for cls in ('GradientCorrection', 'MixedGradientCorrection'):
        fn = um.methods(cls)['loop']
        ctx.function(um, fn, cls + '.loop')
        for dim in (1, 2, 3):
            nt = dim + 1
            d_idx = 2
            mm = [z3.Real('m_%d' % q) for q in range(9 * 4)]
            dw = [z3.Real('DWIJ_%d' % q) for q in range(3)]
            gam = [z3.Real('gam_%d' % q) for q in range(3 * 4)]
            cw = [z3.Real('cw_%d' % q) for q in range(4)]
            sol = [z3.Real('sol_%d' % q) for q in range(3)]
            seen = []

            def gj(e, s_, a, k, n_, seen=seen, sol=sol):
                seen.append((list(a[0]), a[1], a[2]))
                for q in range(len(a[3])):
                    a[3][q] = sol[q]
                return Fraction(0)
            obj = SymObject(cls, dict(dim=dim, tol=z3.Real('tol')), 'self')
            obj.module = um.name
            ex = Executor(repo, um, qualname=cls + '.loop',
                          definedness='assume', merge=False, prune=False,
                          externals={'gj_solve': gj})
            args = dict(self=obj, d_idx=d_idx, d_m_mat=list(mm),
                        DWIJ=list(dw), HIJ=z3.Real('HIJ'))
            if cls.startswith('Mixed'):
                args.update(d_dw_gamma=list(gam), d_cwij=list(cw))
            try:
                outs = ex.exec_function(fn, args, State(pc=[
                    z3.Real('HIJ') > 0, cw[d_idx] > 0]))
            except VCError as e:
                ctx.outside('systems.%s.dim%d' % (cls, dim), str(e))
                continue
            tag = 'systems.%s.dim%d' % (cls, dim)
            ok = len(seen) >= 1 and all(s_[1] == dim and s_[2] == 1
                                        for s_ in seen)
            obs.append(Obligation(tag + '.one_system_of_size_dim', [],
                                  z3.BoolVal(bool(ok)), W))
            if not ok:
                continue
            temp = seen[0][0]
            for i in range(dim):
                for j in range(dim):
                    obs.append(Obligation(
                        '%s.M_%d_%d' % (tag, i, j), [], S.to_z3(S.cmp(
                            '==', temp[nt * i + j],
                            mm[9 * d_idx + 3 * i + j])), W))
                b_i = dw[i] if not cls.startswith('Mixed') else \
                    (dw[i] - gam[3 * d_idx + i]) / cw[d_idx]
                obs.append(Obligation('%s.b_%d' % (tag, i), [cw[d_idx] > 0],
                                      S.to_z3(S.cmp('==', temp[nt * i + dim],
                                                    b_i)), W))
            # outcome: DWIJ is the solution or untouched
            for q, o in enumerate(outs):
                fin = o.state.env['DWIJ']
                took = z3.And(*[S.to_z3(S.cmp('==', fin[i], sol[i]))
                                for i in range(dim)])
                kept = z3.And(*[S.to_z3(S.cmp('==', fin[i], dw[i]))
                                for i in range(dim)])
                rest = z3.And(*[S.to_z3(S.cmp('==', fin[i], dw[i]))
                                for i in range(dim, 3)]) if dim < 3 else \
                    z3.BoolVal(True)
                obs.append(Obligation('%s.outcome.%d' % (tag, q), o.pc,
                                      z3.And(z3.Or(took, kept), rest), W))
    def rp(model, ob):
        script = r"""
import json, sys, importlib.util
import numpy as np
d = json.load(sys.stdin)
spec = importlib.util.spec_from_file_location('kc_ut', d['root'] + '/pysph/sph/wc/kernel_correction.py')
mod = importlib.util.module_from_spec(spec); spec.loader.exec_module(mod)
rng = np.random.RandomState(4)
bad = None
for cls in ('GradientCorrection', 'MixedGradientCorrection'):
    for dim in (1, 2, 3):
        eq = getattr(mod, cls)('f', ['f'], dim=dim, tol=1e9)
        M = rng.uniform(-1, 1, (3, 3)) + 4 * np.eye(3)
        m_mat = np.zeros(18); m_mat[9:] = M.ravel()
        dw = rng.uniform(-1, 1, 3); DW = dw.copy()
        if cls.startswith('Mixed'):
            gam = rng.uniform(-0.2, 0.2, 6); cw = np.array([1.0, 0.8])
            eq.loop(1, m_mat, gam, cw, DW, 0.1)
            b = (dw[:dim] - gam[3:3 + dim]) / cw[1]
        else:
            eq.loop(1, m_mat, DW, 0.1)
            b = dw[:dim]
        want = np.linalg.solve(M[:dim, :dim], b)
        if np.abs(DW[:dim] - want).max() > 1e-9:
            bad = dict(equation=cls, dim=dim, M=M[:dim, :dim].tolist(), b=b.tolist(), corrected_gradient=DW[:dim].tolist(), expected=want.tolist()); break
    if bad: break
print(json.dumps(dict(bad=bad)))
"""
        from pyvc.repo import REPO_ROOT
        try:
            r = native.run_venv(script, dict(root=REPO_ROOT), timeout=600)
        except Exception as e:
            return dict(reproduced=False, note=str(e)[-300:])
        if r.get('bad'):
            return dict(reproduced=True, how='real loop() on a '
                        'non-symmetric moment matrix vs numpy.linalg.solve',
                        **r['bad'])
        return dict(reproduced=False)
    ctx.prove('systems.hand_built_augmented_matrices', obs, replay=rp)


# -------------------------------------------------------------------- tasks
def run_task(task, ctx):
    if task.startswith('dep:'):
        from contracts import deps
        return deps.run_dep(task, ctx)
    repo = Repo()
    m = repo.module(MOD)
    parts = task.split(':')
    if parts[0] == 'helpers':
        return task_helpers(ctx, repo, m, int(parts[1]))
    if parts[0] == 'gj':
        return task_gj(ctx, repo, m, int(parts[1]), int(parts[2]))
    if parts[0] == 'gjwit':
        return task_gjwit(ctx, repo, m)
    if parts[0] == 'callsites':
        return task_callsites(ctx, repo, m)
    if parts[0] == 'systems':
        return task_systems(ctx, repo, m)
    if parts[0] == 'linalg3':
        return task_linalg3(ctx, repo)
    if parts[0] == 'tql2':
        return task_tql2(ctx, repo)
    if parts[0] == 'tred2':
        return task_tred2(ctx, repo, int(parts[1]))
    if parts[0] == 'eigen_bounded':
        return task_eigen_bounded(ctx, repo)
    if parts[0] == 'canary':
        a = syms('a', 2)
        ctx.canary('canary.must_fail', Obligation('c', [], a[0] * a[1] ==
                                                  a[0] + a[1]))
        ctx.results.append(dict(name='canary.pipeline', verdict='proved',
                                queries=0, backends={}, seconds=0,
                                failing=[], replay=None, info=''))
        return
    raise ValueError(task)


def _side(ex):
    return [o for o in ex.obligations if o.kind in ('index', 'unbound')]


def task_helpers(ctx, repo, m, n):
    W = m.path
    # identity: two guard cells beyond n*n must stay untouched
    a = syms('a', n * n + 2)
    a0 = list(a)
    ex, outs = _run(repo, m, 'identity', dict(a=a, n=n))
    ctx.function(m, m.functions['identity'], 'identity', ex.dropped)
    obs = _side(ex)
    for o in outs:
        fin = o.state.env['a']
        want = [Fraction(1) if i == j else Fraction(0) for i in range(n)
                for j in range(n)] + a0[n * n:]
        obs += eqs('identity', o.pc, zip(fin, want), W)
    ctx.prove('identity.n%d' % n, obs, replay=replay_helper('identity', n))
    # dot
    a, b = syms('a', n), syms('b', n)
    ex, outs = _run(repo, m, 'dot', dict(a=list(a), b=list(b), n=n))
    ctx.function(m, m.functions['dot'], 'dot', ex.dropped)
    obs = _side(ex)
    for o in outs:
        want = 0
        for i in range(n):
            want = S.add(want, a[i] * b[i])
        obs += eqs('dot', o.pc, [(o.value, want)], W)
        obs += eqs('dot.frame', o.pc, list(zip(o.state.env['a'], a)) +
                   list(zip(o.state.env['b'], b)), W)
    ctx.prove('dot.n%d' % n, obs, replay=replay_helper('dot', n))
    # mat_mult
    a, b = syms('a', n * n), syms('b', n * n)
    r = syms('r', n * n + 1)
    r0 = list(r)
    ex, outs = _run(repo, m, 'mat_mult', dict(a=list(a), b=list(b), n=n,
                                              result=r))
    ctx.function(m, m.functions['mat_mult'], 'mat_mult', ex.dropped)
    obs = _side(ex)
    for o in outs:
        want = []
        for i in range(n):
            for k in range(n):
                s_ = 0
                for j in range(n):
                    s_ = S.add(s_, a[n * i + j] * b[n * j + k])
                want.append(s_)
        want += r0[n * n:]
        obs += eqs('mat_mult', o.pc, zip(o.state.env['result'], want), W)
        obs += eqs('mat_mult.frame', o.pc, list(zip(o.state.env['a'], a)) +
                   list(zip(o.state.env['b'], b)), W)
    ctx.prove('mat_mult.n%d' % n, obs, replay=replay_helper('mat_mult', n))
    # mat_vec_mult
    a, b = syms('a', n * n), syms('b', n)
    r = syms('r', n + 1)
    r0 = list(r)
    ex, outs = _run(repo, m, 'mat_vec_mult', dict(a=list(a), b=list(b), n=n,
                                                  result=r))
    ctx.function(m, m.functions['mat_vec_mult'], 'mat_vec_mult', ex.dropped)
    obs = _side(ex)
    for o in outs:
        want = []
        for i in range(n):
            s_ = 0
            for j in range(n):
                s_ = S.add(s_, a[n * i + j] * b[j])
            want.append(s_)
        want += r0[n:]
        obs += eqs('mat_vec_mult', o.pc, zip(o.state.env['result'], want),
                   W)
    ctx.prove('mat_vec_mult.n%d' % n, obs,
              replay=replay_helper('mat_vec_mult', n))
    # augmented_matrix: all na in 1..3, nmax in n..6
    obs = []
    for na in (1, 2, 3):
        for nmax in range(n, 7):
            A = syms('A', nmax * nmax)
            b = syms('b', n * na)
            r = syms('r', (n + na) * n + 1)
            r0 = list(r)
            ex, outs = _run(repo, m, 'augmented_matrix', dict(
                A=list(A), b=list(b), n=n, na=na, nmax=nmax, result=r))
            obs += _side(ex)
            for o in outs:
                want = []
                for i in range(n):
                    want += [A[nmax * i + j] for j in range(n)]
                    want += [b[na * i + j] for j in range(na)]
                want += r0[(n + na) * n:]
                obs += eqs('aug.%d.%d' % (na, nmax), o.pc,
                           zip(o.state.env['result'], want), W)
    ctx.function(m, m.functions['augmented_matrix'], 'augmented_matrix',
                 ex.dropped)
    ctx.prove('augmented_matrix.n%d' % n, obs,
              replay=replay_helper('augmented_matrix', n))


# ----------------------------------------------------------------- gj_solve
def task_gj(ctx, repo, m, n, nb):
    """Ghost-solution cut-point proof of soundness (G1-G3)."""
    W = m.path
    nt = n + nb
    fn = m.functions['gj_solve']
    loops = {}
    import ast as _ast
    lp = sorted([x for x in _ast.walk(fn) if isinstance(x, (_ast.For,
                                                            _ast.While))],
                key=lambda x: (x.lineno, x.col_offset))
    # identify the loops by their iteration variable (robust to edits that
    # keep the structure)
    for i, x in enumerate(lp):
        if isinstance(x, _ast.For) and isinstance(x.target, _ast.Name):
            loops.setdefault(x.target.id, i)
    need = ('rr', 'rbr', 'rrcol')
    if any(k not in loops for k in need):
        raise VCError('gj_solve: loop structure changed (no %s loop)' %
                      [k for k in need if k not in loops])
    X = [[z3.Real('X_%d_%d' % (r, c)) for c in range(nb)] for r in range(n)]
    mat = syms('m', n * nt)
    res = syms('res', n * nb + 1)
    res0 = list(res)
    obs = []
    counter = [0]

    def inv_rows(mm):
        out = []
        for r in range(n):
            for c in range(nb):
                lhs = 0
                for j in range(n):
                    lhs = S.add(lhs, S.mul(mm[nt * r + j], X[j][c]))
                out.append(S.cmp('==', lhs, mm[nt * r + n + c]))
        return out

    def pattern_fwd(rrcol, rr):
        """cells that are exactly 0 after eliminating row rr of column rrcol"""
        z = []
        for c in range(n):
            for r in range(c + 1, n):
                if c < rrcol or (c == rrcol and r <= rr):
                    z.append((r, c))
        return z

    def cut(ex, st, zeros, ones, tag):
        mm = st.env['m']
        facts = inv_rows(mm)
        facts += [S.cmp('==', mm[nt * r + c], 0) for (r, c) in zeros]
        facts += [S.cmp('==', mm[nt * r + c], 1) for (r, c) in ones]
        for i, f in enumerate(facts):
            if f is True:
                continue
            obs.append(Obligation('%s.%d' % (tag, i), list(st.pc),
                                  S.to_z3(f) if S.is_sym(f) else
                                  z3.BoolVal(bool(f)), W))
        # replace the matrix by fresh symbols that satisfy the invariant
        counter[0] += 1
        fresh = [z3.Real('m%d_%d' % (counter[0], i)) for i in range(n * nt)]
        for (r, c) in zeros:
            fresh[nt * r + c] = Fraction(0)
        for (r, c) in ones:
            fresh[nt * r + c] = Fraction(1)
        mm[:] = fresh
        for f in inv_rows(mm):
            if S.is_sym(f):
                st.pc.append(f)

    def hook(ex, fname, k, item, st):
        if fname != 'gj_solve':
            return
        env = st.env
        if k == loops.get('col') and item == n - 1:
            # the pivot-search loop is executed with if-then-else merging
            # (2^(n(n-1)/2) paths otherwise); from here on paths fork
            ex.merge = False
            return
        if k == loops['rrcol'] and item == n - 1:
            env['__fwd_done__'] = True
            return
        if k == loops['rr']:
            cut(ex, st, pattern_fwd(env['rrcol'], env['rr']), [],
                'fwd.%d.%d' % (env['rrcol'], env['rr']))
        elif k == loops['rbr']:
            rb = env['rb']
            zeros = pattern_fwd(n - 1, n - 1)
            skipped = env.get('__skipped__', set())
            ones = []
            # rows rb..n-1 are finished unless they were skipped (zero diag)
            diag0 = S.simp(S.to_bool(S.cmp('==', st.env['m'][nt * rb + rb],
                                           0)))
            for r in range(rb, n):
                if r in skipped:
                    continue
            env.setdefault('__done__', [])
            # was this row normalised?  (it was iff the code took the else
            # branch; then m[rb][rb] is literally 1)
            mm = st.env['m']
            norm = (not S.is_sym(mm[nt * rb + rb]) and
                    mm[nt * rb + rb] == 1) or \
                (S.is_sym(mm[nt * rb + rb]) and False)
            done = list(env['__done__'])
            if norm is True or _is_one(ex, st, mm[nt * rb + rb]):
                done.append(rb)
            else:
                env['__anyskip__'] = True
                # a row may be left un-normalised only when its diagonal
                # entry is exactly zero (otherwise a non-singular system
                # would be returned unsolved with status 0)
                dv = mm[nt * rb + rb]
                obs.append(Obligation(
                    'skip_only_exact_zero.%d' % rb, list(st.pc),
                    S.to_z3(S.cmp('==', dv, 0)) if S.is_sym(dv) else
                    z3.BoolVal(dv == 0), W))
            env['__done__'] = done
            for r in done:
                ones.append((r, r))
                for kup in range(r):
                    zeros.append((kup, r))
            cut(ex, st, sorted(set(zeros)), ones, 'back.%d' % rb)

    def _is_one(ex, st, v):
        if not S.is_sym(v):
            return v == 1
        from pyvc import backends as B
        r = B.nf_prove(Obligation('one', [], S.to_real(v) == 1))
        return r.verdict == 'proved'

    pre = [f for f in (S.to_z3(x) for x in inv_rows(mat)
                       if S.is_sym(x))]
    ex = Executor(repo, m, qualname='gj_solve', definedness='assume',
                  merge=True, prune=True, max_paths=20000)
    ex.iter_hook = hook
    outs = ex.exec_function(fn, dict(m=mat, n=n, nb=nb, result=res),
                            State(pc=pre))
    ctx.function(m, fn, 'gj_solve', ex.dropped)
    obs += _side(ex)
    n_ok = 0
    for i, o in enumerate(outs):
        if o.kind != 'return':
            obs.append(Obligation('ret.%d.kind' % i, o.pc,
                                  z3.BoolVal(False), W))
            continue
        v = o.value
        in01 = (not S.is_sym(v)) and v in (0, 1)
        obs.append(Obligation('ret.%d.in01' % i, o.pc, z3.BoolVal(in01), W))
        if v != 0:
            if o.state.env.get('__fwd_done__'):
                # status 1 out of back substitution: only for a singular
                # (upper-triangular, zero on the diagonal) matrix
                mm = o.state.env['m']
                ds = [mm[nt * r + r] for r in range(n)]
                g = z3.Or([S.to_z3(S.cmp('==', d, 0)) if S.is_sym(d) else
                           z3.BoolVal(d == 0) for d in ds])
                obs.append(Obligation('ret.%d.nonzero_only_singular' % i,
                                      o.pc, g, W))
            continue
        fin = o.state.env['result']
        # frame: the guard cell after n*nb is untouched
        obs += eqs('frame.%d' % i, o.pc, [(fin[n * nb], res0[n * nb])], W)
        if o.state.env.get('__anyskip__'):
            continue            # zero diagonal met: no claim (see docstring)
        n_ok += 1
        want = [X[r][c] for r in range(n) for c in range(nb)]
        obs += eqs('sound.%d' % i, o.pc, zip(fin[:n * nb], want), W)
    if n_ok == 0:
        obs.append(Obligation('sound.none', [], z3.BoolVal(False), W))
    ctx.note('gj_solve n=%d nb=%d: %d paths, %d cut points, %d '
             'sub-obligations' % (n, nb, len(outs), counter[0], len(obs)))
    ctx.prove('gj_solve.n%d.nb%d.sound' % (n, nb), obs,
              replay=replay_gj(n, nb), sample=(n == 2 and nb == 1))


WITNESSES = {
    'perm2': dict(A=[[0, 1], [1, 0]], b=[[3], [5]], expect=0,
                  what='[[0,1],[1,0]] is non-singular; no row exchange is '
                       'ever performed'),
    'tiny': dict(A=[[Fraction(1, 10**13), 0], [0, Fraction(1, 10**13)]],
                 b=[[1], [1]], expect=0,
                 what='1e-13*I is non-singular; absolute 1e-12 pivot '
                      'tolerance'),
    'control': dict(A=[[2, 1], [1, 3]], b=[[3], [5]], expect=0,
                    what='control: diagonally dominant 2x2'),
    # badly scaled but regular: the control with its rows scaled by 1e-6 and
    # 1e7 (a small row above a large one); every pivot is far above the
    # tolerance, the system must be solved
    'scaled': dict(A=[[Fraction(2, 10**6), Fraction(1, 10**6)],
                      [10**7, 3 * 10**7]],
                   b=[[Fraction(3, 10**6)], [5 * 10**7]], expect=0,
                   what='rows of the control scaled by 1e-6 and 1e7'),
    'scaled3': dict(A=[[Fraction(4, 10**7), Fraction(1, 10**7),
                        Fraction(1, 10**7)], [1, 5, 1],
                       [10**7, 2 * 10**7, 6 * 10**7]],
                    b=[[Fraction(6, 10**7)], [7], [9 * 10**7]], expect=0,
                    what='diagonally dominant 3x3, rows scaled by 1e-7, 1, '
                         '1e7'),
}


def task_gjwit(ctx, repo, m):
    """G4 completeness on concrete witnesses, executed exactly."""
    W = m.path
    fn = m.functions['gj_solve']
    ctx.function(m, fn, 'gj_solve')
    for name, w in WITNESSES.items():
        A, b = w['A'], w['b']
        n, nb = len(A), len(b[0])
        mat = []
        for i in range(n):
            mat += [Fraction(x) for x in A[i]] + [Fraction(x) for x in b[i]]
        res = [Fraction(7)] * (n * nb)
        ex = Executor(repo, m, qualname='gj_solve', definedness='assume',
                      merge=False)
        outs = ex.exec_function(fn, dict(m=mat, n=n, nb=nb, result=res))
        ok = (len(outs) == 1 and outs[0].kind == 'return' and
              not S.is_sym(outs[0].value) and outs[0].value == w['expect'])
        if ok:
            fin = outs[0].state.env['result']
            for i in range(n):
                for c in range(nb):
                    lhs = sum(Fraction(A[i][k]) * fin[nb * k + c]
                              for k in range(n))
                    ok = ok and lhs == Fraction(b[i][c])

        def rp(model, ob, w=w, n=n, nb=nb):
            mod = _native()
            mm = []
            for i in range(n):
                mm += [float(x) for x in w['A'][i]] + \
                    [float(x) for x in w['b'][i]]
            r = [7.0] * (n * nb)
            ret = mod.gj_solve(mm, n, nb, r)
            return dict(reproduced=ret != w['expect'],
                        A=[[float(x) for x in row] for row in w['A']],
                        b=w['b'], returned=ret, result=r,
                        expected_return=w['expect'])
        ctx.prove('gj_solve.complete.%s' % name, [Obligation(
            name, [], z3.BoolVal(bool(ok)), W, extra=dict(backends=['z3']))],
            replay=rp, info=w['what'])


# ------------------------------------------------------------------ linalg3
def task_linalg3(ctx, repo):
    mc = repo.cython_module(PYX)
    W = mc.path

    def M(prefix):
        return [[z3.Real('%s%d%d' % (prefix, i, j)) for j in range(3)]
                for i in range(3)]

    def run(fn, args):
        ex = Executor(repo, mc, qualname=fn, definedness='assume')
        outs = ex.exec_function(mc.functions[fn], args)
        ctx.function(mc, mc.functions[fn], fn, ex.dropped)
        return ex, outs
    # det of a symmetric matrix (reads upper triangle)
    a = M('a')
    ex, outs = run('det', dict(a=a))
    sym = [[a[min(i, j)][max(i, j)] for j in range(3)] for i in range(3)]
    full = (sym[0][0] * (sym[1][1] * sym[2][2] - sym[1][2] * sym[2][1]) -
            sym[0][1] * (sym[1][0] * sym[2][2] - sym[1][2] * sym[2][0]) +
            sym[0][2] * (sym[1][0] * sym[2][1] - sym[1][1] * sym[2][0]))
    obs = _side(ex)
    for o in outs:
        obs += eqs('det', o.pc, [(o.value, full)], W)
    ctx.prove('linalg3.det', obs)
    # transform: res += P^T A P
    A, P, R0 = M('A'), M('P'), M('R')
    R = [list(r) for r in R0]
    ex, outs = run('transform', dict(A=[list(r) for r in A],
                                     P=[list(r) for r in P], res=R))
    obs = _side(ex)
    for o in outs:
        fin = o.state.env['res']
        pairs = []
        for i in range(3):
            for j in range(3):
                w = R0[i][j]
                for k in range(3):
                    for l in range(3):
                        w = w + P[k][i] * A[k][l] * P[l][j]
                pairs.append((fin[i][j], w))
        obs += eqs('transform', o.pc, pairs, W)
    ctx.prove('linalg3.transform', obs)
    d = syms('d', 3)
    R = [list(r) for r in R0]
    ex, outs = run('transform_diag', dict(A=list(d),
                                          P=[list(r) for r in P], res=R))
    obs = _side(ex)
    for o in outs:
        fin = o.state.env['res']
        pairs = []
        for i in range(3):
            for j in range(3):
                w = R0[i][j]
                for k in range(3):
                    w = w + P[k][i] * d[k] * P[k][j]
                pairs.append((fin[i][j], w))
        obs += eqs('transform_diag', o.pc, pairs, W)
    ctx.prove('linalg3.transform_diag', obs)
    R = [list(r) for r in R0]
    ex, outs = run('transform_diag_inv', dict(A=list(d),
                                              P=[list(r) for r in P], res=R))
    obs = _side(ex)
    for o in outs:
        fin = o.state.env['res']
        pairs = []
        for i in range(3):
            for j in range(3):
                w = 0
                for k in range(3):
                    w = S.add(w, P[i][k] * d[k] * P[j][k])
                pairs.append((fin[i][j], w))
        obs += eqs('transform_diag_inv', o.pc, pairs, W)
    ctx.prove('linalg3.transform_diag_inv', obs)
    # zero matrix: V = I, d = 0  (A V = V diag(d) holds for A = 0)
    Vm = M('V')
    dd = syms('dz', 3)
    ex, outs = run('zero_matrix_case', dict(V=Vm, d=dd))
    obs = _side(ex)
    for o in outs:
        fv, fd = o.state.env['V'], o.state.env['d']
        pairs = [(S.ite(fv[i][j], 1, 0) if S.is_sym(fv[i][j]) and
                  z3.is_bool(fv[i][j]) else
                  (int(fv[i][j]) if isinstance(fv[i][j], bool) else
                   fv[i][j]), 1 if i == j else 0)
                 for i in range(3) for j in range(3)]
        pairs += [(fd[i], 0) for i in range(3)]
        obs += eqs('zero_matrix_case', o.pc, pairs, W)
    ctx.prove('linalg3.zero_matrix_case', obs)
    ctx.assume('linalg3.pyx is verified as mechanically extracted source '
               'text; double[3][3] parameters are nested lists')
    eigen_decomposition(ctx, repo, mc, run, M)


def eigen_decomposition(ctx, repo, mc, run, M):
    """eigen_decomposition(A, V, d) against the ASSUMED contract of its
    callees tred2 + tql2 (input symmetric W, output orthonormal V and d with
    W V = V diag(d)): the zero branch is taken only for A = 0 (where V = I,
    d = 0 is a decomposition), otherwise the scaled matrix A/s is handed to
    tred2/tql2 and d is scaled back, so A V = V diag(d) and V^T V = I."""
    W = mc.path
    A = M('A')
    Vout = M('Vo')
    dout = syms('do', 3)
    state = {}

    def tred2_c(ex, st, args, kwargs, node):
        V, d, e = args
        state['Win'] = [list(r) for r in V]
        return d

    def tql2_c(ex, st, args, kwargs, node):
        V, d, e = args
        Win = state['Win']
        for i in range(3):
            for j in range(3):
                V[i][j] = Vout[i][j]
        for i in range(3):
            d[i] = dout[i]
        # assumed postcondition of tred2;tql2
        for i in range(3):
            for j in range(3):
                lhs = 0
                for k in range(3):
                    lhs = S.add(lhs, S.mul(Win[i][k], Vout[k][j]))
                st.pc.append(S.to_z3(S.cmp('==', lhs, Vout[i][j] * dout[j])))
                o = 0
                for k in range(3):
                    o = S.add(o, Vout[k][i] * Vout[k][j])
                st.pc.append(o == (1 if i == j else 0))
        return None
    ex = Executor(repo, mc, qualname='eigen_decomposition',
                  definedness='assume', inline={'zero_matrix_case'},
                  externals={'tred2': tred2_c, 'tql2': tql2_c})
    # module constant EPS = numpy.finfo(float).eps (unused by the unchanged
    # function; modelled so that a change that brings it in is decided)
    ex.spec_env['EPS'] = Fraction(1, 2 ** 52)
    fn = mc.functions['eigen_decomposition']
    Vv = M('Vin')
    dd = syms('din', 3)
    sym_pre = [A[i][j] == A[j][i] for i in range(3) for j in range(i)]
    outs = ex.exec_function(fn, dict(A=[list(r) for r in A], V=Vv, d=dd),
                            State(pc=sym_pre))
    ctx.function(mc, fn, 'eigen_decomposition', ex.dropped)
    ctx.assume('tred2 and tql2 (Householder + QL iteration) are NOT '
               'verified: eigen_decomposition is checked against their '
               'assumed contract  W V = V diag(d), V^T V = I')
    obs = _side(ex)
    for n_, o in enumerate(outs):
        fv = o.state.env['V']
        fd = o.state.env['d']
        for i in range(3):
            for j in range(3):
                lhs = 0
                for k in range(3):
                    vk = fv[k][j]
                    if isinstance(vk, bool):
                        vk = int(vk)
                    lhs = S.add(lhs, S.mul(A[i][k], vk))
                vij = int(fv[i][j]) if isinstance(fv[i][j], bool) else \
                    fv[i][j]
                g = S.cmp('==', lhs, S.mul(vij, fd[j]))
                obs.append(Obligation(
                    'AV=Vd.%d.%d.%d' % (n_, i, j), o.pc, S.to_z3(g)
                    if S.is_sym(g) else z3.BoolVal(bool(g)), W,
                    extra=dict(backends=['nf', 'z3', 'cvc5'],
                               timeout_ms=240000)))

    def rp(model, ob):
        from pyvc.calc import model_float
        mats = []
        a = [[model_float(model, 'A%d%d' % (min(i, j), max(i, j)), 0.0)
              or 0.0 for j in range(3)] for i in range(3)]
        mats.append(a)
        mats += [[[1, 1, 0], [1, -3, 0], [0, 0, 0]],
                 [[1, 0, 0], [0, -1, 0], [0, 0, 0]],
                 [[2, -1, 0], [-1, 2, -1], [0, -1, 0]],
                 [[2, 1, 0], [1, 3, 1], [0, 1, 4]]]
        script = """
import json, sys
import numpy as np
import linalg3
out = []
for a in json.load(sys.stdin)['mats']:
    A = np.array(a, dtype=float)
    d, V = linalg3.py_eigen_decompose_eispack(A.copy())
    d = np.asarray(d); V = np.asarray(V)
    sc = max(np.abs(A).max(), 1e-300)
    out.append([float(np.abs(A @ V - V @ np.diag(d)).max() / sc),
                float(np.abs(V.T @ V - np.identity(3)).max())])
print(json.dumps(out))
"""
        try:
            res = native.run_built_pyx(PYX, script, dict(mats=mats))
        except Exception as e:
            return dict(reproduced=False, note='build/run failed: %s' %
                        str(e)[:300])
        for a, (r1, r2) in zip(mats, res):
            if r1 > 1e-8 or r2 > 1e-8:
                return dict(reproduced=True, A=a, residual_AV_Vd=r1,
                            residual_orth=r2,
                            how='linalg3 built from the working tree')
        return dict(reproduced=False)
    ctx.prove('linalg3.eigen_decomposition', obs, replay=rp)


# ------------------------------------------------------------- tql2 safety
def task_tql2(ctx, repo):
    """tql2 (QL iteration) is not verified functionally; what IS proved is
    the safety contract its caller relies on for every symmetric tridiagonal
    input: the deflation scan stops at the sentinel e[n-1] = 0 at the latest
    (m <= n-1, so no read past d[n-1]/e[n-1]), a QL sweep is started only
    with e[l] != 0 (the divisor 2*e[l]), p + r != 0, and e[n-1] = 0 is an
    invariant of the sweep loop (which runs an unbounded number of times)."""
    from pyvc.symexec import _DeadPath
    mc = repo.cython_module(PYX)
    fn = mc.functions['tql2']
    W = mc.path
    N = 3
    V = [[z3.Real('V%d%d' % (i, j)) for j in range(N)] for i in range(N)]
    d = syms('d', N)
    e = syms('e', N)
    side = []

    class Ex(Executor):
        def stmt_If(self, node, st):
            if ast.unparse(node.test).replace(' ', '') == 'm>l':
                mval = st.env['m']
                ok = (not S.is_sym(mval)) and mval <= N - 1
                side.append(Obligation(
                    'tql2.scan_stops_at_sentinel.l%s' % st.env['l'],
                    list(st.pc), z3.BoolVal(bool(ok)), W))
                if not ok:
                    raise _DeadPath()
            return super().stmt_If(node, st)

    def inv(ex, st):
        env = st.env
        l = env['l']
        el = S.to_real(env['e'][l])
        absl = z3.If(el >= 0, el, -el)
        cont = S.to_bool(env['cont'])
        cont = cont if S.is_sym(cont) else z3.BoolVal(bool(cont))
        return z3.And(S.to_real(env['e'][N - 1]) == 0,
                      S.to_real(env['tst1']) >= 0,
                      z3.Implies(cont, absl > S.to_real(env['eps']) *
                                 S.to_real(env['tst1'])))
    loops = sorted([x for x in ast.walk(fn) if isinstance(x, (ast.For,
                                                              ast.While))],
                   key=lambda x: (x.lineno, x.col_offset))
    wk = [i for i, x in enumerate(loops) if isinstance(x, ast.While) and
          ast.unparse(x.test) == 'cont']
    spec = LoopSpec(inv=[('sentinel_and_guard', inv)])
    ex = Ex(repo, mc, qualname='tql2', definedness='obligation', merge=True,
            prune=True, inline={'MAX', 'hypot2'},
            loop_specs={('tql2', wk[0]): spec})
    ex.spec_env['n'] = N
    ex.spec_env['fabs'] = Native(lambda e_, s_, a, k, nd: S.ite(
        S.cmp('>=', a[0], 0), a[0], S.neg(a[0])))
    outs = ex.exec_function(fn, dict(V=V, d=d, e=e), State(pc=[]))
    ctx.function(mc, fn, 'tql2 (safety contract only)', ex.dropped)
    # the two divisions the contract covers, by source text of the divisor
    lines = {}
    for nd in ast.walk(fn):
        if isinstance(nd, ast.BinOp) and isinstance(nd.op, ast.Div):
            t = ast.unparse(nd.right).replace(' ', '')
            if t in ('2.0*e[l]', 'p+r'):
                lines[nd.lineno] = t
    obs = list(side)
    for o in ex.obligations:
        if o.kind in ('inv-entry', 'inv-step'):
            obs.append(o)
        elif o.kind == 'defined' and o.name.startswith('defined.div@'):
            ln = int(o.name.split('@')[1])
            if ln in lines:
                o.name = 'tql2.divisor_nonzero[%s]' % lines[ln]
                obs.append(o)
    obs.append(Obligation('tql2.both_divisions_found', [], z3.BoolVal(
        sorted(lines.values()) == ['2.0*e[l]', 'p+r']), W))
    obs.append(Obligation('tql2.returns', [], z3.BoolVal(len(outs) >= 1), W))
    for o_ in obs:
        o_.extra = dict(o_.extra or {}, backends=['z3'], timeout_ms=60000)

    def rp(model, ob):
        mats = [[[1, 1, 1], [1, 1, 1], [1, 1, 1]],
                [[0, 0, 0], [0, 2, 1], [0, 1, 3]],
                [[0, 0, 0], [0, 1, 2], [0, 2, 4]],
                [[2, 1, 0], [1, 3, 1], [0, 1, 4]],
                [[1, 0, 0], [0, 1, 0], [0, 0, 1]]]
        script = """
import json, sys
import numpy as np
import linalg3
out = []
for a in json.load(sys.stdin)['mats']:
    A = np.array(a, dtype=float)
    d, V = linalg3.py_eigen_decompose_eispack(A.copy())
    d = np.asarray(d); V = np.asarray(V)
    sc = max(np.abs(A).max(), 1e-300)
    out.append([float(np.abs(A @ V - V @ np.diag(d)).max() / sc),
                float(np.abs(V.T @ V - np.identity(3)).max())])
print(json.dumps(out))
"""
        try:
            res = native.run_built_pyx(PYX, script, dict(mats=mats))
        except Exception as e_:
            return dict(reproduced=False, note='build/run failed: %s' %
                        str(e_)[:300])
        for a, (r1, r2) in zip(mats, res):
            if not (r1 <= 1e-8 and r2 <= 1e-8):
                return dict(reproduced=True, A=a, residual_AV_Vd=r1,
                            residual_orth=r2,
                            how='linalg3 built from the working tree')
        return dict(reproduced=False)
    ctx.prove('linalg3.tql2_safety', obs, replay=rp, use_nf=False)


# ------------------------------------------------------------------- tred2
TRED2_PATHS = 9


def task_tred2(ctx, repo, which):
    """tred2 (Householder reduction to tridiagonal form), n = 3, symmetric
    input: on every path with at most ONE active reflection (a degenerate
    row at either step: 5 of the 9 paths, all inputs with a02 = a12 = 0 or a
    zero sub-row) V is orthogonal afterwards and A V = V T with
    T = tridiag(d; e[1], e[2]), e[0] = 0.  The 4 paths with two nested
    reflections (nested square roots) are NOT proved: they are covered only
    by the bounded native stand-in (task tred2_bounded)."""
    mc = repo.cython_module(PYX)
    fn = mc.functions['tred2']
    W = mc.path
    N = 3
    A = [[z3.Real('a%d%d' % (min(i, j), max(i, j))) for j in range(N)]
         for i in range(N)]
    V = [list(r) for r in A]
    d = syms('d', N)
    e = syms('e', N)
    ex = Executor(repo, mc, qualname='tred2', definedness='assume',
                  merge=False, prune=True)
    ex.spec_env['n'] = N
    ex.spec_env['fabs'] = Native(lambda e_, s_, a, k, nd: S.ite(
        S.cmp('>=', a[0], 0), a[0], S.neg(a[0])))
    outs = ex.exec_function(fn, dict(V=V, d=d, e=e), State(pc=[]))
    if which == 0:
        ctx.function(mc, fn, 'tred2', ex.dropped)
        ctx.prove('tred2.paths', [Obligation('tred2.path_count', [],
                                             z3.BoolVal(len(outs) ==
                                                        TRED2_PATHS), W,
                                             extra=dict(paths=len(outs)))])
    if which >= len(outs):
        return
    o = outs[which]

    def nsqrt(exprs):
        seen = set()

        def walk(x):
            if not S.is_sym(x) or x.get_id() in seen:
                return
            seen.add(x.get_id())
            if z3.is_app(x) and x.decl().name() == 'sqrt':
                seen.add(('sqrt', x.get_id()))
            for c in x.children():
                walk(c)
        for x in exprs:
            walk(S.to_z3(x) if S.is_sym(x) else x)
        return len([k for k in seen if isinstance(k, tuple)])
    flat = [c for c in o.pc] + [x for r in o.state.env['V'] for x in r]
    if nsqrt(flat) > 1:
        ctx.note('tred2 path %d: two nested reflections, not proved '
                 '(bounded stand-in only)' % which)
        return
    obs = []
    Vf, df, ef = o.state.env['V'], o.state.env['d'], o.state.env['e']
    for i in range(N):
        for j in range(i, N):
            s_ = 0
            for k in range(N):
                s_ = S.add(s_, S.mul(Vf[k][i], Vf[k][j]))
            g = S.cmp('==', s_, 1 if i == j else 0)
            obs.append(Obligation('tred2.orthogonal.%d.%d' % (i, j), o.pc,
                                  S.to_z3(g) if S.is_sym(g) else z3.BoolVal(
                                      bool(g)), W))
    T = [[0] * N for _ in range(N)]
    for i in range(N):
        T[i][i] = df[i]
    for i in range(1, N):
        T[i][i - 1] = ef[i]
        T[i - 1][i] = ef[i]
    for i in range(N):
        for j in range(N):
            l, r_ = 0, 0
            for k in range(N):
                l = S.add(l, S.mul(A[i][k], Vf[k][j]))
                r_ = S.add(r_, S.mul(Vf[i][k], T[k][j]))
            g = S.cmp('==', l, r_)
            obs.append(Obligation('tred2.AV=VT.%d.%d' % (i, j), o.pc,
                                  S.to_z3(g) if S.is_sym(g) else z3.BoolVal(
                                      bool(g)), W))
    g = S.cmp('==', ef[0], 0)
    obs.append(Obligation('tred2.e0_is_zero', o.pc, S.to_z3(g) if S.is_sym(g)
                          else z3.BoolVal(bool(g)), W))

    def rp(model, ob):
        mats = [[[2, 1, 0], [1, 3, 0], [0, 0, 4]],
                [[1, 2, 0], [2, 4, 0], [0, 0, 0]],
                [[1e-8, 3e-8, 0], [3e-8, 2e-8, 0], [0, 0, 5e-8]],
                [[2, 1, 0.5], [1, 3, 1], [0.5, 1, 4]],
                [[0, 0, 0], [0, 2, 1], [0, 1, 3]]]
        script = """
import json, sys
import numpy as np
import linalg3
out = []
for a in json.load(sys.stdin)['mats']:
    A = np.array(a, dtype=float)
    d, V = linalg3.py_eigen_decompose_eispack(A.copy())
    d = np.asarray(d); V = np.asarray(V)
    sc = max(np.abs(A).max(), 1e-300)
    out.append([float(np.abs(A @ V - V @ np.diag(d)).max() / sc),
                float(np.abs(V.T @ V - np.identity(3)).max())])
print(json.dumps(out))
"""
        try:
            res = native.run_built_pyx(PYX, script, dict(mats=mats))
        except Exception as e_:
            return dict(reproduced=False, note='build/run failed: %s' %
                        str(e_)[:300])
        for a, (r1, r2) in zip(mats, res):
            if not (r1 <= 1e-8 and r2 <= 1e-8):
                return dict(reproduced=True, A=a, residual_AV_Vd=r1,
                            residual_orth=r2,
                            how='linalg3 built from the working tree '
                            '(eigen_decomposition = tred2 + tql2)')
        return dict(reproduced=False)
    ctx.prove('linalg3.tred2.path%d' % which, obs, replay=rp)


def task_eigen_bounded(ctx, repo):
    """BOUNDED stand-in (never counted as proved) for what is outside reach:
    the two-reflection paths of tred2 and the QL iteration of tql2.  The
    extension is built from the working tree and eigen_decomposition is run
    on a fixed list of symmetric matrices (random full, plane tensors with
    a02 = a12 = 0, zero first row/column, rank one, repeated eigenvalues,
    scales 1e-8 .. 1e8): A V = V diag(d), V orthogonal, d ascending."""
    import random
    rnd = random.Random(13)
    mats = []
    for sc in (1.0, 1e-8, 1e8):
        for _ in range(6):
            a = [[0.0] * 3 for _ in range(3)]
            for i in range(3):
                for j in range(i, 3):
                    a[i][j] = a[j][i] = rnd.uniform(-1, 1) * sc
            mats.append(a)
        mats.append([[2 * sc, 1 * sc, 0], [1 * sc, 3 * sc, 0],
                     [0, 0, 4 * sc]])
        mats.append([[0, 0, 0], [0, 2 * sc, 1 * sc], [0, 1 * sc, 3 * sc]])
        mats.append([[1 * sc, 2 * sc, 3 * sc], [2 * sc, 4 * sc, 6 * sc],
                     [3 * sc, 6 * sc, 9 * sc]])
        mats.append([[sc, sc, sc], [sc, sc, sc], [sc, sc, sc]])
        mats.append([[2 * sc, 0, 0], [0, 2 * sc, 0], [0, 0, sc]])
        mats.append([[0, 1 * sc, 0], [1 * sc, 0, 0], [0, 0, 0]])
    script = """
import json, sys
import numpy as np
import linalg3
out = []
for a in json.load(sys.stdin)['mats']:
    A = np.array(a, dtype=float)
    d, V = linalg3.py_eigen_decompose_eispack(A.copy())
    d = np.asarray(d); V = np.asarray(V)
    sc = max(np.abs(A).max(), 1e-300)
    out.append([float(np.abs(A @ V - V @ np.diag(d)).max() / sc),
                float(np.abs(V.T @ V - np.identity(3)).max()),
                bool(np.all(np.diff(d) >= -1e-12 * sc))])
print(json.dumps(out))
"""
    bound = '%d symmetric 3x3 matrices (see docstring)' % len(mats)
    try:
        res = native.run_built_pyx(PYX, script, dict(mats=mats))
    except Exception as e_:
        ctx.bounded_check('eigen.native', bound, 0, False,
                          'build/run failed: %s' % str(e_)[:300])
        return
    bad = None
    for a, (r1, r2, asc) in zip(mats, res):
        if not (r1 <= 1e-8 and r2 <= 1e-8 and asc):
            bad = dict(A=a, residual_AV_Vd=r1, residual_orth=r2,
                       ascending=asc)
            break
    ctx.bounded_check('eigen.native', bound, len(mats), bad is None,
                      bad or 'ok')
    ctx.prove('eigen.bounded_check_ran', [Obligation(
        'ran', [], z3.BoolVal(True), PYX)],
        info='bounded, not proved: see coverage.bounded')
