"""C14 -- interpolation of particle data obeys its defining formulas.

Functions under contract (pysph/tools/interpolator.py): initialize / loop /
post_loop of InterpolateFunction (shepard), InterpolateSPH (sph),
SPLASHInterpolateProperty (splash), SPLASHInterpolatePropertyNormalized
(splash_norm), SPHFirstOrderApproximationPreStep and
SPHFirstOrderApproximation (order1); Interpolator.interpolate,
Interpolator.update_particle_arrays, Interpolator.update.

discipline  every cell `loop` accumulates into is set to 0 by `initialize` of
            the same equation, for the destination's own block only  (so a
            second interpolate() starts clean: the "after ... updated" clause)
sum         one neighbour step adds exactly the documented term to each
            accumulator (inductive step of  acc = sum over neighbours seen):
              shepard      N += WIJ ;           P += WIJ * s_j
              sph          P += m_j/rho_j * WIJ * s_j
              splash       P += m_j/rho_j * WI  * s_j
              splash_norm  U += m_j/rho_j * WJ ; P += m_j/rho_j * WJ * s_j
            and post_loop divides by the denominator iff it is > 1e-12
shepard     relational invariants of the same step: constant field  s = c
            keeps P = c N; lo <= s_j <= hi and W >= 0 keep lo N <= P <= hi N;
            hence after post_loop the result is c / lies in [lo, hi]; with no
            neighbour it stays 0
order1      the moment matrix M and the right-hand side b of the 4x4 system
            are advanced consistently: for the linear field
            f(x_j) = u0 + u . (x_j - x_d),  delta b_r = sum_c delta M[r][c] u_c
            for r = 0..3, so b = M u is an invariant; post_loop hands exactly
            (M, b, n = dim + 1) to augmented_matrix / gj_solve and stores the
            solution, so (C13: gj_solve returns the solution of a non-singular
            system) prop = (f, grad f)
traces      interpolate(): every source array gets its temp_prop written
            (the property's data, or 0.0 when it lacks it) before compute();
            result slicing prop[comp::4] for order1; update_particle_arrays
            re-creates the NNPS over the new arrays + points and rebinds the
            evaluator; update() refreshes domain then neighbours.
"""
import z3
from fractions import Fraction

from pyvc import sym as S
from pyvc import native
from pyvc.repo import Repo
from pyvc.symexec import Executor, State, Obligation, Native, CalleeContract
from pyvc.sym import SymObject, VCError

MOD = 'pysph.tools.interpolator'
ASSUMPTIONS = [
    'group/equation order (C03), neighbour lists (C01) and compiled = Python '
    '(C02, unverified part) are assumed; W >= 0 from C08 for the bounds lemma',
    'gj_solve returns the solution of a non-singular system (C13-G3)',
    'the induction from "one neighbour step adds the term" to "the '
    'accumulator equals the sum over all neighbours" is the standard loop '
    'induction over the neighbour list (the list is C01/C03 territory)',
]
TRUSTED = []

STRIDE = {'prop': None, 'moment': 16, 'p_sph': 4}


def tasks(tier):
    # order1 hands the 4x4 system to augmented_matrix / gj_solve (C13): their
    # contracts for n = 4 are re-proved here
    return ['shepard', 'sph', 'splash', 'splash_norm', 'order1', 'traces',
            'setup', 'evaluator', 'canary', 'native', 'dep:C13:helpers:4',
            'dep:C13:gj:4:1',
            # new points / arrays reach the compiled evaluator through
            # AccelerationEval.set_nnps / update_particle_arrays (C03) and the
            # array wrappers (C02)
            'dep:C03:forward', 'dep:C02:wrapper']


# ---------------------------------------------------------------- evaluator
def task_evaluator(ctx, repo):
    """SPHEvaluator (the engine under Interpolator-like tools): evaluate(t,
    dt) computes at (t, dt); update() refreshes the DOMAIN (cell size, box
    wrap, ghosts) and THEN the neighbour structures -- never the other way
    round -- and skips the domain only on request; update_particle_arrays
    builds a new neighbour search over the new arrays (dim and radius_scale
    of the kernel, the evaluator's domain manager), registers it with the
    evaluator and hands the same arrays to the evaluator."""
    me_mod = repo.module('pysph.tools.sph_evaluator')
    W = me_mod.path
    M = me_mod.methods('SPHEvaluator')
    obs = []

    def run(fname, args):
        tr = []

        def rec(tag):
            return Native(lambda e, s_, a, k, n: tr.append(
                (tag, list(a), dict(k))))
        made = []

        def factory(e, s_, a, k, n):
            o_ = SymObject(None, dict(update=rec('new.update'),
                                      update_domain=rec('new.update_domain')),
                           'new_nnps')
            made.append((list(a), dict(k), o_))
            tr.append(('factory',))
            return o_
        nn = SymObject(None, dict(update=rec('nnps.update'),
                                  update_domain=rec('nnps.update_domain')),
                       'nnps')
        fe = SymObject(None, dict(compute=rec('eval.compute'),
                                  set_nnps=rec('eval.set_nnps'),
                                  update_particle_arrays=rec('eval.update')),
                       'func_eval')
        kern = SymObject(None, dict(dim=z3.Int('kdim'),
                                    radius_scale=z3.Real('krs')), 'kernel')
        obj = SymObject('SPHEvaluator', dict(
            nnps=nn, func_eval=fe, kernel=kern, domain_manager='DOMAIN',
            nnps_factory=Native(factory), arrays='OLD'), 'self')
        obj.module = me_mod.name
        ex = Executor(repo, me_mod, qualname='SPHEvaluator.' + fname,
                      merge=False, inline={'SPHEvaluator._create_nnps'})
        outs = ex.exec_function(M[fname], dict(self=obj, **args))
        ctx.function(me_mod, M[fname], 'SPHEvaluator.' + fname, ex.dropped)
        return outs, tr, made, kern
    try:
        t, dt = z3.Real('t'), z3.Real('dt')
        outs, tr, made, kern = run('evaluate', dict(t=t, dt=dt))
        obs.append(Obligation('evaluator.evaluate', [], z3.BoolVal(
            len(outs) == 1 and tr == [('eval.compute', [t, dt], {})]), W))
        outs, tr, made, kern = run('update', dict(update_domain=True))
        obs.append(Obligation('evaluator.update.domain_then_neighbours', [],
                              z3.BoolVal(len(outs) == 1 and [x[0] for x in tr]
                                         == ['nnps.update_domain',
                                             'nnps.update']), W,
                              extra=dict(trace=str([x[0] for x in tr]))))
        outs, tr, made, kern = run('update', dict(update_domain=False))
        obs.append(Obligation('evaluator.update.without_domain', [],
                              z3.BoolVal(len(outs) == 1 and [x[0] for x in tr]
                                         == ['nnps.update']), W))
        outs, tr, made, kern = run('update_particle_arrays',
                                   dict(arrays='NEW'))
        ok = len(outs) == 1 and len(made) == 1
        why = str([x[0] for x in tr])
        if ok:
            a_, k_, o_ = made[0]
            ok = not a_ and k_.get('particles') == 'NEW' and \
                k_.get('domain') == 'DOMAIN' and \
                S.same(k_.get('dim'), kern.attrs['dim']) and \
                S.same(k_.get('radius_scale'), kern.attrs['radius_scale'])
            names = [x[0] for x in tr]
            ok = ok and names == ['factory', 'eval.set_nnps', 'eval.update'] \
                and tr[1][1] == [o_] and tr[2][1] == ['NEW'] and \
                outs[0].state.env['self'].attrs['nnps'] is o_
        obs.append(Obligation('evaluator.update_particle_arrays', [],
                              z3.BoolVal(bool(ok)), W, extra=dict(why=why)))
        ctx.function(me_mod, M['_create_nnps'], 'SPHEvaluator._create_nnps')
    except VCError as e:
        ctx.outside('evaluator', str(e))
        return
    ctx.prove('evaluator.refreshes_domain_then_neighbours', obs)


# ------------------------------------------------------------------ helpers
def arr(name, n):
    return [z3.Real('%s_%d' % (name, i)) for i in range(n)]


def run(repo, m, cls, meth, args, pre=(), inline=(), contracts=None,
        attrs=None):
    fn = m.methods(cls)[meth]
    obj = SymObject(cls, dict(attrs or {}), 'self')
    obj.module = m.name
    ex = Executor(repo, m, qualname='%s.%s' % (cls, meth),
                  definedness='assume', merge=False, prune=True,
                  inline=set(inline), contracts=contracts or {})
    outs = ex.exec_function(fn, dict(args, self=obj), State(pc=list(pre)))
    return fn, ex, outs


def argnames(m, cls, meth):
    return [a.arg for a in m.methods(cls)[meth].args.args][1:]


PAIR = dict(WIJ=z3.Real('WIJ'), WI=z3.Real('WI'), WJ=z3.Real('WJ'),
            XIJ=[z3.Real('XIJ%d' % k) for k in range(3)],
            DWIJ=[z3.Real('DWIJ%d' % k) for k in range(3)])
D_IDX, S_IDX = 1, 2          # distinct indices: a wrong one is visible


def build(names, dstride):
    """Arguments for a method: d_ arrays have 3 blocks of their stride, s_
    arrays 3 cells; values are symbols named after the array."""
    a = {}
    for n in names:
        if n == 'd_idx':
            a[n] = D_IDX
        elif n == 's_idx':
            a[n] = S_IDX
        elif n in PAIR:
            v = PAIR[n]
            a[n] = list(v) if isinstance(v, list) else v
        elif n.startswith('d_'):
            a[n] = arr(n, 3 * dstride.get(n[2:], 1))
        elif n.startswith('s_'):
            a[n] = arr(n, 3)
        else:
            raise VCError('argument %s' % n)
    return a


def own_block(name, dstride):
    s = dstride.get(name[2:], 1)
    return range(D_IDX * s, (D_IDX + 1) * s)


def discipline(ctx, repo, m, cls, dstride, T):
    """cells written by loop == cells zeroed by initialize, inside the
    destination's own block; nothing else touched."""
    W = m.path
    ln = argnames(m, cls, 'loop')
    a = build(ln, dstride)
    init0 = {k: list(v) for k, v in a.items() if isinstance(v, list)}
    fn, ex, outs = run(repo, m, cls, 'loop', a)
    ctx.function(m, fn, '%s.loop' % cls, ex.dropped)
    written = set()
    obs = [o for o in ex.obligations if o.kind in ('index', 'unbound')]
    for o in outs:
        for k, v0 in init0.items():
            fin = o.state.env[k]
            for i, (x, y) in enumerate(zip(fin, v0)):
                if not S.same(x, y):
                    written.add((k, i))
    inn = argnames(m, cls, 'initialize')
    b = build(inn, dstride)
    init1 = {k: list(v) for k, v in b.items() if isinstance(v, list)}
    fn2, ex2, outs2 = run(repo, m, cls, 'initialize', b)
    ctx.function(m, fn2, '%s.initialize' % cls, ex2.dropped)
    obs += [o for o in ex2.obligations if o.kind in ('index', 'unbound')]
    zeroed, touched = set(), set()
    for o in outs2:
        for k, v0 in init1.items():
            fin = o.state.env[k]
            for i, (x, y) in enumerate(zip(fin, v0)):
                if not S.same(x, y):
                    touched.add((k, i))
                    if not S.is_sym(x) and x == 0:
                        zeroed.add((k, i))
    ok_own = all(k.startswith('d_') and i in own_block(k, dstride)
                 for (k, i) in written | touched)
    missing = sorted(written - zeroed)
    obs.append(Obligation('%s.own_block' % T, [], z3.BoolVal(bool(ok_own)),
                          W))
    obs.append(Obligation('%s.zeroed' % T, [], z3.BoolVal(not missing), W))
    return obs, missing, written


REPLAY14 = r"""
import json, sys, importlib.util, inspect, random
d = json.load(sys.stdin)
spec = importlib.util.spec_from_file_location('interp_ut', d['root'] + '/pysph/tools/interpolator.py')
mod = importlib.util.module_from_spec(spec); mod.__package__ = 'pysph.tools'; spec.loader.exec_module(mod)
D_IDX, S_IDX = d['d_idx'], d['s_idx']
dstride = d['dstride']
rnd = random.Random(4)
def fresh_store(W):
    st = {}
    def val(n):
        if n == 'd_idx': return D_IDX
        if n == 's_idx': return S_IDX
        if n in W: return W[n]
        if n not in st:
            k = 3 * dstride.get(n[2:], 1) if n.startswith('d_') else 3
            st[n] = [rnd.uniform(0.5, 2) for _ in range(k)]
        return st[n]
    return st, val
def kern():
    return {'WIJ': rnd.uniform(0.1, 2), 'WI': rnd.uniform(0.1, 2), 'WJ': rnd.uniform(0.1, 2),
            'XIJ': [rnd.uniform(-1, 1) for _ in range(3)], 'DWIJ': [rnd.uniform(-1, 1) for _ in range(3)]}
out = dict(reproduced=False)
if d['mode'] == 'twice':
    eq = getattr(mod, d['cls'])(dest='d', sources=['s'], **d.get('kw', {}))
    W = kern(); st, val = fresh_store(W)
    ln = list(inspect.signature(eq.loop).parameters); inn = list(inspect.signature(eq.initialize).parameters)
    eq.initialize(*[val(n) for n in inn]); eq.loop(*[val(n) for n in ln])
    before = {n: list(v) for n, v in st.items()}
    eq.initialize(*[val(n) for n in inn]); eq.loop(*[val(n) for n in ln])
    bad = {n: dict(first_pass=before[n], second_pass=v) for n, v in st.items() if n.startswith('d_') and before[n] != v}
    out = dict(reproduced=bool(bad), target=d['cls'], differing=bad,
               how='initialize; loop; initialize; loop on plain lists: the second pass must reproduce the first')
elif d['mode'] == 'sum':
    eq = getattr(mod, d['cls'])(dest='d', sources=['s'])
    for trial in range(50):
        W = kern(); st, val = fresh_store(W)
        names = list(inspect.signature(eq.loop).parameters)
        vals = [val(n) for n in names]
        p0 = st['d_prop'][D_IDX]
        eq.loop(*vals)
        s_ = st['s_temp_prop'][S_IDX]
        if d['method'] == 'shepard': w = W['WIJ']
        else: w = st['s_m'][S_IDX] / st['s_rho'][S_IDX] * {'sph': W['WIJ'], 'splash': W['WI'], 'splash_norm': W['WJ']}[d['method']]
        if abs(st['d_prop'][D_IDX] - (p0 + w * s_)) > 1e-12:
            out = dict(reproduced=True, target=d['cls'] + '.loop', observed=st['d_prop'][D_IDX], expected=p0 + w * s_, kernel_values=W); break
elif d['mode'] == 'order1':
    ea = mod.SPHFirstOrderApproximationPreStep(dest='d', sources=['s'], dim=3)
    eb = mod.SPHFirstOrderApproximation(dest='d', sources=['s'], dim=3)
    for trial in range(20):
        uu = [rnd.uniform(-2, 2) for _ in range(4)]
        W = kern(); st, val = fresh_store(W)
        val('s_temp_prop')[S_IDX] = uu[0] - sum(uu[i + 1] * W['XIJ'][i] for i in range(3))
        na = list(inspect.signature(ea.loop).parameters); nb = list(inspect.signature(eb.loop).parameters)
        va, vb = [val(n) for n in na], [val(n) for n in nb]
        M0 = list(st['d_moment']); b0 = list(st['d_p_sph'])
        ea.loop(*va); eb.loop(*vb)
        for r in range(4):
            db = st['d_p_sph'][4 * D_IDX + r] - b0[4 * D_IDX + r]
            dm = sum((st['d_moment'][16 * D_IDX + 4 * r + c] - M0[16 * D_IDX + 4 * r + c]) * uu[c] for c in range(4))
            if abs(db - dm) > 1e-10:
                out = dict(reproduced=True, row=r, delta_b=db, delta_M_u=dm, u=uu, kernel=W); break
        if out['reproduced']: break
print(json.dumps(out))
"""


def _venv(payload):
    from pyvc.repo import REPO_ROOT
    payload = dict(payload, root=REPO_ROOT, d_idx=D_IDX, s_idx=S_IDX)
    try:
        return native.run_venv(REPLAY14, payload)
    except Exception as e:
        return dict(reproduced=False, note=str(e)[-300:])


def replay_twice(cls, dstride, kw=None):
    def rp(model, ob):
        return _venv(dict(mode='twice', cls=cls, dstride=dstride,
                          kw=kw or {}))
    return rp


def replay_sum(cls, method):
    def rp(model, ob):
        return _venv(dict(mode='sum', cls=cls, method=method, dstride={}))
    return rp


# --------------------------------------------------------------------- tasks
def task_native(ctx):
    """BOUNDED stand-in, never counted as proved: the real Interpolator with
    the evaluator it generates and compiles, against the defining formulas
    evaluated with numpy (contracts/c14_native_walk.py), through interpolate
    / move + update / set_interpolation_points / update_particle_arrays.
    The contracts above are on the equation bodies and the wiring; the
    compiled neighbour loop and the refresh of caches after replacement are
    only exercised here."""
    import itertools
    import os
    from concurrent.futures import ThreadPoolExecutor
    from pyvc.repo import REPO_ROOT
    thorough = ctx.tier == 'thorough'
    if thorough:
        combos = [[mt, dim, na, per] for mt, dim, na, per in
                  itertools.product(['shepard', 'sph', 'splash',
                                     'splash_norm', 'order1'], (1, 2, 3),
                                    (1, 2), (0, 1))
                  if not (mt == 'order1' and per)]
        seeds = (0, 1)
    else:
        combos = [['shepard', 2, 2, 1], ['sph', 1, 1, 0],
                  ['splash_norm', 2, 1, 0], ['order1', 2, 1, 0]]
        seeds = (1,)
    src = open(os.path.join(os.path.dirname(os.path.abspath(__file__)),
                            'c14_native_walk.py')).read()
    jobs = [(c, sd) for c in combos for sd in seeds]

    def one(job):
        c, sd = job
        return native.run_venv(src, dict(root=REPO_ROOT, combos=[c],
                                         seed=sd), timeout=3000, cwd='/tmp')
    with ThreadPoolExecutor(8 if thorough else 4) as ex:
        res = list(ex.map(one, jobs))
    bound = ('%d configurations (method x dimension x 1 or 2 source arrays x '
             'open / periodic in x; kernels Gaussian and CubicSpline; '
             'perturbed lattices with variable h, m, rho; 12 random target '
             'points), each through 5 stages: interpolate, move + update(), '
             'set_interpolation_points, update_particle_arrays, new points '
             'again; values against the defining sums over all particles and '
             'periodic images within radius_scale * max(h_i, h_j) (rtol '
             '1e-9); order1 against a random linear field and its gradient '
             '(rtol 1e-6, targets in [0.3, 0.7]^d, not periodic)' % len(jobs))
    bad = [r['bad'] for r in res if r['bad']]
    if bad:
        b = bad[0]
        ctx.bounded_check('native.%s.dim%s' % (b.get('method'), b.get('dim')),
                          bound, 1, False, b)
    else:
        ctx.bounded_check('native.interpolator_stages', bound,
                          sum(r['cases'] for r in res), True,
                          'stages that agree with the defining formulas')
    # a two-dimensional set that lies in the x-z plane (its own case name: a
    # recorded finding must not hide the configurations above)
    r = native.run_venv(src, dict(root=REPO_ROOT, combos=[
        ['order1', 2, 1, 0, 'xz']], seed=1), timeout=3000, cwd='/tmp')
    ctx.bounded_check('native.order1.xz_plane', 'one perturbed 9 x 9 lattice '
                      'in the x-z plane, random linear field a + b x + c z, '
                      '12 targets in [0.3, 0.7]^2: value and the x and z '
                      'gradient components (rtol 1e-6)', 1, r['bad'] is None,
                      r['bad'] or 'linear field and gradient reproduced')


def run_task(task, ctx):
    if task.startswith('dep:'):
        from contracts import deps
        return deps.run_dep(task, ctx)
    if task == 'native':
        return task_native(ctx)
    repo = Repo()
    m = repo.module(MOD)
    if task == 'setup':
        return task_setup(ctx, repo, m)
    if task == 'evaluator':
        return task_evaluator(ctx, repo)
    if task == 'shepard':
        return task_weighted(ctx, repo, m, 'InterpolateFunction', 'shepard')
    if task == 'sph':
        return task_weighted(ctx, repo, m, 'InterpolateSPH', 'sph')
    if task == 'splash':
        return task_weighted(ctx, repo, m, 'SPLASHInterpolateProperty',
                             'splash')
    if task == 'splash_norm':
        return task_weighted(ctx, repo, m,
                             'SPLASHInterpolatePropertyNormalized',
                             'splash_norm')
    if task == 'order1':
        return task_order1(ctx, repo, m)
    if task == 'traces':
        return task_traces(ctx, repo, m)
    if task == 'canary':
        ctx.canary('canary.must_fail', Obligation(
            'c', [PAIR['WIJ'] >= 0], PAIR['WIJ'] > 0))
        ctx.results.append(dict(name='canary.pipeline', verdict='proved',
                                queries=0, backends={}, seconds=0,
                                failing=[], replay=None, info=''))
        return
    raise ValueError(task)


SPEC = {
    # method: (weight, denominator accumulator or None)
    'shepard': (lambda a: PAIR['WIJ'], 'd_number_density'),
    'sph': (lambda a: a['s_m'][S_IDX] / a['s_rho'][S_IDX] * PAIR['WIJ'],
            None),
    'splash': (lambda a: a['s_m'][S_IDX] / a['s_rho'][S_IDX] * PAIR['WI'],
               None),
    'splash_norm': (lambda a: a['s_m'][S_IDX] / a['s_rho'][S_IDX] *
                    PAIR['WJ'], 'd_unity'),
}


def task_weighted(ctx, repo, m, cls, method):
    W = m.path
    T = method
    dstride = {}
    obs, missing, written = discipline(ctx, repo, m, cls, dstride, T)
    ctx.prove('%s.accumulators_reset' % T, obs,
              replay=replay_twice(cls, dstride),
              info='not zeroed: %s' % missing if missing else '')
    # one neighbour step adds the documented term
    ln = argnames(m, cls, 'loop')
    a = build(ln, dstride)
    a0 = {k: list(v) for k, v in a.items() if isinstance(v, list)}
    fn, ex, outs = run(repo, m, cls, 'loop', a)
    weight, den = SPEC[method]
    w = weight(a0)
    sj = a0['s_temp_prop'][S_IDX]
    step = []
    for i, o in enumerate(outs):
        fin = o.state.env
        step.append(Obligation('%s.step.prop.%d' % (T, i), o.pc, S.to_z3(
            S.cmp('==', fin['d_prop'][D_IDX], a0['d_prop'][D_IDX] + w * sj)),
            W))
        if den:
            step.append(Obligation('%s.step.den.%d' % (T, i), o.pc, S.to_z3(
                S.cmp('==', fin[den][D_IDX], a0[den][D_IDX] + w)), W))
        # frame: nothing but the own cells
        for k, v0 in a0.items():
            for idx, (x, y) in enumerate(zip(fin[k], v0)):
                if (k, idx) in (('d_prop', D_IDX), (den, D_IDX)):
                    continue
                if not S.same(x, y):
                    step.append(Obligation('%s.frame.%s.%d' % (T, k, idx),
                                           o.pc, z3.BoolVal(False), W))
    ctx.prove('%s.defining_sum' % T, step, replay=replay_sum(cls, method),
              sample=True)
    if not den:
        return
    # post_loop: divide iff denominator > 1e-12
    pn = argnames(m, cls, 'post_loop')
    b = build(pn, dstride)
    b0 = {k: list(v) for k, v in b.items() if isinstance(v, list)}
    fn2, ex2, outs2 = run(repo, m, cls, 'post_loop', b)
    ctx.function(m, fn2, '%s.post_loop' % cls, ex2.dropped)
    N, P = b0[den][D_IDX], b0['d_prop'][D_IDX]
    post = []
    for i, o in enumerate(outs2):
        r = o.state.env['d_prop'][D_IDX]
        post.append(Obligation('%s.post.%d' % (T, i), o.pc, S.to_z3(S.cmp(
            '==', r, z3.If(N > S.to_z3(Fraction(1, 10**12)), P / N, P))),
            W, extra=dict(backends=['z3'])))
    ctx.prove('%s.normalisation' % T, post)
    if method != 'shepard' and method != 'splash_norm':
        return
    # Shepard lemmas: relational invariants of the same loop step
    c, lo, hi = z3.Reals('c lo hi')
    N0, P0 = a0[den][D_IDX], a0['d_prop'][D_IDX]
    lem = []
    for i, o in enumerate(outs):
        fin = o.state.env
        N1, P1 = fin[den][D_IDX], fin['d_prop'][D_IDX]
        lem.append(Obligation('%s.const.%d' % (T, i), o.pc + [
            sj == c, P0 == c * N0], S.to_z3(S.cmp('==', P1, c * S.to_real(
                N1))), W, extra=dict(backends=['z3'])))
        lem.append(Obligation('%s.bounds.%d' % (T, i), o.pc + [
            w >= 0, lo <= sj, sj <= hi, lo * N0 <= P0, P0 <= hi * N0,
            N0 >= 0], z3.And(lo * S.to_real(N1) <= S.to_real(P1),
                             S.to_real(P1) <= hi * S.to_real(N1),
                             S.to_real(N1) >= 0), W,
            extra=dict(backends=['z3'])))
    for i, o in enumerate(outs2):
        r = S.to_real(o.state.env['d_prop'][D_IDX])
        lem.append(Obligation('%s.mean.const.%d' % (T, i), o.pc + [
            P == c * N, N > S.to_z3(Fraction(1, 10**12))], r == c, W,
            extra=dict(backends=['z3'])))
        lem.append(Obligation('%s.mean.bounds.%d' % (T, i), o.pc + [
            lo * N <= P, P <= hi * N, N > S.to_z3(Fraction(1, 10**12))],
            z3.And(lo <= r, r <= hi), W, extra=dict(backends=['z3'])))
        lem.append(Obligation('%s.mean.empty.%d' % (T, i), o.pc + [
            P == 0, N == 0], r == 0, W, extra=dict(backends=['z3'])))
    ctx.prove('%s.weighted_mean_lemmas' % T, lem, use_nf=False)
    # ... and from the property, not from the code: the value IS the
    # weighted mean wherever some source is in range, i.e. for EVERY positive
    # denominator (the lemmas above carry the code's absolute threshold
    # 1e-12 as a hypothesis)
    if method != 'shepard':
        return
    strict = []
    for i, o in enumerate(outs2):
        r = S.to_real(o.state.env['d_prop'][D_IDX])
        strict.append(Obligation('%s.mean.any_positive_weight.%d' % (T, i),
                                 o.pc + [P == c * N, N > 0], r == c, W,
                                 extra=dict(backends=['z3'])))

    def rp_small(model, ob, cls=cls):
        from pyvc.repo import REPO_ROOT
        script = r"""
import json, sys, importlib.util, inspect
d = json.load(sys.stdin)
spec = importlib.util.spec_from_file_location('pysph.tools.interp_ut', d['root'] + '/pysph/tools/interpolator.py')
mod = importlib.util.module_from_spec(spec); mod.__package__ = 'pysph.tools'; spec.loader.exec_module(mod)
C = getattr(mod, d['cls']); eq = C.__new__(C)
names = [n for n in inspect.signature(C.post_loop).parameters if n != 'self']
vals = {}
for n in names:
    vals[n] = 0 if n == 'd_idx' else ([7.0 * 1e-13] if n == 'd_prop' else [1e-13])
C.post_loop(eq, **vals)
print(json.dumps(dict(got=vals['d_prop'][0])))
"""
        try:
            r = native.run_venv(script, dict(root=REPO_ROOT, cls=cls))
        except Exception as e:
            return dict(reproduced=False, note=str(e)[-300:])
        return dict(reproduced=abs(r['got'] - 7.0) > 1e-9,
                    case='constant field 7 seen through a total weight of '
                         '1e-13 (e.g. a 3-D set with lengths of order 1e5)',
                    observed=r['got'], expected=7.0)
    ctx.prove('%s.mean_for_every_positive_weight' % T, strict, use_nf=False,
              replay=rp_small)


# ------------------------------------------------------------------- order1
def task_order1(ctx, repo, m):
    W = m.path
    A, Bq = 'SPHFirstOrderApproximationPreStep', 'SPHFirstOrderApproximation'
    dstride = {'moment': 16, 'p_sph': 4, 'prop': 4}
    for cls, T in ((A, 'order1.moment'), (Bq, 'order1.rhs')):
        obs, missing, written = discipline(ctx, repo, m, cls, dstride, T)
        kw = dict(dim=3)
        ctx.prove('%s.accumulators_reset' % T, obs,
                  replay=replay_twice(cls, dstride, kw),
                  info='not zeroed: %s' % missing if missing else '')
    # consistency of the two loops for a linear field
    la, lb = argnames(m, A, 'loop'), argnames(m, Bq, 'loop')
    shared = {}
    a = build(la, dstride)
    b = build(lb, dstride)
    for k in a:
        if k in b and k.startswith('s_'):
            b[k] = a[k]
    a0 = {k: list(v) for k, v in a.items() if isinstance(v, list)}
    b0 = {k: list(v) for k, v in b.items() if isinstance(v, list)}
    u = [z3.Real('u%d' % i) for i in range(4)]
    X = PAIR['XIJ']
    # f(x_j) = u0 + u.(x_j - x_d) = u0 - u.XIJ
    fj = u[0] - u[1] * X[0] - u[2] * X[1] - u[3] * X[2]
    fnA, exA, outsA = run(repo, m, A, 'loop', a)
    fnB, exB, outsB = run(repo, m, Bq, 'loop', b)
    obs = []
    for oa in outsA:
        for ob_ in outsB:
            M1, M0 = oa.state.env['d_moment'], a0['d_moment']
            b1, bb0 = ob_.state.env['d_p_sph'], b0['d_p_sph']
            hy = oa.pc + ob_.pc + [b0['s_temp_prop'][S_IDX] == fj]
            for r in range(4):
                lhs = S.sub(b1[4 * D_IDX + r], bb0[4 * D_IDX + r])
                rhs = 0
                for c_ in range(4):
                    dM = S.sub(M1[16 * D_IDX + 4 * r + c_],
                               M0[16 * D_IDX + 4 * r + c_])
                    rhs = S.add(rhs, S.mul(dM, u[c_]))
                g = S.cmp('==', lhs, rhs)
                # substitute the field value so that NF sees an identity
                gz = z3.substitute(S.to_z3(g), (b0['s_temp_prop'][S_IDX],
                                                fj))
                obs.append(Obligation('order1.row%d' % r, oa.pc + ob_.pc,
                                      gz, W))

    def rp(model, ob):
        return _venv(dict(mode='order1', dstride=dstride))
    ctx.prove('order1.linear_field_consistency', obs, replay=rp, sample=True)
    # post_loop hands (M, b, n=dim+1) to the solver and stores the result
    for dim in (1, 2, 3):
        calls = []

        def c_aug(ex, st, args, kwargs, node):
            calls.append(('aug', [list(args[0]), list(args[1])] +
                          list(args[2:5])))
            for i in range(len(args[5])):
                args[5][i] = z3.Real('aug_%d' % i)
            return None

        def c_gj(ex, st, args, kwargs, node):
            calls.append(('gj', [list(args[0])] + list(args[1:3])))
            for i in range(len(args[3])):
                args[3][i] = z3.Real('sol_%d' % i)
            return 0

        pn = argnames(m, Bq, 'post_loop')
        a = build(pn, dstride)
        a0 = {k: list(v) for k, v in a.items() if isinstance(v, list)}
        fn, ex, outs = run(repo, m, Bq, 'post_loop', a, attrs=dict(dim=dim),
                           contracts={'augmented_matrix': CalleeContract(
                               c_aug), 'gj_solve': CalleeContract(c_gj)})
        ok = len(outs) == 1 and [c[0] for c in calls] == ['aug', 'gj']
        if ok:
            (_, (Am, bv, n_, na_, nmax)), (_, (aug, n2, nb2)) = calls
            ok = (all(S.same(x, y) for x, y in zip(
                Am, a0['d_moment'][16 * D_IDX:16 * D_IDX + 16])) and
                all(S.same(x, y) for x, y in zip(
                    bv, a0['d_p_sph'][4 * D_IDX:4 * D_IDX + 4])) and
                n_ == dim + 1 and na_ == 1 and nmax == 4 and
                n2 == dim + 1 and nb2 == 1 and
                all(str(x) == 'aug_%d' % i for i, x in enumerate(aug)))
            fin = outs[0].state.env['d_prop']
            ok = ok and all(str(fin[4 * D_IDX + i]) == 'sol_%d' % i
                            for i in range(4)) and \
                all(S.same(fin[i], a0['d_prop'][i]) for i in range(12)
                    if i not in range(4 * D_IDX, 4 * D_IDX + 4))
        ctx.function(m, fn, Bq + '.post_loop', ex.dropped)
        ctx.prove('order1.solve.dim%d' % dim, [Obligation(
            'solve', [], z3.BoolVal(bool(ok)), W)],
            info='calls: %s' % [c[0] for c in calls])


# ------------------------------------------------------------------- traces
def task_traces(ctx, repo, m):
    W = m.path
    cls = 'Interpolator'
    # interpolate(): temp_prop of every source array is written before
    # compute(); arrays lacking the property get 0.0
    fn = m.methods(cls)['interpolate']
    obs = []
    for method in ('shepard', 'order1'):
        for comp in (0, 2):
            has = [z3.Bool('has_prop_0'), z3.Bool('has_prop_1')]
            events = []

            class Props(object):
                def __init__(self, i):
                    self.i = i

                def sym_contains(self, name):
                    return has[self.i]

            class TempView(object):
                def __init__(self, i):
                    self.i = i

            def mk_array(i):
                def get(ex, st, a, k, n):
                    # ALL particles (ghost copies of a periodic domain
                    # included) must be read and written
                    allp = k.get('only_real_particles', True) is False
                    if a[0] == 'temp_prop':
                        return TempView(i) if allp else TempView(('real', i))
                    return ('data', i, a[0]) if allp else ('real_data', i,
                                                          a[0])
                pa = SymObject(None, dict(properties=Props(i),
                                          get=Native(get)), 'array%d' % i)
                return pa
            arrays = [mk_array(0), mk_array(1)]

            class Res(object):
                def __init__(self, kind, inner):
                    self.kind, self.inner = kind, inner

                def chain(self):
                    out, x = [], self
                    while isinstance(x, Res):
                        out.append(x.kind)
                        x = x.inner
                    return out, x

                def vc_getattr(self, name, ex, st, node):
                    if name in ('copy', 'squeeze'):
                        return Native(lambda e, s_, a, k, n: Res(name, self))
                    raise VCError(name)

                def vc_getitem(self, idx, ex, st, node):
                    return Res('slice', (self, idx))

            fe = SymObject(None, dict(compute=Native(
                lambda ex, st, a, k, n: st.trace.append('compute'))), 'fe')
            pa = SymObject(None, dict(prop=Res('prop', 'pa.prop')), 'pa')
            obj = SymObject(cls, dict(particle_arrays=arrays, func_eval=fe,
                                      method=method, pa=pa, shape=(2, 2)),
                            'self')
            obj.module = m.name

            class Exec(Executor):
                def store(self_, base, idx, v, st, node):
                    if isinstance(base, TempView):
                        st.trace.append(('temp_prop', base.i, v))
                        return
                    return Executor.store(self_, base, idx, v, st, node)

                def assign(self_, target, v, st):
                    import ast as _a
                    if isinstance(target, _a.Attribute) and \
                            target.attr == 'shape':
                        return
                    return Executor.assign(self_, target, v, st)
            ex = Exec(repo, m, qualname=cls + '.interpolate', merge=False,
                      externals={'isinstance': lambda e, s_, a, k, n: True})
            try:
                outs = ex.exec_function(fn, dict(self=obj, prop='rho',
                                                 comp=comp))
            except VCError as e:
                obs.append(Obligation('interpolate.subset', [],
                                      z3.BoolVal(False), W,
                                      extra=dict(note=str(e))))
                continue
            ctx.function(m, fn, cls + '.interpolate', ex.dropped)
            for i, o in enumerate(outs):
                tr = o.state.trace
                if o.kind == 'raise':
                    ok = method != 'order1' and comp != 0
                    obs.append(Obligation('interp.%s.%d.raise.%d' % (
                        method, comp, i), o.pc, z3.BoolVal(ok), W))
                    continue
                writes = [e for e in tr if isinstance(e, tuple)]
                ok = (len(writes) == 2 and tr and tr[-1] == 'compute' and
                      [w[1] for w in writes] == [0, 1])
                g = z3.BoolVal(bool(ok))
                if ok:
                    conds = []
                    for w in writes:
                        i_ = w[1]
                        data_ok = isinstance(w[2], tuple) and w[2] == (
                            'data', i_, 'rho')
                        zero_ok = not isinstance(w[2], tuple) and \
                            not S.is_sym(w[2]) and w[2] == 0
                        conds.append(z3.And(
                            z3.Implies(has[i_], z3.BoolVal(bool(data_ok))),
                            z3.Implies(z3.Not(has[i_]),
                                       z3.BoolVal(bool(zero_ok)))))
                    g = z3.And(*conds)
                obs.append(Obligation('interp.%s.%d.temp_prop.%d' % (
                    method, comp, i), o.pc, g, W,
                    extra=dict(backends=['z3'])))
                val = o.value
                # result: squeeze(copy(prop)) or squeeze(copy(prop[comp::4]))
                ok2 = isinstance(val, Res)
                if ok2:
                    kinds, inner = val.chain()
                    if method == 'order1':
                        ok2 = kinds[:3] == ['squeeze', 'copy', 'slice'] and \
                            isinstance(inner, tuple) and \
                            inner[1] == slice(comp, None, 4)
                    else:
                        ok2 = kinds == ['squeeze', 'copy', 'prop']
                obs.append(Obligation('interp.%s.%d.result.%d' % (
                    method, comp, i), o.pc, z3.BoolVal(bool(ok2)), W))

    def rp(model, ob):
        script = r'''
import json, sys, importlib.util
import numpy as np
d = json.load(sys.stdin)
spec = importlib.util.spec_from_file_location('interp_ut', d['root'] + '/pysph/tools/interpolator.py')
mod = importlib.util.module_from_spec(spec); mod.__package__ = 'pysph.tools'; spec.loader.exec_module(mod)
from pysph.base.utils import get_particle_array
x, y = np.mgrid[0:1:11j, 0:1:11j]; x = x.ravel(); y = y.ravel()
def arrays():
    f = get_particle_array(name='fluid', x=x, y=y, h=0.15, m=0.01, rho=1.0, p=2.0 + 0*x, T=1.0 + x)
    s = get_particle_array(name='solid', x=x + 0.05, y=y + 0.05, h=0.15, m=0.01, rho=1.0, p=2.0 + 0*x)
    return [f, s]
ip = mod.Interpolator(arrays(), num_points=100)
p1 = ip.interpolate('p'); T1 = ip.interpolate('T');
ref = mod.Interpolator(arrays(), num_points=100).interpolate('T')
print(json.dumps(dict(maxdiff=float(abs(T1 - ref).max()), tmax=float(T1.max()))))
'''
        from pyvc.repo import REPO_ROOT
        try:
            r = native.run_venv(script, dict(root=REPO_ROOT), timeout=900)
        except Exception as e:
            return dict(reproduced=False, note=str(e)[-300:])
        return dict(reproduced=r['maxdiff'] > 1e-9, how='interpolate(p) '
                    'then interpolate(T) vs a fresh interpolate(T) with a '
                    'source array lacking T', **r)
    ctx.prove('interpolate.temp_prop_written', obs, replay=rp, use_nf=False)
    # update_particle_arrays / update
    ev = []

    def rec(name):
        return Native(lambda ex, st, a, k, n: ev.append((name, a)))
    fn2 = m.methods(cls)['update_particle_arrays']
    new = ['A', 'B']
    pa = 'POINTS'
    fe = SymObject(None, dict(update_particle_arrays=rec('fe.update')), 'fe')
    # the object already holds the PREVIOUS arrays (any list)
    obj = SymObject(cls, dict(pa=pa, func_eval=fe,
                              particle_arrays=['OLD_A', 'OLD_B', 'OLD_C']),
                    'self')
    obj.module = m.name

    def c_set(ex, st, a, k, n):
        a[0].attrs['particle_arrays'] = a[1]
        ev.append(('set', a[1]))

    def c_nnps(ex, st, a, k, n):
        ev.append(('nnps', a[1]))
    ex = Executor(repo, m, qualname=cls + '.update_particle_arrays',
                  contracts={cls + '._set_particle_arrays':
                             CalleeContract(c_set),
                             cls + '._create_nnps': CalleeContract(c_nnps)})
    outs = ex.exec_function(fn2, dict(self=obj, particle_arrays=new))
    ok = [e[0] for e in ev] == ['set', 'nnps', 'fe.update'] and \
        ev[1][1] == ['A', 'B', 'POINTS'] and ev[2][1][0] == ['A', 'B',
                                                             'POINTS']
    ctx.function(m, fn2, cls + '.update_particle_arrays')
    fn3 = m.methods(cls)['update']
    ev2 = []
    nn = SymObject(None, dict(
        update_domain=Native(lambda ex, st, a, k, n: ev2.append('domain')),
        update=Native(lambda ex, st, a, k, n: ev2.append('update'))), 'nnps')
    o3 = SymObject(cls, dict(nnps=nn), 'self')
    o3.module = m.name
    ex3 = Executor(repo, m, qualname=cls + '.update')
    ex3.exec_function(fn3, dict(self=o3, update_domain=True))
    a_ = list(ev2)
    del ev2[:]
    ex3 = Executor(repo, m, qualname=cls + '.update')
    ex3.exec_function(fn3, dict(self=o3, update_domain=False))
    ok3 = a_ == ['domain', 'update'] and ev2 == ['update']
    ctx.function(m, fn3, cls + '.update')
    ctx.prove('interpolator.rebinding', [Obligation(
        'rebind', [], z3.BoolVal(bool(ok and ok3)), W)],
        info='events %s / %s %s' % ([e[0] for e in ev], a_, ev2))


# ------------------------------------------------------------ set-up wiring
def task_setup(ctx, repo, m):
    """How an Interpolator is put together (trace contracts on the real
    private helpers): the neighbour search spans the sources plus the points
    with the kernel's own radius_scale and dim, cache on, and is handed to
    the evaluator; every method evaluates ITS equation class on destination
    'interpolate' from ALL source arrays (order1: densities first, with
    real=False, then the pre-step, then the approximation); the points carry
    h = the largest h of any source and the result properties with the
    documented strides; every source array gets temp_prop."""
    cls = 'Interpolator'
    W = m.path
    obs = []
    # _create_nnps
    fn = m.methods(cls)['_create_nnps']
    made = []
    fe = SymObject(None, dict(set_nnps=Native(lambda e, s_, a, k, n:
                                              made.append(('set_nnps',
                                                           a[0])))), 'fe')
    kern = SymObject(None, dict(dim=z3.Int('kdim'),
                                radius_scale=z3.Real('krs')), 'kernel')
    obj = SymObject(cls, dict(kernel=kern, domain_manager='DM',
                              func_eval=fe), 'self')
    obj.module = m.name
    ex = Executor(repo, m, qualname=cls + '._create_nnps', merge=False,
                  externals={'LinkedListNNPS': lambda e, s_, a, k, n: made.append(
                      ('NNPS', tuple(a), dict(k))) or 'THE_NNPS'})
    outs = ex.exec_function(fn, dict(self=obj, arrays=['A', 'B', 'PTS']))
    ctx.function(m, fn, cls + '._create_nnps')
    ok = len(outs) == 1 and len(made) == 2 and made[0][0] == 'NNPS' and \
        not made[0][1] and made[0][2].get('particles') == ['A', 'B', 'PTS'] \
        and S.same(made[0][2].get('dim'), kern.attrs['dim']) and \
        S.same(made[0][2].get('radius_scale'), kern.attrs['radius_scale']) \
        and made[0][2].get('domain') == 'DM' and \
        made[0][2].get('cache') is True and made[1] == ('set_nnps',
                                                        'THE_NNPS') and \
        outs[0].state.env['self'].attrs.get('nnps') == 'THE_NNPS'
    obs.append(Obligation('setup.nnps', [], z3.BoolVal(bool(ok)), W,
                          extra=dict(made=str(made)[:300])))
    # _compile_acceleration_eval, every method
    fn = m.methods(cls)['_compile_acceleration_eval']
    want_cls = dict(shepard='InterpolateFunction', sph='InterpolateSPH',
                    splash='SPLASHInterpolateProperty',
                    splash_norm='SPLASHInterpolatePropertyNormalized')
    for method in ('shepard', 'sph', 'splash', 'splash_norm', 'order1'):
        made = []

        def eqn(name):
            return lambda e, s_, a, k, n, name=name: ('EQ', name,
                                                       tuple(sorted(
                                                           (kk, str(vv))
                                                           for kk, vv in
                                                           k.items())))
        ext = {nm: eqn(nm) for nm in (
            'InterpolateFunction', 'InterpolateSPH',
            'SPLASHInterpolateProperty',
            'SPLASHInterpolatePropertyNormalized', 'SummationDensity',
            'SPHFirstOrderApproximationPreStep',
            'SPHFirstOrderApproximation')}
        ext['Group'] = lambda e, s_, a, k, n: ('GROUP', tuple(
            k.get('equations', a[0] if a else [])), k.get('real'))
        ext['AccelerationEval'] = lambda e, s_, a, k, n: made.append(
            ('AE', a)) or 'THE_AE'
        comp = SymObject(None, dict(compile=Native(
            lambda e, s_, a, k, n: made.append(('compile',)))), 'compiler')
        ext['SPHCompiler'] = lambda e, s_, a, k, n: made.append(
            ('SPHCompiler', a)) or comp
        pas = [SymObject(None, dict(name='fluid'), 'pa0'),
               SymObject(None, dict(name='solid'), 'pa1')]
        obj = SymObject(cls, dict(particle_arrays=pas, equations=None,
                                  method=method, dim=2, kernel='KERNEL'),
                        'self')
        obj.module = m.name
        ex = Executor(repo, m, qualname=cls + '._compile_acceleration_eval',
                      merge=False, externals=ext)
        try:
            outs = ex.exec_function(fn, dict(self=obj, arrays=['ARRS']))
        except VCError as e:
            obs.append(Obligation('setup.equations.%s' % method, [],
                                  z3.BoolVal(False), W,
                                  extra=dict(error=str(e))))
            continue
        ae = [x for x in made if x[0] == 'AE']
        ok = len(outs) == 1 and len(ae) == 1 and ae[0][1][0] == ['ARRS'] \
            and ae[0][1][2] == 'KERNEL' and \
            [x[0] for x in made] == ['AE', 'SPHCompiler', 'compile'] and \
            outs[0].state.env['self'].attrs.get('func_eval') == 'THE_AE'
        if ok:
            eqs = ae[0][1][1]
            srcs = "['fluid', 'solid']"
            if method != 'order1':
                ok = len(eqs) == 1 and eqs[0][1] == want_cls[method] and \
                    dict(eqs[0][2]) == dict(dest='interpolate', sources=srcs)
            else:
                ok = len(eqs) == 3 and all(g[0] == 'GROUP' for g in eqs) \
                    and eqs[0][2] is False and eqs[1][2] is True and \
                    eqs[2][2] is True and \
                    [(q[1], dict(q[2])) for q in eqs[0][1]] == [
                        ('SummationDensity', dict(dest='fluid',
                                                  sources=srcs)),
                        ('SummationDensity', dict(dest='solid',
                                                  sources=srcs))] and \
                    [(q[1], dict(q[2])) for q in eqs[1][1]] == [
                        ('SPHFirstOrderApproximationPreStep', dict(
                            dest='interpolate', sources=srcs, dim='2'))] and \
                    [(q[1], dict(q[2])) for q in eqs[2][1]] == [
                        ('SPHFirstOrderApproximation', dict(
                            dest='interpolate', sources=srcs, dim='2'))]
        obs.append(Obligation('setup.equations.%s' % method, [], z3.BoolVal(
            bool(ok)), W, extra=dict(made=str(made)[:400])))
    ctx.function(m, fn, cls + '._compile_acceleration_eval')
    # _get_max_h_in_arrays: the largest h of any source array
    fn = m.methods(cls)['_get_max_h_in_arrays']
    hm = [z3.Real('hmax0'), z3.Real('hmax1')]
    pas = [SymObject(None, dict(h=SymObject(None, dict(max=Native(
        lambda e, s_, a, k, n, i=i: hm[i])), 'h%d' % i)), 'pa%d' % i)
        for i in range(2)]
    obj = SymObject(cls, dict(particle_arrays=pas), 'self')
    obj.module = m.name
    ex = Executor(repo, m, qualname=cls + '._get_max_h_in_arrays', merge=True)
    outs = ex.exec_function(fn, dict(self=obj), State(pc=[hm[0] > 0,
                                                          hm[1] > 0]))
    ctx.function(m, fn, cls + '._get_max_h_in_arrays')
    for i_, o in enumerate(outs):
        r = S.to_real(o.value)
        obs.append(Obligation('setup.hmax.%d' % i_, o.pc, z3.And(
            r >= hm[0], r >= hm[1], z3.Or(r == hm[0], r == hm[1])), W,
            extra=dict(backends=['z3'])))
    # _set_particle_arrays: every array gets temp_prop (once)
    fn = m.methods(cls)['_set_particle_arrays']
    ev = []
    pas = [SymObject(None, dict(properties={'x': 1}, add_property=Native(
        lambda e, s_, a, k, n: ev.append(('add', 0, a[0])))), 'pa0'),
        SymObject(None, dict(properties={'x': 1, 'temp_prop': 1},
                             add_property=Native(
                                 lambda e, s_, a, k, n: ev.append(
                                     ('add', 1, a[0])))), 'pa1')]
    obj = SymObject(cls, {}, 'self')
    obj.module = m.name
    ex = Executor(repo, m, qualname=cls + '._set_particle_arrays',
                  merge=False)
    outs = ex.exec_function(fn, dict(self=obj, particle_arrays=pas))
    ctx.function(m, fn, cls + '._set_particle_arrays')
    ok = len(outs) == 1 and ev == [('add', 0, 'temp_prop')] and \
        [p_.name for p_ in outs[0].state.env['self'].attrs[
            'particle_arrays']] == ['pa0', 'pa1']
    obs.append(Obligation('setup.temp_prop', [], z3.BoolVal(bool(ok)), W))
    ctx.prove('setup.interpolator_is_wired_as_documented', obs, use_nf=False)
