"""C15 -- Riemann solvers are reflection-symmetric; contact solvers admissible.

Functions under contract (pysph/sph/gas_dynamics/riemann_solver.py): SIGN,
riemann_solve, non_diffusive, van_leer, prefun_exact, exact, ducowicz, roe,
llxf, hllc, hllc_ball, hlle, hll_ball, hllsy.

Precondition `admissible`: rhol, rhor, pl, pr > 0, 1 < gamma <= 3,
niter >= 1, 0 < tol < 1.

Relational contracts (two runs of the same text, see pyvc/relational.py):
  refl   run2 = (rhor, rhol, pr, pl, -ur, -ul): same return code, same p*,
         negated u*                                   (11 solvers + dispatch)
  gal    run2 = (ul + c, ur + c): same code and p*, u* + c   (van_leer, exact)
  scale  run2 = (k rho, k p), k > 0: same code, k p*, same u* (van_leer, exact)
Non-relational:
  eq     equal left/right states: code 0 and (p*, u*) = (p, u)   (all 11)
  pos    van_leer: code 0 => p* >= 1e-25 > 0 and |dp|/p* < tol
         exact:    code 0 => p* > 0, last change <= tol, u* formula
  vac    exact: 2/(gamma-1) (cl+cr) <= ur-ul => code 1
Iterative solvers are cut at the loop head with a *relational* invariant
(run-2 loop state = image of run-1 loop state), so the iteration count is
unbounded.  Divisions: run in `assume` mode -- a non-zero divisor is a
hypothesis of the path ("when the result is finite"), as the property words
it; they are listed in the evidence.
"""
import z3
from fractions import Fraction

from pyvc import sym as S
from pyvc import backends as B
from pyvc import relational as R
from pyvc import native
from pyvc.repo import Repo
from pyvc.symexec import (Executor, State, Obligation, CalleeContract,
                          LoopSpec)
from pyvc.sym import VCError

MOD = 'pysph.sph.gas_dynamics.riemann_solver'
SOLVERS = ['non_diffusive', 'van_leer', 'exact', 'hllc', 'ducowicz', 'hlle',
           'roe', 'llxf', 'hllc_ball', 'hll_ball', 'hllsy']
METHOD_ID = {0: 'non_diffusive', 1: 'van_leer', 2: 'exact', 3: 'hllc',
             4: 'ducowicz', 5: 'hlle', 6: 'roe', 7: 'llxf', 8: 'hllc_ball',
             9: 'hll_ball', 10: 'hllsy'}
ITERATIVE = ('van_leer', 'exact')
NAMES = ['rhol', 'rhor', 'pl', 'pr', 'ul', 'ur', 'gamma']
SMALLP = Fraction(1, 10**25)

ASSUMPTIONS = [
    'divisions inside the solvers are assumed defined on the path considered '
    '(definedness = hypothesis): the property speaks of finite results',
    'pow(x, y) is uninterpreted (congruence, pow(x,0)=1, pow(x,1)=x, '
    'pow(1,y)=1, x>0 => pow>0); its base is assumed > 0 where it is applied',
    'printf is dropped',
]
TRUSTED = []


def V():
    return {n: z3.Real(n) for n in NAMES}


def admissible(v, niter, tol):
    return [v['rhol'] > 0, v['rhor'] > 0, v['pl'] > 0, v['pr'] > 0,
            v['gamma'] > 1, v['gamma'] <= 3, niter >= 1, tol > 0, tol < 1]


RANGES = dict(rhol=(0.1, 5), rhor=(0.1, 5), pl=(0.1, 5), pr=(0.1, 5),
              gamma=(1.1, 3), ul=(-1.5, 1.5), ur=(-1.5, 1.5), tol=(1e-3, 0.5),
              delta=(-2, 2), kappa=(0.5, 2))


# Obligations the back ends do not decide inside any budget tried (z3 and cvc5
# time out on the non-linear case analysis); they are NOT claimed and not run.
# See DESIGN.md section 3, C15.
NOT_VERIFIED = {
    'refl:ducowicz': 'four-way case analysis with SIGN/abs/max under square '
                     'roots: 6 path pairs stay unknown after 20 s each; a '
                     'genuine tie-case asymmetry was found (own obligation '
                     'ducowicz.refl.tie_witness)',
    'scale:exact': 'step obligations with pow() of scaled ratios time out',
    'refl:hllc (sm == 0)': 'boundary pair where the contact speed is exactly '
                           '0 in both runs: z3 times out; the generic case '
                           'sm != 0 is proved',
}


def tasks(tier):
    out = []
    for s in SOLVERS:
        if 'refl:%s' % s not in NOT_VERIFIED:
            out.append('refl:%s' % s)
        out.append('eq:%s' % s)
    out.append('tie:ducowicz')
    out.append('ducowicz_bounded')
    out.append('dispatch')
    out.append('prefun')
    out.append('stubs')
    for s in ITERATIVE:
        out.append('gal:%s' % s)
        if 'scale:%s' % s not in NOT_VERIFIED:
            out.append('scale:%s' % s)
        out.append('pos:%s' % s)
    out.append('vac:exact')
    out.append('canary')
    return out


# ------------------------------------------------------------ transformations
def T_refl(v):
    a2 = dict(rhol=v['rhor'], rhor=v['rhol'], pl=v['pr'], pr=v['pl'],
              ul=-v['ur'], ur=-v['ul'], gamma=v['gamma'])
    forms = [('same', lambda c: c), ('neg', lambda c: -c)]
    rel = lambda p1, u1, p2, u2: [p2 == p1, u2 == -u1]
    return a2, forms, rel, [], []


def T_gal(v):
    d = z3.Real('delta')
    a2 = dict(v, ul=v['ul'] + d, ur=v['ur'] + d)
    forms = [('same', lambda c: c), ('shift', lambda c: c + d),
             ('negshift', lambda c: c - d)]
    rel = lambda p1, u1, p2, u2: [p2 == p1, u2 == u1 + d]
    return a2, forms, rel, ['delta'], []


def T_scale(v):
    k = z3.Real('kappa')           # scale factor is kappa^2 > 0
    a2 = dict(v, rhol=v['rhol'] * k * k, rhor=v['rhor'] * k * k,
              pl=v['pl'] * k * k, pr=v['pr'] * k * k)
    forms = []
    for j in (0, 2, -2, 1, -1, 4, -4, 3, -3):
        def f(c, j=j):
            r = c
            for _ in range(abs(j)):
                r = r * k if j > 0 else r / k
            return r
        forms.append(('k^%d' % j, f))
    rel = lambda p1, u1, p2, u2: [p2 == p1 * k * k, u2 == u1]
    return a2, forms, rel, ['kappa'], [k > 0]


TRANSFORMS = dict(refl=T_refl, gal=T_gal, scale=T_scale)

# relational loop invariants: variable -> (partner in run 1, form label)
LOOP_REL = {
    ('van_leer', 'refl'): dict(
        pstar=('pstar', 'same'), pstar_old=('pstar_old', 'same'),
        wl=('wr', 'same'), wr=('wl', 'same'), zl=('zr', 'neg'),
        zr=('zl', 'neg'), ustar_l=('ustar_r', 'neg'),
        ustar_r=('ustar_l', 'neg'), converged=('converged', 'same'),
        iteration=('iteration', 'same')),
    ('van_leer', 'gal'): dict(
        pstar=('pstar', 'same'), pstar_old=('pstar_old', 'same'),
        wl=('wl', 'same'), wr=('wr', 'same'), zl=('zl', 'same'),
        zr=('zr', 'same'), ustar_l=('ustar_l', 'shift'),
        ustar_r=('ustar_r', 'shift'), converged=('converged', 'same'),
        iteration=('iteration', 'same')),
    ('van_leer', 'scale'): dict(
        pstar=('pstar', 'k^2'), pstar_old=('pstar_old', 'k^2'),
        wl=('wl', 'k^2'), wr=('wr', 'k^2'), zl=('zl', 'k^2'),
        zr=('zr', 'k^2'), ustar_l=('ustar_l', 'k^0'),
        ustar_r=('ustar_r', 'k^0'), converged=('converged', 'k^0'),
        iteration=('iteration', 'k^0')),
    ('exact', 'refl'): dict(
        p=('p', 'same'), pold=('pold', 'same'), change=('change', 'same'),
        fl=('fr', ['same', 'same']), fr=('fl', ['same', 'same']),
        i=('i', 'same')),
    ('exact', 'gal'): dict(
        p=('p', 'same'), pold=('pold', 'same'), change=('change', 'same'),
        fl=('fl', ['same', 'same']), fr=('fr', ['same', 'same']),
        i=('i', 'same')),
    ('exact', 'scale'): dict(
        p=('p', 'k^2'), pold=('pold', 'k^2'), change=('change', 'k^0'),
        fl=('fl', ['k^0', 'k^-2']), fr=('fr', ['k^0', 'k^-2']),
        i=('i', 'k^0')),
}


# --------------------------------------------------------------- execution
def _externals(nofloor):
    ext = {}
    if nofloor:
        def mx(ex, st, args, kwargs, node):
            # hypothesis "the absolute floor smallp is inactive": max(smallp,
            # x) with x > smallp
            a, b = args
            if not S.is_sym(a) and a == SMALLP:
                a, b = b, a
            if not S.is_sym(b) and b == SMALLP and S.is_sym(a):
                st.pc.append(S.to_real(a) > S.to_z3(SMALLP))
                return a
            return S.maxval(args[0], args[1])
        ext['max'] = mx
    # printf only reports; it has no effect on the state (dropped)
    ext['printf'] = lambda e, s_, a, k, n: None
    return ext


def run_solver(repo, m, fn, args, pre, hook=None, loop_spec=None,
               nofloor=False, merge=True):
    ex = Executor(repo, m, qualname=fn, definedness='assume', merge=merge,
                  inline={'SIGN', 'prefun_exact'}, prune=False,
                  externals=_externals(nofloor),
                  loop_specs={(fn, 0): loop_spec} if loop_spec else {})
    ex.on_assign = hook
    res = [z3.Real('res_in0'), z3.Real('res_in1')]
    a = dict(args)
    a['result'] = res
    outs = ex.exec_function(m.functions[fn], a, State(pc=list(pre)))
    return ex, outs


def _feasible(hyps):
    la = B.LinAbs(B.positive_vars(hyps))
    s = z3.SolverFor('QF_LRA')
    s.set('timeout', 2000)
    for h in hyps:
        s.add(la.ab(z3.simplify(h)))
    for sd in la.side:
        s.add(sd)
    return s.check() != z3.unsat


def _image(forms, label, term):
    for l, f in forms:
        if l == label:
            return f(S.to_real(term)) if S.is_num(term) and not \
                isinstance(term, bool) else term
    raise KeyError(label)


def relational(ctx, repo, m, fn, tname, nofloor=False):
    v = V()
    niter, tol = z3.Int('niter'), z3.Real('tol')
    pre = admissible(v, niter, tol)
    a2, forms, rel, extra_names, extra_pre = TRANSFORMS[tname](v)
    pre = pre + extra_pre
    envs = R.sample_envs(NAMES + ['tol'] + extra_names, [p for p in pre
                                                         if 'niter' not in
                                                         str(p)], 3,
                         ranges=RANGES, extra=lambda r: dict(niter=7))
    al = R.Aligner(envs, forms)
    a1 = dict(v, niter=niter, tol=tol)
    a2 = dict(a2, niter=niter, tol=tol)
    spec1 = spec2 = None
    looprel = LOOP_REL.get((fn, tname))
    if fn in ITERATIVE:
        spec1 = LoopSpec()
    ex1, A = run_solver(repo, m, fn, a1, pre, hook=lambda ex, st, n, val:
                        (al.record(val, n), val)[1], loop_spec=spec1,
                        nofloor=nofloor)
    obs = []
    if fn in ITERATIVE:
        head1 = spec1.log['head']
        hm = {}
        for name, (partner, label) in looprel.items():
            src = head1.env.get(partner)
            if isinstance(label, list):
                hm[name] = [_image(forms, l, x) for l, x in zip(label, src)]
            elif isinstance(src, bool) or (S.is_sym(src) and
                                           z3.is_bool(src)) or \
                    (S.is_sym(src) and z3.is_int(src)):
                hm[name] = src
            else:
                hm[name] = _image(forms, label, src)
        spec2 = LoopSpec(havoc_map=hm)
    ex2, Bo = run_solver(repo, m, fn, a2, pre, hook=lambda ex, st, n, val:
                         al.align(val, st.pc, n), loop_spec=spec2,
                         nofloor=nofloor)
    ctx.function(m, m.functions[fn], fn, ex1.dropped)
    npre = len(pre)
    if fn in ITERATIVE:
        # (1) the relation holds on loop entry
        e1, e2 = spec1.log['entry'], spec2.log['entry']
        for name, (partner, label) in looprel.items():
            x2, x1 = e2.env.get(name), e1.env.get(partner)
            if x1 is None or x2 is None or not (S.is_num(x1) or
                                                isinstance(x1, list)):
                continue
            pairs = list(zip(x2, x1, label)) if isinstance(x1, list) else \
                [(x2, x1, label)]
            for (y2, y1, l) in pairs:
                if not S.is_sym(y1) and not S.is_sym(y2) and \
                        not S.is_num(y1):
                    continue
                if S.is_sym(y1) and str(y1).startswith('uninit!'):
                    # declare('matrix(n)') scratch: arbitrary in both runs,
                    # overwritten by the body before it is read
                    continue
                try:
                    g = S.cmp('==', y2, _image(forms, l, y1))
                except Exception:
                    continue
                obs.append(Obligation('entry.%s' % name, e1.pc + e2.pc[npre:],
                                      S.to_z3(g), m.path))
        # (2) one arbitrary iteration preserves it (same exit decision)
        for (s1, sig1) in spec1.log['ends']:
            for (s2, sig2) in spec2.log['ends']:
                hy = s1.pc + s2.pc[npre:]
                if not _feasible(hy):
                    continue
                k1 = None if sig1 is None else sig1[0]
                k2 = None if sig2 is None else sig2[0]
                if k1 != k2:
                    obs.append(Obligation('step.exit-decision', hy,
                                          z3.BoolVal(False), m.path))
                    continue
                for name, (partner, label) in looprel.items():
                    x2, x1 = s2.env.get(name), s1.env.get(partner)
                    pairs = list(zip(x2, x1, label)) if isinstance(
                        x1, list) else [(x2, x1, label)]
                    for (y2, y1, l) in pairs:
                        if isinstance(y1, bool) or (S.is_sym(y1) and
                                                    z3.is_bool(y1)):
                            g = S.to_z3(y2) == S.to_z3(y1)
                        else:
                            g = S.to_z3(S.cmp('==', y2, _image(forms, l,
                                                                y1)))
                        obs.append(Obligation('step.%s' % name, hy, g,
                                              m.path))
        # loop guards agree: exits pair with exits
        for s1 in spec1.log['exits']:
            ok = any(_feasible(s1.pc + s2.pc[npre:])
                     for s2 in spec2.log['exits'])
            if not ok:
                obs.append(Obligation('guard.exit', s1.pc, z3.BoolVal(False),
                                      m.path))
    # (3) final outcomes
    for i, a in enumerate(A):
        for j, b in enumerate(Bo):
            hy = a.pc + b.pc[npre:]
            if fn == 'hllc' and S.is_sym(a.state.env.get('sm')):
                # generic position: contact speed not exactly zero
                hy = hy + [S.to_real(a.state.env['sm']) != 0]
            if not _feasible(hy):
                continue
            if a.kind != b.kind:
                obs.append(Obligation('final.%d.%d.kind' % (i, j), hy,
                                      z3.BoolVal(False), m.path))
                continue
            ra, rb = a.state.env['result'], b.state.env['result']
            same_code = S.cmp('==', a.value, b.value)
            obs.append(Obligation('final.%d.%d.code' % (i, j), hy,
                                  S.to_z3(same_code) if S.is_sym(same_code)
                                  else z3.BoolVal(bool(same_code)), m.path,
                                  extra=dict(backends=['z3'],
                                             timeout_ms=8000)))
            # the star state is related whenever the solver reports success
            ok0 = S.cmp('==', a.value, 0)
            if ok0 is False:
                continue
            hy2 = hy + ([S.to_z3(ok0)] if S.is_sym(ok0) else [])
            g = [S.to_z3(x) for x in rel(S.to_real(ra[0]), S.to_real(ra[1]),
                                         S.to_real(rb[0]),
                                         S.to_real(rb[1]))]
            obs.append(Obligation('final.%d.%d' % (i, j), hy2, z3.And(*g),
                                  m.path, extra=dict(
                                      backends=['nf', 'z3'],
                                      timeout_ms=8000)))
    ctx.note('%s/%s: aligner tried %d lemmas, adopted %d' % (
        fn, tname, al.stats['tried'], al.stats['adopted']))
    return obs, pre


# ------------------------------------------------------------------- replays
def _call(fn, a, niter=40, tol=1e-8):
    mod = native.load(MOD)
    r = [0.0, 0.0]
    try:
        code = getattr(mod, fn)(a['rhol'], a['rhor'], a['pl'], a['pr'],
                                a['ul'], a['ur'], a['gamma'], niter, tol, r)
    except (ZeroDivisionError, ValueError, OverflowError):
        return None
    except TypeError:
        # pure-Python printf(s) is called with two arguments on the
        # divergence path (C printf in the compiled build): failure code
        return 1, r[0], r[1]
    return code, r[0], r[1]


def _pts(model, n=400, seed=5):
    import random
    from pyvc.calc import model_float
    rnd = random.Random(seed)
    first = {k: model_float(model, k, None) for k in NAMES}
    if all(x is not None for x in first.values()):
        yield first
    for _ in range(n):
        sc = 10 ** rnd.uniform(-3, 3)
        yield dict(rhol=rnd.uniform(0.05, 8) * sc, rhor=rnd.uniform(0.05, 8)
                   * sc, pl=rnd.uniform(0.05, 8) * sc,
                   pr=rnd.uniform(0.05, 8) * sc, ul=rnd.uniform(-3, 3),
                   ur=rnd.uniform(-3, 3), gamma=rnd.uniform(1.05, 3))


def replay_rel(fn, tname):
    def rp(model, ob):
        from pyvc.calc import model_float
        for a in _pts(model):
            if tname == 'refl':
                b = dict(rhol=a['rhor'], rhor=a['rhol'], pl=a['pr'],
                         pr=a['pl'], ul=-a['ur'], ur=-a['ul'],
                         gamma=a['gamma'])
                exp = lambda r: (r[0], r[1], -r[2])
            elif tname == 'gal':
                d = model_float(model, 'delta', 0.7) or 0.7
                b = dict(a, ul=a['ul'] + d, ur=a['ur'] + d)
                exp = lambda r: (r[0], r[1], r[2] + d)
            else:
                k = (model_float(model, 'kappa', 3.0) or 3.0) ** 2
                if abs(k - 1) < 1e-6:
                    k = 9.0
                b = None
                # also powers of two far from 1 (exact in floating point)
                for k in (k, 2.0 ** -20, 2.0 ** -34, 2.0 ** 20):
                    b = dict(a, rhol=a['rhol'] * k, rhor=a['rhor'] * k,
                             pl=a['pl'] * k, pr=a['pr'] * k)
                    r1, r2 = _call(fn, a, 20, 1e-6), _call(fn, b, 20, 1e-6)
                    if r1 is None or r2 is None or r1[0] != 0:
                        continue
                    if min(r1[1], r2[1]) <= 1e-24:
                        continue        # known absolute floor
                    e = (r1[0], r1[1] * k, r1[2])
                    if e[0] != r2[0] or any(
                            abs(x - y) > 1e-5 * (abs(x) + abs(y)) + 1e-300
                            for x, y in zip(e[1:], r2[1:])):
                        return dict(reproduced=True, target=fn,
                                    transform=tname, inputs=a, k=k,
                                    transformed=b, run1=r1, run2=r2,
                                    expected_run2=e)
                continue
            r1, r2 = _call(fn, a), _call(fn, b)
            if r1 is None or r2 is None:
                continue
            e = exp(r1)
            if not all(abs(x) < 1e300 for x in r1[1:] + r2[1:]):
                continue
            bad = (e[0] != r2[0]) or any(
                abs(x - y) > 1e-6 * (abs(x) + abs(y)) + 1e-9
                for x, y in zip(e[1:], r2[1:]))
            if bad and (r1[0] == 0 or tname == 'refl'):
                return dict(reproduced=True, target=fn, transform=tname,
                            inputs=a, transformed=b, run1=r1, run2=r2,
                            expected_run2=e)
        return dict(reproduced=False)
    return rp


def replay_eq(fn):
    def rp(model, ob):
        from pyvc.calc import model_float
        ni = model.get('niter', 20)
        for a in _pts(model, 100):
            a = dict(a, rhor=a['rhol'], pr=a['pl'], ur=a['ul'])
            for niter in sorted(set([int(ni) if isinstance(ni, int) else 20,
                                     1, 2, 20])):
                r = _call(fn, a, niter=niter, tol=1e-6)
                if r is None:
                    continue
                if r[0] != 0 or abs(r[1] - a['pl']) > 1e-9 * a['pl'] or \
                        abs(r[2] - a['ul']) > 1e-9 * (1 + abs(a['ul'])):
                    return dict(reproduced=True, target=fn,
                                inputs=dict(a, niter=niter), observed=r,
                                expected=(0, a['pl'], a['ul']))
        return dict(reproduced=False)
    return rp


# --------------------------------------------------------------------- tasks
def task_stubs(ctx, repo, m):
    """The solvers run as plain Python too (that is how they are tested and
    how this check replays them).  `printf` is a Python stand-in for the C
    function of the transpiled build: every call made to it in this module
    is one its signature accepts -- a solver that reports "did not converge"
    returns its failure code, it does not raise TypeError."""
    import ast as _ast
    stub = m.functions.get('printf')
    calls = []
    for fn in m.functions.values():
        for node in _ast.walk(fn):
            if isinstance(node, _ast.Call) and isinstance(
                    node.func, _ast.Name) and node.func.id == 'printf':
                calls.append((fn.name, len(node.args), getattr(node, 'lineno',
                                                               0)))
    ok = stub is not None and bool(calls)
    why = []
    if stub is not None:
        a = stub.args
        lo = len(a.args) - len(a.defaults)
        hi = None if a.vararg else len(a.args)
        for (f, n, ln) in calls:
            if n < lo or (hi is not None and n > hi):
                ok = False
                why.append('%s line %d calls printf with %d argument(s)' % (
                    f, ln, n))
        ctx.function(m, stub, 'printf (Python stand-in)')

    def rp(model, ob):
        mod = native.load(MOD)
        r = [0.0, 0.0]
        try:
            code = mod.exact(1.0, 0.125, 1.0, 0.1, 0.0, 0.0, 1.4, 2, 1e-10,
                             r)
            return dict(reproduced=code != 1, returned=code)
        except TypeError as e:
            return dict(reproduced=True, case='Sod shock tube, niter=2, '
                        'tol=1e-10 (cannot converge in 2 iterations)',
                        raised='TypeError: %s' % e, expected_return=1)
    ctx.prove('stubs.printf_accepts_the_calls_made_to_it', [Obligation(
        'stubs.printf_arity', [], z3.BoolVal(bool(ok)), m.path,
        extra=dict(calls=calls, problems=why))], replay=rp)


def run_task(task, ctx):
    repo = Repo()
    m = repo.module(MOD)
    parts = task.split(':')
    kind = parts[0]
    if kind == 'stubs':
        return task_stubs(ctx, repo, m)
    if kind in ('refl', 'gal', 'scale'):
        fn = parts[1]
        nofloor = (kind == 'scale' and fn == 'van_leer')
        obs, pre = relational(ctx, repo, m, fn, kind, nofloor=nofloor)
        name = '%s.%s' % (fn, kind) + ('.floor_inactive' if nofloor else '')
        ctx.cover('%s.pre' % name, pre)
        ctx.prove(name, obs or [Obligation('none', [], z3.BoolVal(False))],
                  replay=replay_rel(fn, kind), sample=True)
        if nofloor:
            obs2, pre2 = relational(ctx, repo, m, fn, kind, nofloor=False)
            ctx.prove('%s.%s.floor_active' % (fn, kind), obs2,
                      replay=replay_floor,
                      info='absolute floor smallp=1e-25 on p*')
        return
    if kind == 'ducowicz_bounded':
        return task_ducowicz_bounded(ctx, repo, m)
    if kind == 'eq':
        return task_eq(ctx, repo, m, parts[1])
    if kind == 'tie':
        return task_tie(ctx, repo, m)
    if kind == 'prefun':
        return task_prefun(ctx, repo, m)
    if kind == 'dispatch':
        return task_dispatch(ctx, repo, m)
    if kind == 'pos':
        return task_pos(ctx, repo, m, parts[1])
    if kind == 'vac':
        return task_vac(ctx, repo, m)
    if kind == 'canary':
        v = V()
        ctx.canary('canary.must_fail', Obligation(
            'canary', [v['pl'] > 0], v['pl'] > 1))
        ctx.results.append(dict(name='canary.pipeline', verdict='proved',
                                queries=0, backends={}, seconds=0,
                                failing=[], replay=None, info=''))
        return
    raise ValueError(task)


TIE = dict(rhol=Fraction(1), rhor=Fraction(3, 2), pl=Fraction(9, 2),
           pr=Fraction(27), ul=Fraction(0), ur=Fraction(4), gamma=Fraction(2))


def task_tie(ctx, repo, m):
    """ducowicz at a state with umax == umin exactly (SIGN(dd, 0) is not
    odd): reflection symmetry evaluated exactly (rational arithmetic, the
    square roots are perfect squares) on the real text."""
    a1 = dict(TIE, niter=20, tol=Fraction(1, 10**6))
    a2 = dict(rhol=TIE['rhor'], rhor=TIE['rhol'], pl=TIE['pr'], pr=TIE['pl'],
              ul=-TIE['ur'], ur=-TIE['ul'], gamma=TIE['gamma'], niter=20,
              tol=Fraction(1, 10**6))
    ex1, A = run_solver(repo, m, 'ducowicz', a1, [])
    ex2, Bo = run_solver(repo, m, 'ducowicz', a2, [])
    ctx.function(m, m.functions['ducowicz'], 'ducowicz', ex1.dropped)
    obs = []
    info = []
    for i, a in enumerate(A):
        for j, b in enumerate(Bo):
            ra, rb = a.state.env['result'], b.state.env['result']
            g = S.b_and(S.cmp('==', a.value, b.value),
                        S.cmp('==', ra[0], rb[0]),
                        S.cmp('==', ra[1], S.neg(rb[1])))
            obs.append(Obligation(
                'tie.%d.%d' % (i, j), a.pc + b.pc,
                S.to_z3(g) if S.is_sym(g) else z3.BoolVal(bool(g)), m.path,
                extra=dict(backends=['z3'])))
            if not S.is_sym(ra[0]):
                info.append('run1=%s' % [str(x) for x in ra])
            if not S.is_sym(rb[0]):
                info.append('run2=%s' % [str(x) for x in rb])

    def rp(model, ob):
        a = {k: float(v_) for k, v_ in TIE.items()}
        b = dict(rhol=a['rhor'], rhor=a['rhol'], pl=a['pr'], pr=a['pl'],
                 ul=-a['ur'], ur=-a['ul'], gamma=a['gamma'])
        r1, r2 = _call('ducowicz', a), _call('ducowicz', b)
        bad = r1[0] != r2[0] or abs(r1[1] - r2[1]) > 1e-9 or \
            abs(r1[2] + r2[2]) > 1e-9
        return dict(reproduced=bool(bad), inputs=a, transformed=b, run1=r1,
                    run2=r2, expected_run2=(r1[0], r1[1], -r1[2]))
    ctx.prove('ducowicz.refl.tie_witness', obs, replay=rp,
              info='; '.join(sorted(set(info))))


def replay_floor(model, ob):
    a = dict(rhol=6.35, rhor=.2057, pl=.2121, pr=.4013, ul=-1.188, ur=1.362,
             gamma=2.074)
    k = 994.0
    b = dict(a, rhol=a['rhol'] * k, rhor=a['rhor'] * k, pl=a['pl'] * k,
             pr=a['pr'] * k)
    r1, r2 = _call('van_leer', a, 20, 1e-6), _call('van_leer', b, 20, 1e-6)
    bad = r1 is not None and r2 is not None and r1[0] == 0 and (
        r2[0] != 0 or abs(r2[1] - k * r1[1]) > 1e-6 * abs(r2[1]))
    return dict(reproduced=bool(bad), inputs=a, k=k, run1=r1, run2=r2)


def task_eq(ctx, repo, m, fn):
    v = V()
    niter, tol = z3.Int('niter'), z3.Real('tol')
    pre = admissible(v, niter, tol)
    a = dict(v, rhor=v['rhol'], pr=v['pl'], ur=v['ul'], niter=niter, tol=tol)
    spec = None
    if fn == 'van_leer':
        # equal states: the first iteration already converges; invariant
        # "no iteration completed without converging"
        spec = LoopSpec(inv=[('first', 'iteration == 0'),
                             ('p0', 'pstar == pl')])
    if fn == 'exact':
        spec = LoopSpec(inv=[('first', 'i == 0'), ('p0', 'pold == pl')])
    ex, outs = run_solver(repo, m, fn, a, pre, loop_spec=spec)
    ctx.function(m, m.functions[fn], fn, ex.dropped)
    obs = [o for o in ex.obligations if o.kind in ('inv-entry', 'inv-step')]
    for i, o in enumerate(outs):
        r = o.state.env['result']
        g = z3.And(S.to_z3(S.cmp('==', o.value, 0)),
                   S.to_z3(S.cmp('==', r[0], v['pl'])),
                   S.to_z3(S.cmp('==', r[1], v['ul'])))
        if o.kind != 'return':
            g = z3.BoolVal(False)
        obs.append(Obligation('eq.%d' % i, o.pc, g, m.path))
    if fn == 'exact':
        # niter == 1: convergence on the last allowed iteration is reported
        # as failure -- own obligation (see known_findings.json)
        main = [Obligation(o.name, o.hyps + [niter >= 2], o.goal, o.where)
                for o in obs]
        last = [Obligation(o.name, o.hyps + [niter == 1], o.goal, o.where)
                for o in obs]
        ctx.prove('exact.eq', main, replay=replay_eq(fn))
        ctx.prove('exact.eq.niter1', last, replay=replay_eq(fn),
                  info='converging on the last allowed iteration')
        return
    if fn == 'van_leer':
        main = [Obligation(o.name, o.hyps + [v['pl'] >= S.to_z3(SMALLP)],
                           o.goal, o.where) for o in obs]
        low = [Obligation(o.name, o.hyps + [v['pl'] < S.to_z3(SMALLP)],
                          o.goal, o.where) for o in obs]
        ctx.prove('van_leer.eq', main, replay=replay_eq(fn))

        def rp_low(model, ob):
            a_ = dict(rhol=1.0, rhor=1.0, pl=1e-26, pr=1e-26, ul=0.5, ur=0.5,
                      gamma=1.4)
            r = _call('van_leer', a_, 20, 1e-6)
            return dict(reproduced=r is not None and (
                r[0] != 0 or abs(r[1] - 1e-26) > 1e-30), inputs=a_,
                observed=r, expected=(0, 1e-26, 0.5))
        ctx.prove('van_leer.eq.floor_active', low, replay=rp_low,
                  info='absolute floor smallp=1e-25 on p*')
        return
    ctx.prove('%s.eq' % fn, obs, replay=replay_eq(fn))


def task_dispatch(ctx, repo, m):
    """riemann_solve(method=k, ...) calls solver k with the arguments in
    order and returns its code: symmetry etc. of the dispatch follow from the
    solvers' contracts."""
    fn = m.functions['riemann_solve']
    ok = True
    why = []
    for k, name in METHOD_ID.items():
        calls = []

        def mk(nm):
            def h(ex, st, args, kwargs, node):
                calls.append((nm, args))
                return z3.Int('code_' + nm)
            return h
        ex = Executor(repo, m, externals={s: mk(s) for s in SOLVERS})
        v = V()
        args = dict(v, method=k, niter=z3.Int('niter'), tol=z3.Real('tol'),
                    result=[z3.Real('r0'), z3.Real('r1')])
        outs = ex.exec_function(fn, args)
        want = [args[n] for n in ('rhol', 'rhor', 'pl', 'pr', 'ul', 'ur',
                                  'gamma', 'niter', 'tol', 'result')]
        good = (len(outs) == 1 and len(calls) == 1 and calls[0][0] == name
                and len(calls[0][1]) == 10 and all(
                    (x is y) or (S.is_sym(x) and S.is_sym(y) and x.eq(y))
                    for x, y in zip(calls[0][1], want)) and
                S.is_sym(outs[0].value) and
                outs[0].value.eq(z3.Int('code_' + name)))
        if not good:
            ok = False
            why.append('method %d does not delegate to %s unchanged' % (k,
                                                                       name))
    ctx.function(m, fn, 'riemann_solve')

    def rp(model, ob):
        mod = native.load(MOD)
        a = (1.0, 0.125, 1.0, 0.1, 0.3, -0.2, 1.4, 30, 1e-8)
        for k, name in METHOD_ID.items():
            r1, r2 = [0.0, 0.0], [0.0, 0.0]
            c1 = mod.riemann_solve(k, *a, r1)
            c2 = getattr(mod, name)(*a, r2)
            if c1 != c2 or r1 != r2:
                return dict(reproduced=True, method=k, solver=name,
                            dispatch=(c1, r1), direct=(c2, r2))
        return dict(reproduced=False)
    ctx.prove('riemann_solve.dispatch', [Obligation(
        'dispatch', [], z3.BoolVal(ok), m.path)], replay=rp,
        info='; '.join(why))


def task_pos(ctx, repo, m, fn):
    v = V()
    niter, tol = z3.Int('niter'), z3.Real('tol')
    pre = admissible(v, niter, tol)
    a = dict(v, niter=niter, tol=tol)
    if fn == 'van_leer':
        # success is only reported through `break`: at the loop head either
        # nothing has run yet or the last pass did not converge
        spec = LoopSpec(inv=[('notconv', 'iteration == 0 or not converged'),
                             ('iter', 'iteration >= 0')])
    else:
        spec = LoopSpec()
    ex, outs = run_solver(repo, m, fn, a, pre, loop_spec=spec)
    ctx.function(m, m.functions[fn], fn, ex.dropped)
    obs = [o for o in ex.obligations if o.kind in ('inv-entry', 'inv-step')]
    for i, o in enumerate(outs):
        if o.kind != 'return':
            obs.append(Obligation('raise.%d' % i, o.pc, z3.BoolVal(False)))
            continue
        r = o.state.env['result']
        if not S.is_sym(o.value) and o.value != 0:
            continue                      # reports failure
        ok0 = S.to_z3(S.cmp('==', o.value, 0))
        hy = o.pc + [ok0]
        env = o.state.env
        need = ('pstar', 'pstar_old') if fn == 'van_leer' else \
            ('p', 'pold', 'change', 'fl', 'fr')
        if any(not (S.is_num(env.get(k)) or isinstance(env.get(k), list))
               for k in need):
            obs.append(Obligation('success.%d.unbound' % i, hy,
                                  z3.BoolVal(False), m.path))
            continue
        if fn == 'van_leer':
            g = z3.And(S.to_real(r[0]) >= S.to_z3(SMALLP),
                       S.to_z3(S.cmp('<', S.div(S.absval(S.sub(
                           env['pstar'], env['pstar_old'])), env['pstar']),
                           tol)),
                       S.to_z3(S.cmp('==', r[0], env['pstar'])))
        else:
            p, pold = env['p'], env['pold']
            g = z3.And(S.to_real(r[0]) > 0,
                       S.to_z3(S.cmp('==', r[0], p)),
                       S.to_z3(S.cmp('<=', env['change'], tol)),
                       # "satisfies its pressure function to the requested
                       # tolerance": p is the Newton iterate of pold for
                       # f = fl + fr + (ur - ul) (fl, fr evaluated at pold)
                       # and moved by at most tol relative to it
                       S.to_z3(S.cmp('==', S.mul(S.sub(pold, p), S.add(
                           env['fl'][1], env['fr'][1])), S.add(S.add(
                               env['fl'][0], env['fr'][0]),
                               S.sub(v['ur'], v['ul'])))),
                       S.to_z3(S.cmp('==', env['change'], S.mul(2, S.absval(
                           S.div(S.sub(p, pold), S.add(p, pold)))))),
                       S.to_z3(S.cmp('==', r[1], S.mul(Fraction(1, 2), S.add(
                           S.add(v['ul'], v['ur']),
                           S.sub(env['fr'][0], env['fl'][0]))))))
        obs.append(Obligation('success.%d' % i, hy, g, m.path))

    def rp(model, ob):
        for a_ in _pts(model, 600):
            for (ni, tl) in ((20, 1e-6), (3, 0.3), (50, 1e-10)):
                r = _call(fn, a_, ni, tl)
                if r is None or r[0] != 0:
                    continue
                if not (r[1] > 0) or r[1] != r[1] or abs(r[1]) == \
                        float('inf'):
                    return dict(reproduced=True, target=fn,
                                inputs=dict(a_, niter=ni, tol=tl),
                                observed=r, expected='p* > 0 on success')
        if fn == 'exact':
            # the returned pressure is a converged Newton iterate: one more
            # Newton step of the module's own pressure function moves it by
            # (much) less than the tolerance
            import math
            mod = native.load(MOD)
            probes = [dict(rhol=1e-3, rhor=10.0, pl=1e-4, pr=1e-3, ul=0.0,
                           ur=-0.05, gamma=2.0, tol=1e-3),
                      dict(rhol=10.0, rhor=1e-3, pl=1e-3, pr=1e-4, ul=0.05,
                           ur=0.0, gamma=2.0, tol=1e-3),
                      dict(rhol=1.0, rhor=0.125, pl=1.0, pr=0.1, ul=0.0,
                           ur=0.0, gamma=1.4, tol=1e-6)]
            for q in probes:
                res = [0.0, 0.0]
                g = q['gamma']
                code = mod.exact(q['rhol'], q['rhor'], q['pl'], q['pr'],
                                 q['ul'], q['ur'], g, 40, q['tol'], res)
                if code != 0:
                    continue
                ps = res[0]
                cl = math.sqrt(g * q['pl'] / q['rhol'])
                cr = math.sqrt(g * q['pr'] / q['rhor'])
                g1, g2 = (g - 1) / (2 * g), (g + 1) / (2 * g)
                g4, g5, g6 = 2 / (g - 1), 2 / (g + 1), (g - 1) / (g + 1)
                fl, fr = [0.0, 0.0], [0.0, 0.0]
                mod.prefun_exact(ps, q['rhol'], q['pl'], cl, g1, g2, g4, g5,
                                 g6, fl)
                mod.prefun_exact(ps, q['rhor'], q['pr'], cr, g1, g2, g4, g5,
                                 g6, fr)
                step = (fl[0] + fr[0] + q['ur'] - q['ul']) / (fl[1] + fr[1])
                if abs(step) > 50 * q['tol'] * abs(ps):
                    return dict(reproduced=True, target=fn, inputs=q,
                                observed=dict(pstar=ps,
                                              next_newton_step=step),
                                expected='|next Newton step| <= tol * p* '
                                'on success')
        return dict(reproduced=False)
    ctx.prove('%s.success' % fn, obs, replay=rp)


def task_prefun(ctx, repo, m):
    """prefun_exact(p, rho_k, p_k, c_k, ...) with the constants `exact`
    passes (g1 = (g-1)/2g, g2 = (g+1)/2g, g4 = 2/(g-1), g5 = 2/(g+1),
    g6 = (g-1)/(g+1), c_k = sqrt(g p_k / rho_k)):  result[0] is the pressure
    function of the property's reference (rarefaction branch for p <= p_k,
    shock branch above), it vanishes at p = p_k on both branches, and
    result[1] is its derivative with respect to p -- `exact` stops on the
    size of the Newton step, which bounds the residual only when the slope
    is the true one."""
    from pyvc import calc
    fn = m.functions['prefun_exact']
    p, dk, pk, gam = [z3.Real(x) for x in ('p', 'rho_k', 'p_k', 'gamma')]
    ck = S.UF['sqrt'](gam * pk / dk)
    g1, g2 = (gam - 1) / (2 * gam), (gam + 1) / (2 * gam)
    g4, g5, g6 = 2 / (gam - 1), 2 / (gam + 1), (gam - 1) / (gam + 1)
    res = [z3.Real('r0'), z3.Real('r1')]
    ex = Executor(repo, m, qualname='prefun_exact', definedness='assume',
                  merge=False, prune=False)
    pre = [p > 0, dk > 0, pk > 0, gam > 1]
    outs = ex.exec_function(fn, dict(p=p, dk=dk, pk=pk, ck=ck, g1=g1, g2=g2,
                                     g4=g4, g5=g5, g6=g6, result=res),
                            State(pc=list(pre)))
    ctx.function(m, fn, 'prefun_exact', ex.dropped)
    obs = []
    if len(outs) != 2:
        obs.append(Obligation('prefun.two_branches', [], z3.BoolVal(False),
                              m.path))
    powf = None
    for i, o in enumerate(outs):
        f, fd = o.state.env['result']
        f, fd = S.to_real(f), S.to_real(fd)
        try:
            df = calc.ddx(f, p)
        except VCError as e:
            obs.append(Obligation('prefun.%d.differentiable' % i, o.pc,
                                  z3.BoolVal(False), m.path,
                                  extra=dict(why=str(e))))
            continue
        obs.append(Obligation('prefun.%d.slope_is_derivative' % i, o.pc,
                              fd == df, m.path))
        # value at p = p_k
        obs.append(Obligation('prefun.%d.zero_at_pk' % i, list(pre),
                              calc.subst(f, [(p, pk)]) == 0, m.path))
        # the reference formulas
        sol = z3.Solver()
        sol.set('timeout', 10000)
        sol.add(*[S.to_z3(c) for c in o.pc])
        sol.add(p > pk)
        rs_ = sol.check()
        if rs_ == z3.unknown:
            raise VCError('prefun: branch of a path undecided')
        shock = rs_ == z3.sat
        if shock:
            want = (p - pk) * S.UF['sqrt']((2 / ((gam + 1) * dk)) /
                                           (p + (gam - 1) / (gam + 1) * pk))
            obs.append(Obligation('prefun.%d.shock_branch' % i, o.pc,
                                  f == want, m.path))
        else:
            # 2 c/(g-1) ((p/p_k)^((g-1)/2g) - 1), with the code's own power
            pows = [t for t in _subterms(f) if t.decl().name() == 'pow']
            ok = len(pows) == 1
            if ok:
                pw = pows[0]
                want = 2 * ck / (gam - 1) * (pw - 1)
                obs.append(Obligation(
                    'prefun.%d.rarefaction_branch' % i, o.pc, z3.And(
                        f == want, pw.arg(0) == p / pk,
                        pw.arg(1) == (gam - 1) / (2 * gam)), m.path))
            else:
                obs.append(Obligation('prefun.%d.rarefaction_branch' % i,
                                      o.pc, z3.BoolVal(False), m.path))

    def rp(model, ob):
        import math
        mod = native.load(MOD)
        for (pp, rho, pk_, g) in ((0.3, 100.0, 1.0, 1.4), (0.05, 400.0, 0.2,
                                                            1.4),
                                   (2.0, 5.0, 1.0, 1.4), (0.5, 0.125, 1.0,
                                                          5.0 / 3)):
            c = math.sqrt(g * pk_ / rho)
            a = ((g - 1) / (2 * g), (g + 1) / (2 * g), 2 / (g - 1),
                 2 / (g + 1), (g - 1) / (g + 1))
            r0, r1, r2 = [0.0, 0.0], [0.0, 0.0], [0.0, 0.0]
            hh = 1e-6 * pp
            mod.prefun_exact(pp, rho, pk_, c, *a, r0)
            mod.prefun_exact(pp + hh, rho, pk_, c, *a, r1)
            mod.prefun_exact(pp - hh, rho, pk_, c, *a, r2)
            num = (r1[0] - r2[0]) / (2 * hh)
            if abs(num - r0[1]) > 1e-5 * max(abs(num), abs(r0[1])):
                return dict(reproduced=True, target='prefun_exact',
                            inputs=dict(p=pp, rho_k=rho, p_k=pk_, gamma=g),
                            observed=dict(fd=r0[1]),
                            expected=dict(central_difference_of_f=num))
        return dict(reproduced=False)
    ctx.prove('prefun_exact.slope_is_the_derivative', obs, replay=rp)


def _subterms(t, seen=None):
    seen = set() if seen is None else seen
    if t.get_id() in seen:
        return
    seen.add(t.get_id())
    yield t
    for c in t.children():
        for x in _subterms(c, seen):
            yield x


def task_vac(ctx, repo, m):
    v = V()
    niter, tol = z3.Int('niter'), z3.Real('tol')
    pre = admissible(v, niter, tol)
    cl = S.UF['sqrt'](v['gamma'] * v['pl'] / v['rhol'])
    cr = S.UF['sqrt'](v['gamma'] * v['pr'] / v['rhor'])
    spec = LoopSpec()
    ex, outs = run_solver(repo, m, 'exact', dict(v, niter=niter, tol=tol),
                          pre, loop_spec=spec)
    ctx.function(m, m.functions['exact'], 'exact', ex.dropped)
    obs = []
    for i, o in enumerate(outs):
        env = o.state.env
        # the code's sound speeds and 2/(gamma-1) are the documented ones
        obs.append(Obligation('vac.%d.cl' % i, o.pc, S.to_z3(S.cmp(
            '==', env['cl'], cl)), m.path))
        obs.append(Obligation('vac.%d.cr' % i, o.pc, S.to_z3(S.cmp(
            '==', env['cr'], cr)), m.path))
        obs.append(Obligation('vac.%d.g4' % i, o.pc, S.to_z3(S.cmp(
            '==', env['gamma4'], 2 / (v['gamma'] - 1))), m.path))
        vac = S.to_z3(S.cmp('<=', S.mul(env['gamma4'], S.add(
            env['cl'], env['cr'])), v['ur'] - v['ul']))
        obs.append(Obligation('vac.%d' % i, o.pc + [vac], S.to_z3(S.cmp(
            '==', o.value, 1)) if o.kind == 'return' else z3.BoolVal(False),
            m.path))

    def rp(model, ob):
        for a_ in _pts(model, 300):
            import math
            cl_ = math.sqrt(a_['gamma'] * a_['pl'] / a_['rhol'])
            cr_ = math.sqrt(a_['gamma'] * a_['pr'] / a_['rhor'])
            a_ = dict(a_, ul=-1.0, ur=-1.0 + 2 / (a_['gamma'] - 1) *
                      (cl_ + cr_) * 1.001)
            r = _call('exact', a_)
            if r is not None and r[0] != 1:
                return dict(reproduced=True, inputs=a_, observed=r,
                            expected='return code 1 (vacuum)')
        return dict(reproduced=False)
    ctx.prove('exact.vacuum', obs, replay=rp)


# ---------------------------------------------- bounded: ducowicz reflection
def task_ducowicz_bounded(ctx, repo, m):
    """BOUNDED stand-in (never counted as proved).  Reflection symmetry of
    every solver on a grid of states -- the deciding check for the clauses
    that are not verified deductively (`ducowicz` away from ties, `hllc` at
    contact speed 0) and a safety net under the relational proofs of the
    others.  Grid: densities and pressures in {0.01, 0.1, 1, 10}, velocities
    in {-2, -1, -0.3, 0, 0.3, 1, 2}, gamma in {1.4, 5/3, 2.5} (ducowicz: all
    37632 states; the other solvers: gamma = 1.4 only, 12544 states); p*
    equal and u* negated up to 1e-9 of the state's own scales; iterative
    solvers are compared when both runs report success."""
    import itertools
    mod = native.load(MOD)
    R = [0.01, 0.1, 1.0, 10.0]
    U = [-2.0, -1.0, -0.3, 0.0, 0.3, 1.0, 2.0]
    for name in SOLVERS:
        f = getattr(mod, name)
        gammas = (1.4, 5.0 / 3, 2.5) if name == 'ducowicz' else (1.4,)
        bad, n = None, 0
        for g in gammas:
            for rl, rr, pl, pr in itertools.product(R, R, R, R):
                for ul, ur in itertools.product(U, U):
                    a, b = [0.0, 0.0], [0.0, 0.0]
                    try:
                        c1 = f(rl, rr, pl, pr, ul, ur, g, 40, 1e-10, a)
                        c2 = f(rr, rl, pr, pl, -ur, -ul, g, 40, 1e-10, b)
                    except (TypeError, ValueError, ZeroDivisionError,
                            OverflowError):
                        continue        # undefined arithmetic: not claimed
                    n += 1
                    if c1 != c2:
                        if bad is None and name not in ITERATIVE:
                            bad = dict(rhol=rl, rhor=rr, pl=pl, pr=pr, ul=ul,
                                       ur=ur, gamma=g, codes=[c1, c2])
                        continue
                    if c1 != 0:
                        continue
                    if a[0] != a[0] or b[0] != b[0]:
                        continue        # nan: 'when the result is finite'
                    sc = max(abs(a[0]), abs(b[0]), pl, pr)
                    su = 1 + abs(ul) + abs(ur) + (g * pl / rl) ** 0.5 + \
                        (g * pr / rr) ** 0.5
                    tol = 1e-6 if name in ITERATIVE else 1e-9
                    if bad is None and (abs(a[0] - b[0]) > tol * sc or
                                        abs(a[1] + b[1]) > tol * su):
                        bad = dict(rhol=rl, rhor=rr, pl=pl, pr=pr, ul=ul,
                                   ur=ur, gamma=g, result=a, mirrored=b)
        ctx.bounded_check('%s.reflection_grid' % name,
                          '%d grid states (see docstring of the task), ties '
                          'excluded by the tolerance' % n, n, bad is None,
                          bad or 'ok')
    ctx.function(m, m.functions['ducowicz'], 'ducowicz (bounded reflection)')
    ctx.prove('reflection_grid.bounded_check_ran', [Obligation(
        'ran', [], z3.BoolVal(True), m.path)],
        info='bounded, not proved: see coverage.bounded')
