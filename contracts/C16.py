"""C16 -- inlets and outlets move each particle across exactly once.

Functions under contract (pysph/sph/bc/inlet_outlet_manager.py): IOEvaluate
.initialize/.loop, InletBase.update, InletBase._create_io_eval,
OutletBase.update, OutletBase._create_io_eval; bc/hybrid/inlet.py Inlet.update;
bc/mirror/outlet.py Outlet._get_ghost_xyz, Outlet.update.  (The other
families inherit the base methods: resolved through the MRO on every run.)

zones     IOEvaluate.loop: with d = (x - x0).n:  ioid = 1 <=> d > 1e-6 and
          d - L < 1e-6;  2 <=> d - L > 1e-6;  0 <=> d <= 1e-6   [.tie: the
          single point d - L = 1e-6, classified 0: own obligation]
wiring    the evaluator classifies the inlet/outlet ARRAY with maxdist = zone
          length and the FLUID array with the default (unbounded) maxdist, on
          all particles (real=False), with the zone's point and normal
inlet     update (active stage): evaluate; I = {ioid_inlet == 0};
          extract_particles(I -> fluid) (copies, all properties); then exactly
          x[I] += L*xn, y[I] += L*yn, z[I] += L*zn on the inlet and
          -= on the ghost array, same I; nothing else; inactive stage: nothing
recycle   |n| = 1: a particle with 1e-6 - L < d <= 1e-6 is, after the shift
          by L n, classified 1 (inside) -> not transferred again: "once"
outlet    update: evaluate; O = {ioid_fluid == 1}: extract_particles(O ->
          outlet, props) THEN remove_particles(O) on the fluid with the same
          O; then remove {ioid_outlet == 2} from the outlet; counts follow
          from the ParticleArray contracts (C06): |fluid'| = |fluid| - |O|
mirror    _get_ghost_xyz is the reflection about the outlet plane
          (|n| = 1: displacement negated, tangential part kept); ghost copies
          get u negated; ghost rows removed with the outlet's indices
"""
import ast
import z3
from fractions import Fraction

from pyvc import sym as S
from pyvc import native
from pyvc.repo import Repo
from pyvc.symexec import Executor, State, Obligation, Native
from pyvc.sym import SymObject, VCError

MOD = 'pysph.sph.bc.inlet_outlet_manager'
EPS6 = Fraction(1, 10**6)
ASSUMPTIONS = [
    'io_eval.evaluate() sets ioid per the IOEvaluate contract for every '
    'particle of both arrays (SPHEvaluator / compiled evaluation: C02-C04)',
    'ParticleArray.extract_particles / remove_particles / add_particles obey '
    'the C06 contracts; a[I] += c on a property acts in place on the '
    'particles I (numpy fancy indexing on the real-particle view: the inlet '
    'array holds no ghosts)',
    'a fluid particle that crosses the outlet plane and comes back is outside '
    'what the code attempts (remark, not claimed)',
]
TRUSTED = []


def tasks(tier):
    # the hand-over uses ParticleArray.extract_particles / remove_particles /
    # align_particles: their contracts (C06) are re-proved here
    return ['zones', 'wiring', 'inlet', 'outlet', 'mirror', 'length',
            'steppers', 'setup', 'canary', 'history',
            'dep:C06:extract', 'dep:C06:remove', 'dep:C06:align',
            'dep:C06:add']


def task_history(ctx):
    """BOUNDED stand-in, never counted as proved: random histories of update
    calls on the real Inlet/Outlet classes of every family, compared with the
    property's own bookkeeping (contracts/c16_history_walk.py).  The
    contracts below are per call; "exactly once over any run" is a statement
    about histories, and the composition of extract / recycle / remove over
    many updates is only exercised here."""
    import os
    from concurrent.futures import ThreadPoolExecutor
    from pyvc.repo import REPO_ROOT
    thorough = ctx.tier == 'thorough'
    nproc = 8 if thorough else 4
    per = 4 if thorough else 1
    updates = 12 if thorough else 8
    src = open(os.path.join(os.path.dirname(os.path.abspath(__file__)),
                            'c16_history_walk.py')).read()

    def one(k):
        return native.run_venv(src, dict(
            root=REPO_ROOT, seeds=list(range(k * per, (k + 1) * per)),
            updates=updates), timeout=3000, cwd='/tmp')
    # one warm-up trial first so that the evaluator extension is compiled
    # once, not by every worker at the same time
    native.run_venv(src, dict(root=REPO_ROOT, seeds=[], updates=1),
                    timeout=1800, cwd='/tmp')
    with ThreadPoolExecutor(nproc) as ex:
        res = list(ex.map(one, range(nproc)))
    bound = ('%d seeds x (base classes + 5 families) x inlet/outlet, with '
             'and without ghost arrays, random unit normals in 3-D, zone '
             'lengths 0.2..0.8, 1-9 particles per array, %d updates each '
             'with per-particle random displacements along the normal in '
             '[-0.14 L, 0.42 L] (several crossing at once, coming back); '
             'after every update all three arrays compared record by record '
             'with the bookkeeping computed from the positions before it' % (
                 nproc * per, updates))
    bad = [r['bad'] for r in res if r['bad']]
    if bad:
        b = bad[0]
        ctx.bounded_check('history.%s.%s' % (b.get('family'), b.get('kind')),
                          bound, 1, False, b)
    else:
        ctx.bounded_check('history.updates', bound,
                          sum(r['cases'] for r in res), True,
                          'update calls that agree with the bookkeeping')


def run_task(task, ctx):
    if task.startswith('dep:'):
        from contracts import deps
        return deps.run_dep(task, ctx)
    if task == 'history':
        return task_history(ctx)
    repo = Repo()
    m = repo.module(MOD)
    if task == 'length':
        return task_length(ctx, repo, m)
    if task == 'zones':
        return task_zones(ctx, repo, m)
    if task == 'wiring':
        return task_wiring(ctx, repo, m)
    if task == 'inlet':
        return task_inlet(ctx, repo, m)
    if task == 'outlet':
        return task_outlet(ctx, repo, m)
    if task == 'mirror':
        return task_mirror(ctx, repo)
    if task == 'steppers':
        return task_steppers(ctx, repo)
    if task == 'setup':
        return task_setup(ctx, repo, m)
    if task == 'canary':
        d = z3.Real('cd')
        ctx.canary('canary.must_fail', Obligation('c', [d > 0], d > 1))
        ctx.results.append(dict(name='canary.pipeline', verdict='proved',
                                queries=0, backends={}, seconds=0,
                                failing=[], replay=None, info=''))
        return
    raise ValueError(task)


def io_self(prefix=''):
    n = [z3.Real(prefix + k) for k in ('xn', 'yn', 'zn')]
    p = [z3.Real(prefix + k) for k in ('x0', 'y0', 'z0')]
    L = z3.Real(prefix + 'maxdist')
    o = SymObject('IOEvaluate', dict(x=p[0], y=p[1], z=p[2], xn=n[0],
                                     yn=n[1], zn=n[2], maxdist=L), 'self')
    o.module = MOD
    return o, p, n, L


def run_loop(repo, m, obj, x, pre):
    fn = m.methods('IOEvaluate')['loop']
    ex = Executor(repo, m, qualname='IOEvaluate.loop', merge=False,
                  prune=True)
    ioid = [z3.Int('ioid_a'), z3.Int('ioid_b')]
    disp = [z3.Real('disp_a'), z3.Real('disp_b')]
    outs = ex.exec_function(fn, dict(
        self=obj, d_idx=1, d_x=[z3.Real('xa'), x[0]], d_y=[z3.Real('ya'),
                                                          x[1]],
        d_z=[z3.Real('za'), x[2]], d_ioid=ioid, d_disp=disp),
        State(pc=list(pre)))
    return fn, ex, outs


def task_zones(ctx, repo, m):
    W = m.path
    obj, p, n, L = io_self()
    x = [z3.Real('px'), z3.Real('py'), z3.Real('pz')]
    d = (x[0] - p[0]) * n[0] + (x[1] - p[1]) * n[1] + (x[2] - p[2]) * n[2]
    e = S.to_z3(EPS6)
    fn, ex, outs = run_loop(repo, m, obj, x, [L > 0])
    ctx.function(m, fn, 'IOEvaluate.loop', ex.dropped)
    main, tie = [], []
    for i, o in enumerate(outs):
        z = o.state.env['d_ioid'][1]
        dd = o.state.env['d_disp'][1]
        zz = S.to_z3(z) if S.is_sym(z) else z3.IntVal(z)
        main.append(Obligation('disp.%d' % i, o.pc, S.to_z3(S.cmp(
            '==', dd, d)), W))
        spec = z3.And(
            (zz == 1) == z3.And(d > e, d - L < e),
            (zz == 2) == (d - L > e),
            (zz == 0) == (d <= e))
        main.append(Obligation('zone.%d' % i, o.pc + [d - L != e], spec, W,
                               extra=dict(backends=['z3'])))
        tie.append(Obligation('zone.tie.%d' % i, o.pc + [d - L == e], spec,
                              W, extra=dict(backends=['z3'])))
        # frame: only the own cell
        fr = S.same(o.state.env['d_ioid'][0], z3.Int('ioid_a')) and \
            S.same(o.state.env['d_disp'][0], z3.Real('disp_a'))
        main.append(Obligation('frame.%d' % i, o.pc, z3.BoolVal(bool(fr)), W))
    fn2 = m.methods('IOEvaluate')['initialize']
    ex2 = Executor(repo, m, qualname='IOEvaluate.initialize')
    io = [z3.Int('i0'), z3.Int('i1')]
    o2 = ex2.exec_function(fn2, dict(self=obj, d_ioid=io, d_idx=1))
    ok = len(o2) == 1 and o2[0].state.env['d_ioid'][1] == 1 and \
        S.same(o2[0].state.env['d_ioid'][0], z3.Int('i0'))
    main.append(Obligation('initialize', [], z3.BoolVal(bool(ok)), W))
    ctx.function(m, fn2, 'IOEvaluate.initialize')

    def rp(kind):
        def rp_(model, ob):
            script = r"""
import json, sys, importlib.util
d = json.load(sys.stdin)
spec = importlib.util.spec_from_file_location('iom_ut', d['root'] + '/pysph/sph/bc/inlet_outlet_manager.py')
mod = importlib.util.module_from_spec(spec); mod.__package__ = 'pysph.sph.bc'; spec.loader.exec_module(mod)
out = []
for (x, L) in d['cases']:
    e = mod.IOEvaluate('a', [], x=0.0, y=0.0, z=0.0, xn=1.0, yn=0.0, zn=0.0, maxdist=L)
    io = [7]; disp = [0.0]
    e.loop(0, [x], [0.0], [0.0], io, disp)
    out.append(io[0])
print(json.dumps(out))
"""
            from pyvc.repo import REPO_ROOT
            L = 1e-6
            cases = [(2e-6, L)] if kind == 'tie' else [
                (-1.0, 1.0), (0.5, 1.0), (1.5, 1.0), (5e-7, 1.0),
                (1.0 + 5e-7, 1.0)]
            want = [1] if kind == 'tie' else [0, 1, 2, 0, 1]
            got = native.run_venv(script, dict(root=REPO_ROOT, cases=cases))
            if kind == 'tie':
                bad = got[0] == 0
            else:
                bad = got != want
            return dict(reproduced=bad, cases=cases, observed=got,
                        expected='1 or 2 (inside/beyond), not 0'
                        if kind == 'tie' else want)
        return rp_
    ctx.prove('ioevaluate.zones', main, replay=rp('main'), sample=True)
    ctx.prove('ioevaluate.zones.tie', tie, replay=rp('tie'),
              info='disp - maxdist == 1e-6 exactly')


def _io_calls(fn):
    out = []
    for node in ast.walk(fn):
        if isinstance(node, ast.Call) and isinstance(node.func, ast.Name) \
                and node.func.id == 'IOEvaluate':
            first = ast.unparse(node.args[0]) if node.args else ''
            kws = {k.arg: ast.unparse(k.value) for k in node.keywords}
            grp = None
            out.append((first, kws, node.lineno))
    return out


def task_wiring(ctx, repo, m):
    W = m.path
    ok, why = True, []
    for cls, arr_name, fluid_name in (('InletBase', 'i_name', 'f_name'),
                                      ('OutletBase', 'o_name', 'f_name')):
        fn = m.methods(cls)['_create_io_eval']
        ctx.function(m, fn, cls + '._create_io_eval')
        calls = _io_calls(fn)
        by = {c[0]: c for c in calls}
        if set(by) != {arr_name, fluid_name}:
            ok = False
            why.append('%s: IOEvaluate destinations %s' % (cls, sorted(by)))
            continue
        for nm in (arr_name, fluid_name):
            kws = by[nm][1]
            for k, v in (('x', 'self.x'), ('y', 'self.y'), ('z', 'self.z'),
                         ('xn', 'self.xn'), ('yn', 'self.yn'),
                         ('zn', 'self.zn')):
                if kws.get(k) != v:
                    ok = False
                    why.append('%s/%s: %s=%s' % (cls, nm, k, kws.get(k)))
        if by[arr_name][1].get('maxdist') != 'self.length':
            ok = False
            why.append('%s: zone array maxdist=%s' % (
                cls, by[arr_name][1].get('maxdist')))
        if 'maxdist' in by[fluid_name][1]:
            ok = False
            why.append('%s: fluid array is classified with maxdist=%s (a '
                       'particle beyond the zone would get ioid 2 and never '
                       'be handed over)' % (cls,
                                            by[fluid_name][1]['maxdist']))
        # every Group is real=False
        for node in ast.walk(fn):
            if isinstance(node, ast.Call) and isinstance(
                    node.func, ast.Name) and node.func.id == 'Group':
                kw = {k.arg: ast.unparse(k.value) for k in node.keywords}
                if kw.get('real') != 'False':
                    ok = False
                    why.append('%s: Group real=%s' % (cls, kw.get('real')))
    ctx.prove('io_eval.wiring', [Obligation(
        'wiring', [], z3.BoolVal(ok), W)], info='; '.join(why)[:400])


# --------------------------------------------------------- update() models
class Cond(object):
    def __init__(self, arr, op, val):
        self.arr, self.op, self.val = arr, op, val

    def __eq__(self, o):
        return isinstance(o, Cond) and (self.arr, self.op, self.val) == \
            (o.arr, o.op, o.val)

    def __repr__(self):
        return '{%s %s %s}' % (self.arr, self.op, self.val)


class IoidArr(object):
    def __init__(self, name):
        self.name = name

    def vc_compare(self, op, other, reflected):
        return Cond(self.name, op, other)


class Idx(object):
    def __init__(self, cond):
        self.cond = cond

    def vc_len(self, ex, st, node):
        return z3.Int('n_' + self.cond.arr)

    def __repr__(self):
        return 'where%r' % self.cond


class PropArr(object):
    """a property array supporting a[I] (+=|-=) c"""

    def __init__(self, name):
        self.name = name

    def vc_getitem(self, idx, ex, st, node):
        return ('view', self.name, idx)

    def vc_setitem(self, idx, v, ex, st, node):
        st.trace.append(('set', self.name, idx, v))


def mk_pa(name, st_events, extra=None):
    def rec(kind):
        def h(ex, st, a, k, n):
            st.trace.append((kind, name, a, k))
            return SymObject(None, dict(
                x=('col', 'x'), y=('col', 'y'), z=('col', 'z'),
                u=('col', 'u'),
                get_property_arrays=Native(
                    lambda e, s_, a_, k_, n_: {
                        '__props__': name, 'x': a_[0].attrs['x'],
                        'y': a_[0].attrs['y'], 'z': a_[0].attrs['z'],
                        'u': a_[0].attrs['u']}, bind=True)), 'pa_add')
        return Native(h)
    attrs = dict(name=name, ioid=IoidArr(name), x=PropArr(name + '.x'),
                 y=PropArr(name + '.y'), z=PropArr(name + '.z'),
                 extract_particles=rec('extract'),
                 remove_particles=rec('remove'),
                 add_particles=rec('add'), gpu=None)
    attrs.update(extra or {})
    return SymObject(None, attrs, name)


class UpdExec(Executor):
    """`pa.x[I] += v`: the view read, the addition and the store are recorded
    as one event."""

    def binop(self, op, a, b, st, node):
        if isinstance(a, tuple) and a and a[0] == 'view':
            return ('upd', a[1], a[2], type(op).__name__, b)
        if isinstance(b, tuple) and b and b[0] == 'col' and \
                not isinstance(a, tuple):
            return ('scaled', type(op).__name__, a, b)
        return Executor.binop(self, op, a, b, st, node)


def ext_where(ex, st, args, kwargs, node):
    return (Idx(args[0]),)


def run_update(repo, m, mod_cls, stage_active, with_ghost=True, mro=None,
               more_contracts=None):
    modname, cls = mod_cls
    mm = repo.module(modname)
    r = repo.find_method(modname, cls, 'update')
    fn = r[2]
    L = z3.Real('length')
    n = [z3.Real('xn'), z3.Real('yn'), z3.Real('zn')]
    ev = Native(lambda ex, st, a, k, n_: st.trace.append(('io_eval.update',)))
    ioe = SymObject(None, dict(
        update=ev, evaluate=Native(lambda ex, st, a, k, n_:
                                   st.trace.append(('io_eval.evaluate',)))),
        'io_eval')
    inlet = mk_pa('zone', None, dict(uref=[z3.Real('uref_z')]))
    fluid = mk_pa('fluid', None, dict(uref=[z3.Real('uref_f')]))
    ghost = mk_pa('ghost', None) if with_ghost else None
    obj = SymObject(cls, dict(
        _init=True, active_stages=[1], gpu=False, length=L, xn=n[0],
        yn=n[1], zn=n[2], x=z3.Real('x0'), y=z3.Real('y0'), z=z3.Real('z0'),
        io_eval=ioe, callback=Native(lambda ex, st, a, k, n_:
                                     st.trace.append(('callback', a))),
        dest_pa=fluid, inlet_pa=inlet, ghost_pa=ghost,
        source_pa=fluid, outlet_pa=inlet, props_to_copy=['x', 'rho']),
        'self')
    obj.module = modname
    ex = UpdExec(repo, r[0], qualname=cls + '.update', merge=False,
                 externals={'where': ext_where},
                 contracts={}, inline=set())
    from pyvc.symexec import CalleeContract
    ex.contracts['%s._create_io_eval' % r[1].name] = CalleeContract(
        lambda e, s_, a, k, n_: ioe)
    ex.contracts['InletBase._create_io_eval'] = ex.contracts[
        '%s._create_io_eval' % r[1].name]
    ex.contracts['OutletBase._create_io_eval'] = ex.contracts[
        'InletBase._create_io_eval']
    ex.contracts.update(more_contracts or {})
    outs = ex.exec_function(fn, dict(self=obj, time=z3.Real('time'),
                                     dt=z3.Real('dt'),
                                     stage=1 if stage_active else 2))
    return r[0], fn, ex, outs, dict(L=L, n=n, inlet=inlet, fluid=fluid,
                                    ghost=ghost)


def check_inlet_trace(tr, w, with_ghost):
    """-> (ok, why, list of z3 goals)"""
    L, n = w['L'], w['n']
    names = [e[0] for e in tr]
    goals = []
    want = ['io_eval.update', 'io_eval.evaluate', 'extract', 'set', 'set',
            'set'] + (['set', 'set', 'set'] if with_ghost else []) + \
        ['callback']
    if names != want:
        return False, 'events %s' % names, goals
    ext = tr[2]
    if ext[1] != 'zone' or not isinstance(ext[2][0], Idx) or \
            ext[2][0].cond != Cond('zone', '==', 0) or \
            ext[2][1] is not w['fluid']:
        return False, 'extract_particles(%r)' % (ext[2],), goals
    I = ext[2][0]
    sets = [e for e in tr if e[0] == 'set']
    exp = [('zone.x', 'Add', 0), ('zone.y', 'Add', 1), ('zone.z', 'Add', 2)]
    if with_ghost:
        exp += [('ghost.x', 'Sub', 0), ('ghost.y', 'Sub', 1),
                ('ghost.z', 'Sub', 2)]
    for e, (arr, op, k) in zip(sets, exp):
        _, a_, idx, v = e
        if a_ != arr or idx is not I or not isinstance(v, tuple) or \
                v[0] != 'upd' or v[1] != arr or v[2] is not I or v[3] != op:
            return False, 'update of %s: %r' % (arr, e[1:]), goals
        goals.append(S.to_z3(S.cmp('==', v[4], L * n[k])))
    return True, '', goals


REPLAY_IO = r'''
import json, sys, importlib.util
import numpy as np
d = json.load(sys.stdin)
spec = importlib.util.spec_from_file_location('pysph.sph.bc.iom_ut', d['root'] + '/pysph/sph/bc/inlet_outlet_manager.py')
mod = importlib.util.module_from_spec(spec); mod.__package__ = 'pysph.sph.bc'; spec.loader.exec_module(mod)
from pysph.base.utils import get_particle_array
from pysph.base.kernels import CubicSpline
bad = None
for normal in ([-1.0, 0, 0], [0, -1.0, 0], [0, 0, -1.0]):
    n = np.array(normal)
    L = 0.3
    # inlet zone particles: three layers upstream of the plane through 0
    pts = np.array([(-0.05 - 0.1 * k) for k in range(3)])
    pos = -np.outer(pts, n)     # along -n?  zone is on the +n side of the plane with outward normal n
    pos = np.outer(-pts, n)
    inlet = get_particle_array(name='inlet', x=pos[:, 0], y=pos[:, 1], z=pos[:, 2], h=0.1, m=1.0, rho=1.0, u=0.0, ioid=0, disp=0.0, pid=np.arange(3.0))
    fluid = get_particle_array(name='fluid', x=[-5.0 * n[0] + 0], y=[-5.0 * n[1]], z=[-5.0 * n[2]], h=0.1, m=1.0, rho=1.0, u=0.0, ioid=0, disp=0.0, pid=[100.0])
    info = mod.InletInfo('inlet', normal=list(n), refpoint=[0.0, 0.0, 0.0]) if hasattr(mod, 'InletInfo') else None
    try:
        info.length = L; info.dx = 0.1
        ib = mod.InletBase(inlet, fluid, info, CubicSpline(dim=3), dim=3)
    except Exception as e:
        bad = dict(error='setup: %r' % (e,)); break
    n_f0 = fluid.get_number_of_particles()
    entered = 0
    for step in range(8):
        # move everything by 0.06 against the outward normal (into the fluid)
        for pa in (inlet, fluid):
            pa.x -= 0.06 * n[0]; pa.y -= 0.06 * n[1]; pa.z -= 0.06 * n[2]
        before = fluid.get_number_of_particles()
        ib.update(0.0, 0.1, 1)
        entered += fluid.get_number_of_particles() - before
        pids = sorted(inlet.pid.tolist())
        if inlet.get_number_of_particles() != 3:
            bad = dict(normal=normal, step=step, problem='inlet count %d' % inlet.get_number_of_particles()); break
        disp = inlet.x * n[0] + inlet.y * n[1] + inlet.z * n[2]
        if (disp < -1e-9).any() or (disp > L + 1e-9).any():
            bad = dict(normal=normal, step=step, problem='recycled particle outside the zone', disp=disp.tolist()); break
    if bad: break
    if entered != 8 * 0 + (fluid.get_number_of_particles() - n_f0):
        bad = dict(normal=normal, problem='count'); break
    # each crossing adds exactly one fluid particle: 0.06*8 = 0.48 => 4 or 5 crossings per layer spacing 0.1
    exp = int(np.floor((0.48 + 0.05) / 0.1))
    if fluid.get_number_of_particles() - n_f0 != exp:
        bad = dict(normal=normal, problem='fluid gained %d particles, expected %d' % (fluid.get_number_of_particles() - n_f0, exp)); break
print(json.dumps(dict(bad=bad)))
'''


def replay_inlet(model, ob):
    from pyvc.repo import REPO_ROOT
    try:
        r = native.run_venv(REPLAY_IO, dict(root=REPO_ROOT), timeout=900)
    except Exception as e:
        return dict(reproduced=False, note=str(e)[-400:])
    if r['bad'] and 'error' not in r['bad']:
        return dict(reproduced=True, how='real InletBase.update on compiled '
                    'particle arrays, x/y/z-normal inlets', **r['bad'])
    return dict(reproduced=False, note=str(r['bad']))


def task_inlet(ctx, repo, m):
    W = m.path
    for (modname, cls, T) in (
            (MOD, 'InletBase', 'inlet.base'),
            ('pysph.sph.bc.hybrid.inlet', 'Inlet', 'inlet.hybrid')):
        obs = []
        for ghost in (True, False):
            mm, fn, ex, outs, w = run_update(repo, m, (modname, cls), True,
                                             ghost)
            ctx.function(mm, fn, cls + '.update', ex.dropped)
            for i, o in enumerate(outs):
                tr = [e for e in o.state.trace]
                ok, why, goals = check_inlet_trace(tr, w, ghost)
                obs.append(Obligation('%s.trace.%s.%d' % (T, ghost, i), o.pc,
                                      z3.BoolVal(bool(ok)), W,
                                      extra=dict(why=why)))
                for j, g in enumerate(goals):
                    obs.append(Obligation('%s.shift.%s.%d.%d' % (
                        T, ghost, i, j), o.pc, g, W))
        mm, fn, ex, outs, w = run_update(repo, m, (modname, cls), False)
        for i, o in enumerate(outs):
            quiet = [e for e in o.state.trace if e[0] in (
                'extract', 'set', 'remove', 'add', 'callback')]
            obs.append(Obligation('%s.inactive.%d' % (T, i), o.pc,
                                  z3.BoolVal(not quiet), W))
        ctx.prove('%s.update' % T, obs, replay=replay_inlet, sample=True)
    # recycled particle is inside the zone again
    obj, p, n, L = io_self()
    x = [z3.Real('px'), z3.Real('py'), z3.Real('pz')]
    d = (x[0] - p[0]) * n[0] + (x[1] - p[1]) * n[1] + (x[2] - p[2]) * n[2]
    e = S.to_z3(EPS6)
    x2 = [x[k] + L * n[k] for k in range(3)]
    pre = [L > 2 * e, n[0] * n[0] + n[1] * n[1] + n[2] * n[2] == 1,
           d < e, d > e - L]   # d == e lands on the known tie point
    fn, ex, outs = run_loop(repo, m, obj, x2, pre)
    obs = []
    for i, o in enumerate(outs):
        z = o.state.env['d_ioid'][1]
        obs.append(Obligation('recycle.%d' % i, o.pc, S.to_z3(S.cmp(
            '==', z, 1)) if S.is_sym(z) else z3.BoolVal(z == 1), W,
            extra=dict(backends=['z3'])))
    ctx.prove('inlet.recycled_is_inside', obs, replay=replay_inlet,
              use_nf=False)


def task_outlet(ctx, repo, m):
    W = m.path
    obs = []
    mm, fn, ex, outs, w = run_update(repo, m, (MOD, 'OutletBase'), True)
    ctx.function(mm, fn, 'OutletBase.update', ex.dropped)
    for i, o in enumerate(outs):
        tr = o.state.trace
        names = [e[0] for e in tr]
        ok = names == ['io_eval.update', 'io_eval.evaluate', 'extract',
                       'remove', 'remove', 'callback']
        why = 'events %s' % names
        if ok:
            ext, rm1, rm2 = tr[2], tr[3], tr[4]
            O = ext[2][0]
            ok = (ext[1] == 'fluid' and isinstance(O, Idx) and
                  O.cond == Cond('fluid', '==', 1) and
                  ext[3].get('dest_array') is w['inlet'] and
                  ext[3].get('props') == ['x', 'rho'] and
                  rm1[1] == 'fluid' and rm1[2][0] is O and
                  rm2[1] == 'zone' and isinstance(rm2[2][0], Idx) and
                  rm2[2][0].cond == Cond('zone', '==', 2))
            why = 'arguments %r %r %r' % (ext[2:], rm1[2], rm2[2])
        obs.append(Obligation('outlet.trace.%d' % i, o.pc,
                              z3.BoolVal(bool(ok)), W, extra=dict(why=why)))
    mm, fn, ex, outs, w = run_update(repo, m, (MOD, 'OutletBase'), False)
    for i, o in enumerate(outs):
        quiet = [e for e in o.state.trace if e[0] in ('extract', 'remove',
                                                      'add', 'callback')]
        obs.append(Obligation('outlet.inactive.%d' % i, o.pc,
                              z3.BoolVal(not quiet), W))
    ctx.prove('outlet.base.update', obs)


REPLAY_MIRROR = r"""
import json, sys, os, importlib.util
import numpy as np
d = json.load(sys.stdin)
root = d['root']
sys.path[:] = [p for p in sys.path if os.path.abspath(p or os.getcwd()) != root]
import pysph.sph.bc, pysph.sph.bc.mirror
def load(modname, relpath):
    spec = importlib.util.spec_from_file_location(modname, os.path.join(root, relpath))
    mod = importlib.util.module_from_spec(spec); sys.modules[modname] = mod
    spec.loader.exec_module(mod)
    parent, _, child = modname.rpartition('.'); setattr(sys.modules[parent], child, mod)
    return mod
iom_mod = load('pysph.sph.bc.inlet_outlet_manager', 'pysph/sph/bc/inlet_outlet_manager.py')
out_mod = load('pysph.sph.bc.mirror.outlet', 'pysph/sph/bc/mirror/outlet.py')
from pysph.base.utils import get_particle_array
from pysph.base.kernels import QuinticSpline
bad = None
for has_ghost in (False, True):
    dx = 0.1
    fluid = get_particle_array(name='fluid', x=-dx / 2 - dx * np.arange(12)[::-1], m=1.0, h=1.5 * dx, u=1.0)
    outlet = get_particle_array(name='outlet', x=dx / 2 + dx * np.arange(5), m=1.0, h=1.5 * dx, u=1.0)
    ghost = get_particle_array(name='ghost_outlet', x=-dx / 2 - dx * np.arange(5), m=1.0, h=1.5 * dx, u=-1.0)
    arrs = [fluid, outlet] + ([ghost] if has_ghost else [])
    for pa in [fluid, outlet, ghost]:
        for p in ('ioid', 'disp', 'pid9'):
            pa.add_property(p)
    fluid.pid9[:] = np.arange(12); outlet.pid9[:] = 100 + np.arange(5); ghost.pid9[:] = 100 + np.arange(5)
    props = ['x', 'y', 'z', 'u', 'v', 'w', 'm', 'h', 'rho', 'p', 'ioid', 'pid9']
    info = iom_mod.OutletInfo(pa_name='outlet', normal=[1.0, 0.0, 0.0], refpoint=[0.0, 0.0, 0.0], has_ghost=has_ghost, update_cls=out_mod.Outlet, props_to_copy=props)
    info.length = 0.5; info.dx = dx
    try:
        io = out_mod.Outlet(outlet, fluid, info, QuinticSpline(dim=1), dim=1, active_stages=[1], ghost_pa=ghost if has_ghost else None)
    except Exception as e:
        bad = dict(error='setup %r' % (e,)); break
    pos = {}
    for i, x in zip(fluid.pid9, fluid.x): pos[int(i)] = x
    for i, x in zip(outlet.pid9, outlet.x): pos[int(i)] = x
    crossed = set()
    for k, dd in enumerate([0.03, 0.12, 0.25, 0.04, 0.2, 0.11, 0.3, 0.07]):
        for pa in arrs:
            pa.x[:] = pa.x + (dd if pa is not ghost else -dd)
        for i in pos: pos[i] += dd
        io.update(0.0, 0.0, 1)
        for i, x in pos.items():
            if i < 100 and x > 1e-6: crossed.add(i)
        alive = sorted(i for i, x in pos.items() if x - 0.5 <= 1e-6)
        fp = sorted(int(i) for i in fluid.pid9); op = sorted(int(i) for i in outlet.pid9)
        allp = fp + op
        if len(set(allp)) != len(allp):
            bad = dict(has_ghost=has_ghost, step=k, problem='particle present more than once', ids=[i for i in set(allp) if allp.count(i) > 1]); break
        if len(fp) != 12 - len(crossed):
            bad = dict(has_ghost=has_ghost, step=k, problem='fluid count %d != 12 - %d left' % (len(fp), len(crossed))); break
        if sorted(set(allp)) != alive:
            bad = dict(has_ghost=has_ghost, step=k, problem='ids present differ from expected', present=sorted(set(allp)), expected=alive); break
        if has_ghost:
            gp = sorted(int(i) for i in ghost.pid9)
            if gp != op:
                bad = dict(has_ghost=True, step=k, problem='ghost ids differ from outlet ids', ghost=gp, outlet=op); break
    if bad: break
print(json.dumps(dict(bad=bad)))
"""


def replay_mirror(model, ob):
    from pyvc.repo import REPO_ROOT
    try:
        r = native.run_venv(REPLAY_MIRROR, dict(root=REPO_ROOT), timeout=900)
    except Exception as e:
        return dict(reproduced=False, note=str(e)[-400:])
    if r['bad'] and 'error' not in r['bad']:
        return dict(reproduced=True, how='real mirror Outlet.update on '
                    'compiled particle arrays, with and without ghost array',
                    **r['bad'])
    return dict(reproduced=False, note=str(r['bad']))


def task_mirror(ctx, repo):
    modname = 'pysph.sph.bc.mirror.outlet'
    mm = repo.module(modname)
    W = mm.path
    fn = mm.methods('Outlet')['_get_ghost_xyz']
    obj, p, n, L = io_self()
    obj.cls = 'Outlet'
    obj.module = modname
    x = [z3.Real('gx'), z3.Real('gy'), z3.Real('gz')]
    ex = Executor(repo, mm, qualname='Outlet._get_ghost_xyz')
    outs = ex.exec_function(fn, dict(self=obj, x=x[0], y=x[1], z=x[2]))
    ctx.function(mm, fn, 'Outlet._get_ghost_xyz', ex.dropped)
    obs = []
    unit = n[0] * n[0] + n[1] * n[1] + n[2] * n[2] == 1
    d = (x[0] - p[0]) * n[0] + (x[1] - p[1]) * n[1] + (x[2] - p[2]) * n[2]
    for i, o in enumerate(outs):
        g = o.value
        if not isinstance(g, tuple) or len(g) != 3:
            obs.append(Obligation('ghost.shape', o.pc, z3.BoolVal(False), W))
            continue
        for k in range(3):
            obs.append(Obligation('ghost.%d.%d' % (i, k), o.pc, S.to_z3(
                S.cmp('==', g[k], x[k] - 2 * d * n[k])), W))
        d2 = sum((S.to_real(g[k]) - p[k]) * n[k] for k in range(3))
        obs.append(Obligation('ghost.%d.reflected' % i, o.pc + [unit],
                              d2 == -d, W, extra=dict(backends=['z3'])))
    ctx.prove('mirror.ghost_is_reflection', obs, use_nf=False)
    # update(): the trace of array operations on every path, with and
    # without a ghost array, for any number of leaving particles
    from pyvc.symexec import CalleeContract
    gh = CalleeContract(lambda e, s_, a, k, n_: (
        ('ghostpos', 0, tuple(a[-3:])), ('ghostpos', 1, tuple(a[-3:])),
        ('ghostpos', 2, tuple(a[-3:]))))
    tobs = []
    m0 = repo.module(MOD)
    for with_ghost in (True, False):
        _, fn_u, ex_u, outs_u, w = run_update(
            repo, m0, (modname, 'Outlet'), True, with_ghost=with_ghost,
            more_contracts={'Outlet._get_ghost_xyz': gh})
        nO = z3.Int('n_fluid')
        for i, o in enumerate(outs_u):
            tr = o.state.trace
            names = [e[0] for e in tr]
            tag = 'mirror.trace.%s.%d' % ('ghost' if with_ghost else
                                          'noghost', i)
            sol = z3.Solver()
            sol.set('timeout', 10000)
            sol.add(*[S.to_z3(c) for c in o.pc])
            sol.add(nO > 0)
            some_leave = sol.check() != z3.unsat
            ghost_add = with_ghost and some_leave
            want_names = ['io_eval.update', 'io_eval.evaluate', 'extract',
                          'add'] + (['add'] if ghost_add else []) + \
                ['remove', 'remove'] + (['remove'] if with_ghost else []) + \
                ['callback']
            ok = names == want_names
            why = 'events %s, wanted %s' % (names, want_names)
            if ok:
                ext, add1 = tr[2], tr[3]
                k = 4
                addg = None
                if ghost_add:
                    addg = tr[k]
                    k += 1
                rm1, rm2 = tr[k], tr[k + 1]
                rmg = tr[k + 2] if with_ghost else None
                O = ext[2][0]
                cols = ('col', 'x'), ('col', 'y'), ('col', 'z')
                ok = (ext[1] == 'fluid' and isinstance(O, Idx) and
                      O.cond == Cond('fluid', '==', 1) and
                      ext[3].get('props') == ['x', 'rho'] and
                      add1[1] == 'zone' and
                      add1[3].get('__props__') == 'fluid' and
                      tuple(add1[3].get(c) for c in 'xyz') == cols and
                      add1[3].get('u') == ('col', 'u') and
                      rm1[1] == 'fluid' and rm1[2][0] is O and
                      rm2[1] == 'zone' and isinstance(rm2[2][0], Idx) and
                      rm2[2][0].cond == Cond('zone', '==', 2))
                why = 'arguments %r %r %r %r' % (ext[2:], add1[3], rm1[2],
                                                 rm2[2])
                if ok and addg is not None:
                    kw = addg[3]
                    ok = (addg[1] == 'ghost' and
                          all(kw.get(c) == ('ghostpos', j, cols)
                              for j, c in enumerate('xyz')) and
                          kw.get('u') in (('scaled', 'Mult', -1.0,
                                           ('col', 'u')),
                                          ('scaled', 'Mult', -1,
                                           ('col', 'u'))))
                    why = 'ghost copy %r' % (kw,)
                if ok and rmg is not None:
                    ok = rmg[1] == 'ghost' and rmg[2][0] is rm2[2][0]
                    why = 'ghost removal %r' % (rmg[2],)
            tobs.append(Obligation(tag, o.pc, z3.BoolVal(bool(ok)), W,
                                   extra=dict(why=why)))
        if not outs_u:
            tobs.append(Obligation('mirror.trace.nopaths', [],
                                   z3.BoolVal(False), W))
    _, fn_u, ex_u, outs_u, w = run_update(
        repo, m0, (modname, 'Outlet'), False,
        more_contracts={'Outlet._get_ghost_xyz': gh})
    for i, o in enumerate(outs_u):
        quiet = [e for e in o.state.trace if e[0] in ('extract', 'remove',
                                                      'add', 'callback')]
        tobs.append(Obligation('mirror.inactive.%d' % i, o.pc,
                               z3.BoolVal(not quiet), W))
    ctx.prove('mirror.update.trace', tobs, replay=replay_mirror)
    # update(): structural trace (order of array operations)
    fu = mm.methods('Outlet')['update']
    ctx.function(mm, fu, 'Outlet.update')
    calls = []
    for node in ast.walk(fu):
        if isinstance(node, ast.Call) and isinstance(node.func,
                                                     ast.Attribute):
            tgt = ast.unparse(node.func)
            if any(tgt.endswith(s_) for s_ in (
                    '.extract_particles', '.add_particles',
                    '.remove_particles')):
                calls.append((node.lineno, node.col_offset, tgt,
                              [ast.unparse(a) for a in node.args]))
    calls.sort()
    seq = [(c[2], c[3]) for c in calls]
    want = [('source_pa.extract_particles', ['all_idx']),
            ('outlet_pa.add_particles', []),
            ('ghost_pa.add_particles', []),
            ('source_pa.remove_particles', ['all_idx']),
            ('outlet_pa.remove_particles', ['all_idx']),
            ('ghost_pa.remove_particles', ['all_idx'])]
    src = mm.source_of(fu)
    ok = seq == want and 'pa_add.u = -1.0 * pa_add.u' in src.replace(
        '-1. *', '-1.0 *')
    ctx.prove('mirror.update.order', [Obligation(
        'order', [], z3.BoolVal(bool(ok)), W)], info=str(seq)[:400])


FAMILIES = ('hybrid', 'mirror', 'characteristic', 'donothing', 'mod_donothing')


def task_steppers(ctx, repo):
    """<family>.SimpleInletOutlet.get_stepper: whenever it hands out zone
    steppers (the zone particles are then moved in the corrector stage of the
    integrator) -- and on the same branch even when the simulation has no
    inlet or no outlet -- the manager's update stage is the stage after which
    the zone particles have moved, `active_stages == [2]`; the answer does not
    depend on how many inlets / outlets there are; every inlet gets an
    InletStep and every outlet an OutletStep."""
    from pyvc.symexec import _ClassRef
    for fam in FAMILIES:
        modname = 'pysph.sph.bc.%s.simple_inlet_outlet' % fam
        try:
            mm = repo.module(modname)
            fn = mm.methods('SimpleInletOutlet')['get_stepper']
        except Exception:
            continue
        W = mm.path
        ctx.function(mm, fn, '%s.SimpleInletOutlet.get_stepper' % fam)
        obs = []
        stages_by_branch = {}
        for ni, no, gi, go in [(a, b, c, d) for a in (0, 1, 2)
                               for b in (0, 1, 2) for c in (0, 1)
                               for d in (0, 1)]:
            if True:
                isE = z3.Bool('scheme_is_expected')

                def ext_isinstance(ex, st, a, k, n):
                    return isE

                def mk(kind):
                    return lambda ex, st, a, k, n: ('stepper', kind)
                ex = Executor(repo, mm, qualname='SimpleInletOutlet.'
                              'get_stepper', merge=False,
                              externals={'isinstance': ext_isinstance,
                                         'InletStep': mk('inlet'),
                                         'OutletStep': mk('outlet'),
                                         'OutletStepWithUhat': mk('outlet')})
                inl = ['in%d' % i for i in range(ni)]
                outl = ['out%d' % i for i in range(no)]
                ginl = ['gin%d' % i for i in range(gi)]
                goutl = ['gout%d' % i for i in range(go)]
                obj = SymObject('SimpleInletOutlet', dict(
                    inlets=list(inl), outlets=list(outl),
                    ghost_inlets=list(ginl), ghost_outlets=list(goutl),
                    active_stages=['unset']), 'self')
                obj.module = modname
                pec = ex.eval(ast.parse('PECIntegrator', mode='eval').body,
                              State())
                sch = SymObject(None, {}, 'scheme')
                outs = ex.exec_function(fn, dict(self=obj, scheme=sch,
                                                 cls=pec))
                tag = 'n%d.%d.%d.%d' % (ni, no, gi, go)
                if not outs:
                    obs.append(Obligation(tag + '.nopath', [],
                                          z3.BoolVal(False), W))
                for i, o in enumerate(outs):
                    st_ = o.state.env['self'].attrs['active_stages']
                    val = o.value
                    ok = o.kind == 'return' and isinstance(val, dict)
                    why = 'returned %r' % (val,)
                    sol = z3.Solver()
                    sol.set('timeout', 10000)
                    sol.add(*[S.to_z3(c) for c in o.pc])
                    sol.add(isE)
                    on_branch = sol.check() != z3.unsat
                    if ok and on_branch:
                        want = dict([(k, ('stepper', 'inlet')) for k in inl] +
                                    [(k, ('stepper', 'outlet')) for k in outl])
                        # ghost zones: a stepper is optional (the families
                        # differ), but never of the other kind
                        opt = dict([(k, ('stepper', 'outlet')) for k in goutl]
                                   + [(k, ('stepper', 'inlet')) for k in ginl])
                        ok = (all(val.get(k) == v for k, v in want.items())
                              and all(k in want or opt.get(k) == v
                                      for k, v in val.items())
                              and st_ == [2])
                        why = 'steppers %r, active_stages %r' % (val, st_)
                    elif ok:
                        ok = val == {} and st_ == ['unset']
                        why = ('other integrator/scheme: steppers %r, '
                               'active_stages %r' % (val, st_))
                    obs.append(Obligation('%s.path%d' % (tag, i), o.pc,
                                          z3.BoolVal(bool(ok)), W,
                                          extra=dict(why=why)))
        ctx.prove('steppers.%s.active_stage_follows_steppers' % fam, obs)


# -------------------------------------------------------------------- setup
def task_setup(ctx, repo, m):
    """From the manager to the update objects: get_inlet_outlet refreshes
    the zone record from the zone's own array, then builds the zone's update
    class on (zone array, fluid array, the zone's info, kernel, dim,
    active_stages, ghost_pa = the paired ghost array or None); the base
    constructors store every argument under its own name; initialize() takes
    reference point, normal and length from the zone's info."""
    W = m.path
    obs = []
    fn = m.methods('InletOutletManager')['get_inlet_outlet']
    built = []

    def mk_info(kind):
        return SymObject(None, dict(
            pa_name=kind, update_cls=Native(
                lambda e, s_, a, k, n: (built.append((kind, list(a),
                                                      dict(k))),
                                        ('obj', kind))[1])), kind + 'info')
    ii, oi = mk_info('inlet'), mk_info('outlet')
    arrays = {nm: ('array', nm) for nm in ('inlet', 'outlet', 'fluid',
                                           'ghost_inlet', 'ghost_outlet')}
    for tag, ipairs, opairs in (('ghosts', {'inlet': 'ghost_inlet'},
                                 {'outlet': 'ghost_outlet'}),
                                ('noghosts', {}, {}),
                                # the defaults: InletInfo has a ghost,
                                # OutletInfo has none -- nothing is carried
                                # over from one zone to the next
                                ('inlet_only', {'inlet': 'ghost_inlet'}, {}),
                                ('outlet_only', {}, {'outlet':
                                                     'ghost_outlet'})):
        del built[:]
        upd = []
        obj = SymObject('InletOutletManager', dict(
            inletinfo=[ii], outletinfo=[oi], fluids=['fluid'],
            inlet_pairs=dict(ipairs), outlet_pairs=dict(opairs),
            kernel='KERNEL', dim=z3.Int('dim'), active_stages=['STAGES']),
            'self')
        obj.module = MOD
        ex = Executor(repo, m, qualname='InletOutletManager.'
                      'get_inlet_outlet', merge=False)
        from pyvc.symexec import CalleeContract
        ex.contracts['InletOutletManager._update_inlet_outlet_info'] = \
            CalleeContract(lambda e, s_, a, k, n: upd.append(
                (a[1], len(built))))
        try:
            outs = ex.exec_function(fn, dict(self=obj,
                                             particle_array=arrays))
        except VCError as e:
            ctx.outside('setup.get_inlet_outlet', str(e))
            return
        ok = len(outs) == 1 and outs[0].value == [('obj', 'inlet'),
                                                  ('obj', 'outlet')] and \
            len(built) == 2
        why = 'returned %r, %d objects built' % (
            outs[0].value if outs else None, len(built))
        for (kind, a_, k_), info, pairs in zip(built, (ii, oi),
                                               (ipairs, opairs)):
            gh = arrays[pairs[kind]] if kind in pairs else None
            pos = list(a_) + [None] * 6
            if not (pos[0] == arrays[kind] and pos[1] == arrays['fluid'] and
                    pos[2] is info and pos[3] == 'KERNEL' and
                    S.same(pos[4], obj.attrs['dim']) and
                    pos[5] == ['STAGES'] and k_.get('ghost_pa', 'absent')
                    == gh and len(a_) == 6):
                ok = False
                why = '%s built with %r %r' % (kind, a_, k_)
        # the zone record is refreshed from the zone's own array, before the
        # object is built
        if upd != [(arrays['inlet'], 0), (arrays['outlet'], 1)]:
            ok = False
            why = 'zone records refreshed as %r' % (upd,)
        obs.append(Obligation('setup.get_inlet_outlet.' + tag, [],
                              z3.BoolVal(bool(ok)), W, extra=dict(why=why)))
    ctx.function(m, fn, 'InletOutletManager.get_inlet_outlet')
    # several zones of one kind: EVERY inlet and EVERY outlet gets its own
    # update object, in the order given
    del built[:]
    ii2, oi2 = mk_info('inlet2'), mk_info('outlet2')
    arrays2 = dict(arrays, inlet2=('array', 'inlet2'),
                   outlet2=('array', 'outlet2'))
    obj = SymObject('InletOutletManager', dict(
        inletinfo=[ii, ii2], outletinfo=[oi, oi2], fluids=['fluid'],
        inlet_pairs={}, outlet_pairs={}, kernel='KERNEL',
        dim=z3.Int('dim'), active_stages=['STAGES']), 'self')
    obj.module = MOD
    ex = Executor(repo, m, qualname='InletOutletManager.get_inlet_outlet',
                  merge=False)
    ex.contracts['InletOutletManager._update_inlet_outlet_info'] = \
        CalleeContract(lambda e, s_, a, k, n: None)
    try:
        outs = ex.exec_function(fn, dict(self=obj, particle_array=arrays2))
        want = [('obj', k_) for k_ in ('inlet', 'inlet2', 'outlet',
                                       'outlet2')]
        ok = len(outs) == 1 and outs[0].value == want
        obs.append(Obligation(
            'setup.get_inlet_outlet.every_zone_gets_an_update_object', [],
            z3.BoolVal(bool(ok)), W, extra=dict(
                why='two inlets and two outlets: returned %r' % (
                    outs[0].value if outs else None,))))
    except VCError as e:
        ctx.outside('setup.get_inlet_outlet.two_zones', str(e))
    # the zone records: a zone declared without an update class gets the
    # base class OF ITS KIND (an outlet driven by InletBase would emit and
    # recycle instead of handing over and deleting), an explicit class is
    # kept
    for icls, base in (('InletInfo', 'InletBase'), ('OutletInfo',
                                                    'OutletBase')):
        for given in (None, ('class', 'Custom')):
            fn_i = m.methods(icls)['__init__']
            o_ = SymObject(icls, {}, 'self')
            o_.module = MOD
            ex = Executor(repo, m, qualname=icls + '.__init__', merge=False)
            ex.spec_env['InletBase'] = ('class', 'InletBase')
            ex.spec_env['OutletBase'] = ('class', 'OutletBase')

            class _Super(object):
                # super(OutletInfo, self): the methods of InletInfo on self
                def __init__(self, me, ex_):
                    self.me, self.ex_ = me, ex_

                def vc_getattr(self, name, ex_, st, node):
                    f = m.methods('InletInfo')[name]
                    return Native(lambda e2, s2, a2, k2, n2: e2.inline_call(
                        e2.module, f, [self.me] + list(a2), k2, s2, n2))
            ex.spec_env['super'] = Native(
                lambda e, s_, a, k, n, ex=ex: _Super(a[1], ex))
            try:
                outs = ex.exec_function(fn_i, dict(
                    self=o_, pa_name='zone', normal=('n',),
                    refpoint=('r',), update_cls=given))
                got = outs[0].state.env['self'].attrs.get('update_cls') \
                    if len(outs) == 1 else 'no single outcome'
                want = given if given is not None else ('class', base)
                obs.append(Obligation(
                    'setup.%s.update_class.%s' % (
                        icls, 'default' if given is None else 'explicit'),
                    [], z3.BoolVal(got == want), W, extra=dict(
                        why='%s(update_cls=%r).update_cls is %r' % (
                            icls, given, got))))
            except VCError as e:
                ctx.outside('setup.%s.__init__.%s' % (
                    icls, 'default' if given is None else 'explicit'),
                    str(e))
        ctx.function(m, m.methods(icls)['__init__'], icls + '.__init__')
    # constructors and initialize()
    for cls, names in (('InletBase', ('inlet_pa', 'dest_pa', 'inletinfo')),
                       ('OutletBase', ('outlet_pa', 'source_pa',
                                       'outletinfo'))):
        fn = m.methods(cls)['__init__']
        params = [a.arg for a in fn.args.args][1:]
        vals = {p_: ('arg', p_) for p_ in params}
        obj = SymObject(cls, {}, 'self')
        obj.module = MOD
        ex = Executor(repo, m, qualname=cls + '.__init__', merge=False)
        ex.spec_env['get_config'] = Native(lambda e, s_, a, k, n: SymObject(
            None, dict(use_opencl=False, use_cuda=False), 'cfg'))
        try:
            outs = ex.exec_function(fn, dict(self=obj, **vals))
        except VCError as e:
            ctx.outside('setup.%s.__init__' % cls, str(e))
            continue
        ctx.function(m, fn, cls + '.__init__', ex.dropped)
        ok = len(outs) == 1
        why = ''
        if ok:
            at = outs[0].state.env['self'].attrs
            for p_ in params:
                if at.get(p_) != vals[p_]:
                    ok = False
                    why = 'attribute %s is %r' % (p_, at.get(p_))
            ok = ok and at.get('_init') is False
        obs.append(Obligation('setup.%s.stores_every_argument' % cls, [],
                              z3.BoolVal(bool(ok)), W, extra=dict(why=why)))
        f2 = m.methods(cls)['initialize']
        info = SymObject(None, dict(
            refpoint=[z3.Real('rx'), z3.Real('ry'), z3.Real('rz')],
            normal=[z3.Real('nx'), z3.Real('ny'), z3.Real('nz')],
            length=z3.Real('L'), dx=z3.Real('dx'),
            props_to_copy=('props',)), 'info')
        obj = SymObject(cls, {names[2]: info}, 'self')
        obj.module = MOD
        ex = Executor(repo, m, qualname=cls + '.initialize', merge=False)
        try:
            outs = ex.exec_function(f2, dict(self=obj))
        except VCError as e:
            ctx.outside('setup.%s.initialize' % cls, str(e))
            continue
        ctx.function(m, f2, cls + '.initialize', ex.dropped)
        ok = len(outs) == 1
        if ok:
            at = outs[0].state.env['self'].attrs
            ia = info.attrs
            ok = all(at.get(k_) is v_ for k_, v_ in (
                ('x', ia['refpoint'][0]), ('y', ia['refpoint'][1]),
                ('z', ia['refpoint'][2]), ('xn', ia['normal'][0]),
                ('yn', ia['normal'][1]), ('zn', ia['normal'][2]),
                ('length', ia['length'])))
        obs.append(Obligation('setup.%s.initialize_reads_the_zone_record'
                              % cls, [], z3.BoolVal(bool(ok)), W))
    ctx.prove('setup.update_objects_are_wired_to_their_arrays', obs)
    # several fluid arrays (the manager takes a list and builds its equations
    # for all of them): particles of EVERY fluid array cross the zones, so
    # every (zone, fluid) pair needs an update object
    del built[:]
    obj = SymObject('InletOutletManager', dict(
        inletinfo=[ii], outletinfo=[oi], fluids=['f1', 'f2'],
        inlet_pairs={}, outlet_pairs={}, kernel='KERNEL',
        dim=z3.Int('dim'), active_stages=['STAGES']), 'self')
    obj.module = MOD
    arrays3 = dict(arrays, f1=('array', 'f1'), f2=('array', 'f2'))
    ex = Executor(repo, m, qualname='InletOutletManager.get_inlet_outlet',
                  merge=False)
    ex.contracts['InletOutletManager._update_inlet_outlet_info'] = \
        CalleeContract(lambda e, s_, a, k, n: None)
    fn = m.methods('InletOutletManager')['get_inlet_outlet']
    try:
        outs = ex.exec_function(fn, dict(self=obj, particle_array=arrays3))
        pairs = sorted((k_, a_[1][1]) for (k_, a_, kw_) in built)
        ok = len(outs) == 1 and len(outs[0].value) == 4 and pairs == [
            ('inlet', 'f1'), ('inlet', 'f2'), ('outlet', 'f1'),
            ('outlet', 'f2')]
        ctx.prove('setup.every_fluid_array_is_wired_to_every_zone', [
            Obligation('setup.two_fluids', [], z3.BoolVal(bool(ok)), W,
                       extra=dict(why='fluids [f1, f2]: %d objects returned '
                                  'for the pairs built %r' % (
                                      len(outs[0].value) if outs else -1,
                                      pairs)))], replay=replay_two_fluids)
    except VCError as e:
        ctx.outside('setup.two_fluids', str(e))


REPLAY_TWO_FLUIDS = r'''
import json, sys, importlib.util
import numpy as np
d = json.load(sys.stdin)
spec = importlib.util.spec_from_file_location('pysph.sph.bc.iom_ut', d['root'] + '/pysph/sph/bc/inlet_outlet_manager.py')
m = importlib.util.module_from_spec(spec); m.__package__ = 'pysph.sph.bc'; spec.loader.exec_module(m)
from pysph.base.utils import get_particle_array
from pysph.base.kernels import QuinticSpline
dx = 0.1
def mk(name, x):
    pa = get_particle_array(name=name, x=x, y=np.zeros_like(x), m=np.ones_like(x), h=1.5 * dx * np.ones_like(x), rho=np.ones_like(x), u=np.ones_like(x))
    for p in ('ioid', 'disp'): pa.add_property(p)
    return pa
f1 = mk('f1', np.arange(0.05, 1.0, 2 * dx)); f2 = mk('f2', np.arange(0.15, 1.0, 2 * dx))
outlet = mk('outlet', np.arange(1.05, 1.5, dx))
arrays = {'f1': f1, 'f2': f2, 'outlet': outlet}
props = ['x', 'y', 'z', 'u', 'v', 'w', 'm', 'h', 'rho', 'p', 'ioid']
oinfo = m.OutletInfo('outlet', normal=[1.0, 0.0, 0.0], refpoint=[1.0, 0.0, 0.0], update_cls=m.OutletBase, props_to_copy=props)
iom = m.InletOutletManager(['f1', 'f2'], inletinfo=[], outletinfo=[oinfo])
iom.active_stages = [2]
iom.setup_iom(dim=1, kernel=QuinticSpline(dim=1))
iom.update_dx(dx)
io = iom.get_inlet_outlet(arrays)
for step in range(1, 21):
    for pa in arrays.values(): pa.x += 0.03 * pa.u
    for o in io: o.update(step * 0.03, 0.03, 2)
beyond = {n: [round(float(v), 6) for v in arrays[n].x if v > 1.0 + 1e-6] for n in ('f1', 'f2')}
bad = None
if beyond['f1'] or beyond['f2']:
    bad = dict(case='fluids f1 (x = 0.05, 0.25, ...) and f2 (x = 0.15, 0.35, ...), outlet plane at x = 1, 20 updates of 0.03', fluid_particles_still_in_the_fluid_beyond_the_outlet_plane=beyond, update_objects=[(type(o).__name__, o.source_pa.name) for o in io])
print(json.dumps(dict(bad=bad)))
'''


def replay_two_fluids(model, ob):
    from pyvc.repo import REPO_ROOT
    try:
        r = native.run_venv(REPLAY_TWO_FLUIDS, dict(root=REPO_ROOT),
                            timeout=900, cwd='/tmp')
    except Exception as e:
        return dict(reproduced=False, note=str(e)[-300:])
    if r['bad']:
        return dict(reproduced=True, how='real InletOutletManager and '
                    'OutletBase on compiled particle arrays', **r['bad'])
    return dict(reproduced=False)


# ---------------------------------------------------------------- zone length
def task_length(ctx, repo, m):
    """InletOutletManager._update_inlet_outlet_info: the zone length of the
    matching inlet/outlet is the extent of the zone ALONG ITS NORMAL plus one
    spacing, max_p(p . n) - min_p(p . n) + dx -- taken from the property
    ("any normal direction"), not from the code: one particle layer has
    length dx, not 0, and an oblique zone has the length its layers span --
    and no other zone's record is touched.  (Until 'fix: zone length along
    the normal' the code used the axis-aligned bounding box, |n . (extent +
    dx)|, and this contract had copied that formula from it.)"""
    cls = 'InletOutletManager'
    fn = m.methods(cls)['_update_inlet_outlet_info']
    W = m.path
    Mx = {a: z3.Real('max_' + a) for a in 'xyz'}
    mn_ = {a: z3.Real('min_' + a) for a in 'xyz'}
    Pmax, Pmin = z3.Real('max_of_p_dot_n'), z3.Real('min_of_p_dot_n')
    dx = z3.Real('dx')
    nrm = [z3.Real('n%d' % i) for i in range(3)]
    fresh = [0]

    class Lin(object):
        """a coordinate column or a linear combination of the columns"""

        def __init__(self, co):
            self.co = co

        def vc_clone(self, memo, _c=None):
            return self

        def vc_binop(self, op, other, swapped, ex, st, node):
            if op == 'Mult' and not isinstance(other, Lin):
                return Lin({a: S.mul(c, other) for a, c in self.co.items()})
            if op in ('Add', 'Sub') and isinstance(other, Lin):
                o2 = other.co if op == 'Add' else {
                    a: S.sub(0, c) for a, c in other.co.items()}
                if swapped and op == 'Sub':
                    raise VCError('swapped column subtraction')
                co = dict(self.co)
                for a, c in o2.items():
                    co[a] = S.add(co[a], c) if a in co else c
                return Lin(co)
            raise VCError('column %s' % op)

    def extreme(which):
        def f(e, s_, a, k, n):
            L = a[0]
            if not isinstance(L, Lin):
                raise VCError('max/min of %r' % (L,))
            if len(L.co) == 1 and S.same(list(L.co.values())[0], 1):
                ax = list(L.co)[0]
                return (Mx if which == 'max' else mn_)[ax]
            if set(L.co) == set('xyz') and all(
                    z3.is_true(z3.simplify(S.to_real(L.co[ax]) == nrm[i]))
                    for i, ax in enumerate('xyz')):
                return Pmax if which == 'max' else Pmin
            fresh[0] += 1
            return z3.Real('%s_of_other_combination_%d' % (which, fresh[0]))
        return f
    pa = SymObject(None, dict(name='inlet', x=Lin({'x': 1}), y=Lin({'y': 1}),
                              z=Lin({'z': 1})), 'pa')
    info = SymObject(None, dict(dx=dx, pa_name='inlet', normal=list(nrm),
                                length=z3.Real('old_len')), 'info')
    other = SymObject(None, dict(dx=dx, pa_name='outlet', normal=list(nrm),
                                 length=z3.Real('other_len')), 'other')
    obj = SymObject(cls, dict(inletinfo=[info], outletinfo=[other]), 'self')
    obj.module = m.name
    ex = Executor(repo, m, qualname=cls + '._update_inlet_outlet_info',
                  merge=True, externals={'max': extreme('max'),
                                         'min': extreme('min')})
    pre = [Mx[a] >= mn_[a] for a in 'xyz'] + [dx > 0, Pmax >= Pmin,
                                               sum(c * c for c in nrm) == 1]
    try:
        outs = ex.exec_function(fn, dict(self=obj, pa=pa), State(pc=pre))
    except VCError as e:
        ctx.outside('length', str(e))
        return
    ctx.function(m, fn, cls + '._update_inlet_outlet_info', ex.dropped)
    obs = []
    for i_, o in enumerate(outs):
        me = o.state.env['self']
        got = me.attrs['inletinfo'][0].attrs['length']
        oth = me.attrs['outletinfo'][0].attrs['length']
        obs.append(Obligation('length.%d' % i_, o.pc, z3.And(
            S.to_real(got) == Pmax - Pmin + dx,
            z3.BoolVal(S.same(oth, other.attrs['length']))), W,
            extra=dict(backends=['z3'])))

    def rp(model, ob):
        script = r"""
import json, sys, importlib.util
d = json.load(sys.stdin)
spec = importlib.util.spec_from_file_location('pysph.sph.bc.iom_ut', d['root'] + '/pysph/sph/bc/inlet_outlet_manager.py')
mod = importlib.util.module_from_spec(spec); mod.__package__ = 'pysph.sph.bc'; spec.loader.exec_module(mod)
import numpy as np
class PA:
    name = 'inlet'
    x = np.array([0.05, 0.05, 0.05]); y = np.array([0.0, 0.1, 0.2]); z = np.zeros(3)
class Info: pass
info = Info(); info.dx = 0.1; info.pa_name = 'inlet'; info.normal = [-1.0, 0.0, 0.0]; info.length = 0.0
man = mod.InletOutletManager.__new__(mod.InletOutletManager)
man.inletinfo = [info]; man.outletinfo = []
man._update_inlet_outlet_info(PA())
bad = None
if abs(info.length - 0.1) > 1e-12:
    bad = dict(zone='one particle layer at x = 0.05, dx = 0.1, normal -x', length=float(info.length), documented=0.1)
if bad is None:
    s2 = np.sqrt(0.5); n = np.array([-s2, s2]); t = np.array([s2, s2])
    D, S_ = np.meshgrid((np.arange(4) + 0.5) * 0.1, (np.arange(4) - 1.5) * 0.1, indexing='ij')
    class PB:
        name = 'inlet'
        x = (D * n[0] + S_ * t[0]).ravel(); y = (D * n[1] + S_ * t[1]).ravel(); z = np.zeros(16)
    info.normal = [n[0], n[1], 0.0]
    man._update_inlet_outlet_info(PB())
    if abs(info.length - 0.4) > 1e-9:
        bad = dict(zone='4 layers (spacing 0.1) x 4 wide, normal (-1, 1)/sqrt(2)', length=float(info.length), extent_along_normal_plus_dx=0.4)
print(json.dumps(dict(bad=bad)))
"""
        from pyvc.repo import REPO_ROOT
        try:
            r = native.run_venv(script, dict(root=REPO_ROOT))
        except Exception as e_:
            return dict(reproduced=False, note=str(e_)[-300:])
        return dict(reproduced=bool(r['bad']), **(r['bad'] or {}))
    ctx.prove('length.zone_length_is_extent_plus_dx_along_normal', obs,
              replay=rp, use_nf=False)
