"""C17 (partial) -- spatial re-ordering is a pure permutation of whole particles.

Mechanically extracted Cython (pyvc/cy2py.py).  Functions under contract:
linked_list_nnps.pyx LinkedListNNPS._refresh, _bin,
get_spatially_ordered_indices; octree_nnps.pyx / z_order_nnps.pyx /
stratified_sfc_nnps.pyx get_spatially_ordered_indices;
nnps_base.pyx NNPS.spatially_order_particles;
solver.py Solver.reorder_particles (C05 `reorder`).

refresh   after _refresh every head and every next cell is UINT_MAX (all
          lists empty), heads resized to n_cells, nexts to np  (loop
          invariants, unbounded)
bin       one _bin step is a push-front of particle i onto the list of its
          own cell: next[i] = old head[cell(i)], head[cell(i)] = i, no other
          cell of head/next changes  (loop invariant + frame, unbounded)
walk      get_spatially_ordered_indices (LinkedList): cells visited in
          order 0..n_cells-1; in a cell the walk starts at head[c], appends
          the current node, moves to next[node], stops at UINT_MAX
          (per-iteration contracts of both loops)
copy      octree / z-order / stratified-SFC: exactly the first num_particles
          entries of the pid array OF THE REQUESTED ARRAY (pa_index) are
          appended in order
apply     spatially_order_particles hands the same index list and each
          property's own stride to c_align_array of EVERY property and then
          re-aligns the array so that Local particles come first
GLUE (mathematics, not machine-checked): lists built by push-front from
empty lists partition the binned indices, so walking every list once yields
a permutation of 0..n-1; for the sort-based algorithms permutation-ness of
the pid arrays rests on `pids[i] = i` followed by std::sort (assumed).
"""
import ast
import z3

from pyvc import sym as S
from pyvc import native
from pyvc.repo import Repo
from pyvc.symexec import (Executor, State, Obligation, Native, LoopSpec,
                          SymArray, CalleeContract)
from pyvc.sym import SymObject, VCError

LL = 'pysph/base/linked_list_nnps.pyx'
NB = 'pysph/base/nnps_base.pyx'
UINT_MAX = 4294967295
ASSUMPTIONS = [
    'cyarray c_align_array(indices, stride) gathers whole stride blocks; '
    'resize(n) sets the length; LongArray.append appends',
    'push-front lists from empty lists partition the binned indices: '
    'lemmas/PushFront.lean (Lean 4 + Mathlib, compiled in the thorough tier '
    'only); std::sort permutes the pid arrays of the sort-based algorithms',
    'ParticleArray.align_particles puts Local particles first (C06)',
]
TRUSTED = ['z3 quantifier instantiation']


def tasks(tier):
    # Solver.reorder_particles (re-order every array, then update the
    # neighbour structures) is contracted in C05: re-proved here
    # "queries are exact after the following update": the sorted-key classes
    # must re-sort after a re-ordering (C01 sortkeys), every array is binned
    # whole (C01 update): re-proved here
    return ['refresh', 'bin', 'walk', 'copy', 'apply', 'canary',
            'dep:C05:reorder', 'dep:C06:align', 'dep:C01:sortkeys',
            'dep:C01:update', 'dep:C01:cellkey', 'dep:C01:pidspace',
            'dep:C01:pidslices', 'lemma', 'native']


def carr(name, length=None, elem='int'):
    c = SymObject(None, {}, name)
    data = SymArray(name + '_data', elem=elem, length=length)
    c.attrs['data'] = data
    c.attrs['length'] = data.length

    def resize(ex, st, a, k, n):
        me = a[0]
        d = me.attrs['data']
        d.length = S.to_z3(a[1])
        me.attrs['length'] = d.length
        st.trace.append(('resize', name, a[1]))
    c.attrs['resize'] = Native(resize, 'resize', bind=True)
    return c


def loops_in(fn):
    return sorted([x for x in ast.walk(fn) if isinstance(x, (ast.For,
                                                             ast.While))],
                  key=lambda x: (x.lineno, x.col_offset))


def range_obs(ex, fn, ordinal, state, stop, name, W):
    """the for-loop `ordinal` of fn runs over range(0, stop, 1)"""
    lp = loops_in(fn)[ordinal]
    it = lp.iter
    ok = isinstance(it, ast.Call) and isinstance(it.func, ast.Name) and \
        it.func.id == 'range' and 1 <= len(it.args) <= 3
    if not ok:
        return [Obligation(name, state.pc, z3.BoolVal(False), W)]
    a = [ex.eval(x, state) for x in it.args]
    start, stp, step = (0, a[0], 1) if len(a) == 1 else \
        (a[0], a[1], 1) if len(a) == 2 else a
    return [Obligation(name, state.pc, z3.And(
        S.to_z3(S.cmp('==', start, 0)), S.to_z3(S.cmp('==', stp, stop)),
        S.to_z3(S.cmp('==', step, 1))), W)]


def run_task(task, ctx):
    if task.startswith('dep:'):
        from contracts import deps
        return deps.run_dep(task, ctx)
    if task == 'lemma':
        from contracts import deps
        return deps.lean_lemma(ctx, 'PushFront.lean', [
            'repr_step', 'lists_content', 'lists_nodup', 'repr_build',
            'linked_list_represents_cells'],
            'lemma.push_front_lists_hold_exactly_the_binned_particles')
    if task == 'native':
        return task_native(ctx)
    repo = Repo()
    if task == 'refresh':
        return task_refresh(ctx, repo)
    if task == 'bin':
        return task_bin(ctx, repo)
    if task == 'walk':
        return task_walk(ctx, repo)
    if task == 'copy':
        return task_copy(ctx, repo)
    if task == 'apply':
        return task_apply(ctx, repo)
    if task == 'canary':
        a = z3.Array('ca', z3.IntSort(), z3.IntSort())
        ctx.canary('canary.must_fail', Obligation(
            'c', [], z3.Select(a, 0) == UINT_MAX))
        ctx.results.append(dict(name='canary.pipeline', verdict='proved',
                                queries=0, backends={}, seconds=0,
                                failing=[], replay=None, info=''))
        return
    raise ValueError(task)


REPLAY = r'''
import json, sys
d = json.load(sys.stdin)
if d.get('built'): sys.path.insert(0, d['built'])
import numpy as np
from pysph.base.utils import get_particle_array
from pysph.base import nnps
from cyarray.api import LongArray
bad = None
rng = np.random.RandomState(3)
for cls in ('LinkedListNNPS', 'OctreeNNPS', 'ZOrderNNPS', 'StratifiedSFCNNPS'):
    a = get_particle_array(name='a', x=rng.rand(60), y=rng.rand(60), h=0.1, pid2=np.arange(60.0))
    a.add_property('vec', stride=3); a.vec[:] = np.repeat(np.arange(60.0), 3)
    b = get_particle_array(name='b', x=rng.rand(40), y=rng.rand(40), h=0.1, pid2=np.arange(40.0))
    b.add_property('vec', stride=3); b.vec[:] = np.repeat(np.arange(40.0), 3)
    nn = getattr(nnps, cls)(dim=2, particles=[a, b], radius_scale=2.0)
    nn.set_context(0, 0)
    for idx, pa in enumerate((a, b)):
        ind = LongArray(); nn.get_spatially_ordered_indices(idx, ind)
        got = sorted(ind.get_npy_array().tolist()); n = pa.get_number_of_particles()
        if got != list(range(n)):
            bad = dict(algorithm=cls, array=idx, problem='ordered indices are not a permutation', n=n, max=max(got) if got else None); break
        nn.spatially_order_particles(idx)
        p2 = pa.get('pid2', only_real_particles=False); v = pa.get('vec', only_real_particles=False).reshape(-1, 3)
        if sorted(p2.tolist()) != list(map(float, range(n))) or not (v == p2[:, None]).all():
            bad = dict(algorithm=cls, array=idx, problem='a particle\'s values are no longer together'); break
    if bad: break
if bad is None:
    # ghosts must stay behind the real particles
    x = np.arange(0.05, 1.0, 0.1)
    pa = get_particle_array(name='p', x=x, h=0.1)
    dm = nnps.DomainManager(xmin=0, xmax=1, periodic_in_x=True)
    nn = nnps.LinkedListNNPS(dim=1, particles=[pa], domain=dm)
    nn.spatially_order_particles(0)
    tag = pa.get('tag', only_real_particles=False); nr = pa.num_real_particles
    if (tag[:nr] != 0).any():
        bad = dict(problem='ghost particles inside the first num_real_particles slots after re-ordering',
                   tags=tag.tolist(), num_real_particles=int(nr))
if bad is None:
    # ghosts of a mirror domain and Remote-tagged particles must stay behind
    # the real ones as well
    x = np.arange(0.05, 1.0, 0.1)
    pa = get_particle_array(name='p', x=x, h=0.1)
    dm = nnps.DomainManager(xmin=0, xmax=1, mirror_in_x=True)
    nn = nnps.LinkedListNNPS(dim=1, particles=[pa], domain=dm)
    nn.spatially_order_particles(0)
    tag = pa.get('tag', only_real_particles=False); nr = pa.num_real_particles
    if (tag[:nr] != 0).any():
        bad = dict(problem='mirror ghosts inside the first num_real_particles slots after re-ordering', tags=tag.tolist(), num_real_particles=int(nr))
if bad is None:
    pa = get_particle_array(name='p', x=np.linspace(0, 1, 12), h=0.1)
    pa.tag[8:] = 1
    pa.align_particles()
    nn = nnps.LinkedListNNPS(dim=1, particles=[pa])
    nn.spatially_order_particles(0)
    tag = pa.get('tag', only_real_particles=False); nr = pa.num_real_particles
    if nr != 8 or (tag[:nr] != 0).any():
        bad = dict(problem='Remote particles inside the first num_real_particles slots after re-ordering', tags=tag.tolist(), num_real_particles=int(nr))
if bad is None:
    # a strided property followed by ordinary ones: each with its own stride
    pa = get_particle_array(name='p', x=rng.rand(50), y=rng.rand(50), h=0.1)
    pa.add_property('mat9', stride=4); pa.mat9[:] = np.repeat(np.arange(50.0), 4)
    pa.add_property('q9'); pa.q9[:] = np.arange(50.0)
    pa.add_property('r9', type='int'); pa.r9[:] = np.arange(50)
    nn = nnps.LinkedListNNPS(dim=2, particles=[pa])
    nn.spatially_order_particles(0)
    q = pa.get('q9', only_real_particles=False); r = pa.get('r9', only_real_particles=False)
    mt = pa.get('mat9', only_real_particles=False).reshape(-1, 4)
    if sorted(q.tolist()) != list(map(float, range(50))) or (r != q).any() or not (mt == q[:, None]).all():
        bad = dict(problem='properties declared after a strided one are not permuted with the rest', q9=q.tolist()[:10], r9=r.tolist()[:10], mat9_first_column=mt[:, 0].tolist()[:10])
print(json.dumps(dict(bad=bad)))
'''


def replay_native(need_build):
    def rp(model, ob):
        import os
        import shutil
        import subprocess
        import tempfile
        from pyvc.repo import REPO_ROOT
        if os.environ.get('PYVC_NO_BUILD_REPLAY'):
            return dict(reproduced=False, note='build replay disabled')
        try:
            dst, msg = native.shared_build()
            if dst is None:
                return dict(reproduced=False, note=msg)
            r = native.run_venv(REPLAY, dict(built=dst), timeout=900,
                                cwd='/tmp')
            if r['bad']:
                return dict(reproduced=True, how='extensions built from the '
                            'working tree', **r['bad'])
            return dict(reproduced=False)
        except Exception as e:
            return dict(reproduced=False, note=str(e)[-300:])
    return rp


def task_native(ctx):
    """BOUNDED stand-in, never counted as proved: every class that implements
    get_spatially_ordered_indices, re-ordered repeatedly on the extensions
    built from the working tree (contracts/c17_native_walk.py).  The
    contracts above cover the linked-list walk, the copies of the other
    classes and the application of the permutation; that the sorted-key and
    tree classes hand out a permutation at all is only covered here."""
    import os
    if os.environ.get('PYVC_NO_BUILD_REPLAY'):
        ctx.note('native walk skipped: PYVC_NO_BUILD_REPLAY set '
                 '(development)')
        return
    thorough = ctx.tier == 'thorough'
    seeds = list(range(150 if thorough else 12))
    dst, msg = native.shared_build()
    if dst is None:
        raise RuntimeError('extensions could not be built: %s' % msg)
    src = open(os.path.join(os.path.dirname(os.path.abspath(__file__)),
                            'c17_native_walk.py')).read()
    try:
        r = native.run_venv(src, dict(built=dst, seeds=seeds, rounds=3),
                            timeout=3000, cwd='/tmp')
    except RuntimeError as e:
        # the real code died under the scenarios (segfault, abort): a
        # failing case, not a checker error
        ctx.bounded_check('native.process_died', 'the scenarios of this '
                          'stand-in, run in one process', 1, False,
                          dict(problem='the process running the real '
                               'code died', output=str(e)[-400:]))
        return
    bound = ('%d random single arrays per class (%s): dims 1-3, 1..69 '
             'particles, uniform h, long/int/float/unsigned and stride-3 '
             'properties, Remote/Ghost-tagged particles behind the real '
             'ones, 3 rounds of re-order + update + move each; permutation, '
             'multiset of whole records, real-first order and exact '
             'neighbour lists after the following update' % (
                 len(seeds), ', '.join(r.get('algorithms', []))))
    if r['bad']:
        b = r['bad']
        ctx.bounded_check('native.%s.%s' % (b.get('algorithm'),
                                            str(b.get('problem'))[:50]),
                          bound, 1, False, b)
    else:
        ctx.bounded_check('native.reorder_rounds', bound, r['cases'], True,
                          're-ordering rounds that agree with the property')


def ll_self(m, **attrs):
    o = SymObject('LinkedListNNPS', dict(attrs), 'self')
    o.module = m
    return o


# ------------------------------------------------------------------ refresh
def task_refresh(ctx, repo):
    m = repo.cython_module(LL)
    fn = m.methods('LinkedListNNPS')['_refresh']
    W = m.path
    nc, np_ = z3.Int('ncells'), z3.Int('np')
    nh = z3.Int('heads_needed')
    head, nxt = carr('head'), carr('next')
    paw = SymObject(None, dict(get_number_of_particles=Native(
        lambda e, s_, a, k, n: np_)), 'paw')
    obj = ll_self(m, domain=None, narrays=1, pa_wrappers=[paw],
                  heads=[head], nexts=[nxt], n_cells=0)
    lp = loops_in(fn)
    # the two fill loops are the `for j in ...` loops
    ks = [i for i, x in enumerate(lp) if isinstance(x, ast.For) and
          isinstance(x.target, ast.Name) and x.target.id == 'j']

    def inv_for(which):
        def inv(ex, st):
            j = S.to_z3(st.env['j'])
            arr = st.env[which].attrs['data'].arr
            k = z3.Int('k')
            return z3.And(j >= 0, z3.ForAll([k], z3.Implies(
                z3.And(0 <= k, k < j), z3.Select(arr, k) == UINT_MAX)))
        return inv
    specs = {('_refresh', ks[0]): LoopSpec(inv=[('heads', inv_for('head'))]),
             ('_refresh', ks[1]): LoopSpec(inv=[('nexts', inv_for('next'))])}
    ex = Executor(repo, m, qualname='LinkedListNNPS._refresh',
                  loop_specs=specs, contracts={
                      'LinkedListNNPS._get_number_of_cells': CalleeContract(
                          lambda e, s_, a, k, n: nc),
                      # a hook: LinkedListNNPS returns its argument,
                      # BoxSortNNPS (which inherits _refresh and the walk of
                      # get_spatially_ordered_indices) the number of OCCUPIED
                      # cells -- any number of heads
                      'LinkedListNNPS._count_occupied_cells': CalleeContract(
                          lambda e, s_, a, k, n: nh)},
                  )
    ex.spec_env['UINT_MAX'] = UINT_MAX
    ex.spec_env['PyList_GetItem'] = Native(lambda e, s_, a, k, n: a[0][a[1]])
    outs = ex.exec_function(fn, dict(self=obj), State(pc=[nc >= 1, nh >= 1,
                                                          np_ >= 0]))
    ctx.function(m, fn, 'LinkedListNNPS._refresh', ex.dropped)
    obs = [o for o in ex.obligations if o.kind in ('inv-entry', 'inv-step',
                                                   'index')]
    for i_, o in enumerate(outs):
        e = o.state.env
        k = z3.Int('k')
        H = e['head'].attrs['data']
        Nx = e['next'].attrs['data']
        obs.append(Obligation('refresh.post.%d' % i_, o.pc, z3.And(
            # as many heads as the hook asks for, all empty, and n_cells --
            # the bound of every walk over the heads -- is that number
            S.to_z3(H.length) == nh, S.to_z3(Nx.length) == np_,
            z3.ForAll([k], z3.Implies(z3.And(0 <= k, k < nh),
                                      z3.Select(H.arr, k) == UINT_MAX)),
            z3.ForAll([k], z3.Implies(z3.And(0 <= k, k < np_),
                                      z3.Select(Nx.arr, k) == UINT_MAX)),
            S.to_z3(S.cmp('==', e['self'].attrs['n_cells'], nh))), W))
    for o_ in obs:
        o_.extra = dict(o_.extra or {}, backends=['z3'])
    ctx.prove('linked_list.refresh_empties_all_lists', obs, use_nf=False)


# ---------------------------------------------------------------------- bin
def task_bin(ctx, repo):
    m = repo.cython_module(LL)
    fn = m.methods('LinkedListNNPS')['_bin']
    W = m.path
    n, nc, npart = z3.Int('n_indices'), z3.Int('ncells'), z3.Int('np')
    head, nxt = carr('head', length=nc), carr('next', length=npart)
    cols = {a: carr('p' + a, length=npart, elem='real') for a in 'xyz'}
    paw = SymObject(None, dict(x=cols['x'], y=cols['y'], z=cols['z']), 'paw')
    idx = carr('indices', length=n)
    xmin = carr('xmin', length=z3.IntVal(3), elem='real')
    CELL = z3.Function('cell_of', z3.RealSort(), z3.RealSort(),
                       z3.RealSort(), z3.IntSort())

    def cell_contract(ex, st, a, k, node):
        p = a[1]
        c = CELL(S.to_real(p.attrs['x']), S.to_real(p.attrs['y']),
                 S.to_real(p.attrs['z']))
        # valid cell (C01: bounds / number of cells)
        st.pc.append(z3.And(c >= 0, c < nc))
        return c
    obj = ll_self(m, pa_wrappers=[paw], xmin=xmin, xmax=None,
                  ncells_per_dim=None, dim=3, heads=[head], nexts=[nxt],
                  cell_size=z3.Real('cell_size'))
    H0, N0 = head.attrs['data'].arr, nxt.attrs['data'].arr
    I0 = idx.attrs['data'].arr

    def inv(ex, st):
        return z3.And(S.to_z3(st.env['indexi']) >= 0)
    spec = LoopSpec(inv=[('range', inv)])
    ex = Executor(repo, m, qualname='LinkedListNNPS._bin',
                  loop_specs={('_bin', 0): spec}, contracts={
                      'LinkedListNNPS._get_flattened_cell_index':
                      CalleeContract(cell_contract)},
                  )
    ex.spec_env['cPoint_new'] = Native(lambda e, s_, a, k, n_: SymObject(
        None, dict(x=a[0], y=a[1], z=a[2]), 'pnt'))
    j = z3.Int('jq')
    pre = [n >= 0, nc >= 1, npart >= 0,
           z3.ForAll([j], z3.Implies(z3.And(0 <= j, j < n), z3.And(
               z3.Select(I0, j) >= 0, z3.Select(I0, j) < npart)))]
    outs = ex.exec_function(fn, dict(self=obj, pa_index=0, indices=idx),
                            State(pc=pre))
    ctx.function(m, fn, 'LinkedListNNPS._bin', ex.dropped)
    obs = [o for o in ex.obligations if o.kind in ('inv-entry', 'inv-step',
                                                   'index')]
    log = spec.logs[-1]
    obs += range_obs(ex, fn, 0, log['entry'], n, 'bin.range', W)
    hd = log['head']
    Hh = hd.env['head'].attrs['data'].arr
    Nh = hd.env['next'].attrs['data'].arr
    it = S.to_z3(hd.env['indexi'])
    for jn, (s1, sig) in enumerate(log['ends']):
        H1 = s1.env['head'].attrs['data'].arr
        N1 = s1.env['next'].attrs['data'].arr
        i = z3.Select(I0, it)
        px = [z3.Select(cols[a].attrs['data'].arr, i) -
              z3.Select(xmin.attrs['data'].arr, k_)
              for k_, a in enumerate('xyz')]
        c = CELL(*px)
        k = z3.Int('k')
        obs.append(Obligation('bin.step.%d' % jn, s1.pc, z3.And(
            z3.Select(N1, i) == z3.Select(Hh, c),
            z3.Select(H1, c) == i,
            z3.ForAll([k], z3.Implies(k != c, z3.Select(H1, k) ==
                                      z3.Select(Hh, k))),
            z3.ForAll([k], z3.Implies(k != i, z3.Select(N1, k) ==
                                      z3.Select(Nh, k)))), W))
    for o_ in obs:
        o_.extra = dict(o_.extra or {}, backends=['z3'])
    ctx.prove('linked_list.bin_is_push_front', obs, replay=replay_native(
        True), sample=True, use_nf=False)


# --------------------------------------------------------------------- walk
def task_walk(ctx, repo):
    m = repo.cython_module(LL)
    fn = m.methods('LinkedListNNPS')['get_spatially_ordered_indices']
    W = m.path
    nc, npart = z3.Int('ncells'), z3.Int('np')
    head, nxt = carr('head', length=nc), carr('next', length=npart)
    H, Nx = head.attrs['data'].arr, nxt.attrs['data'].arr
    out = SymObject(None, dict(
        reset=Native(lambda e, s_, a, k, n: s_.trace.append(('reset',))),
        append=Native(lambda e, s_, a, k, n: s_.trace.append(('append',
                                                             a[0])))),
        'indices')
    obj = ll_self(m, heads=[head], nexts=[nxt], n_cells=nc)
    k_ = z3.Int('kq')
    wf = z3.ForAll([k_], z3.And(
        z3.Implies(z3.And(0 <= k_, k_ < nc), z3.Or(
            z3.Select(H, k_) == UINT_MAX, z3.And(z3.Select(H, k_) >= 0,
                                                 z3.Select(H, k_) < npart))),
        z3.Implies(z3.And(0 <= k_, k_ < npart), z3.Or(
            z3.Select(Nx, k_) == UINT_MAX, z3.And(
                z3.Select(Nx, k_) >= 0, z3.Select(Nx, k_) < npart)))))
    s_outer = LoopSpec(inv=[('cell', lambda ex, st: S.to_z3(
        st.env['i']) >= 0)])
    s_inner = LoopSpec(inv=[('node', lambda ex, st: z3.Or(
        S.to_z3(st.env['_next']) == UINT_MAX, z3.And(
            S.to_z3(st.env['_next']) >= 0,
            S.to_z3(st.env['_next']) < npart)))])
    ex = Executor(repo, m, qualname='LinkedListNNPS.get_spatially_ordered_'
                  'indices', loop_specs={
                      ('get_spatially_ordered_indices', 0): s_outer,
                      ('get_spatially_ordered_indices', 1): s_inner})
    ex.spec_env['UINT_MAX'] = UINT_MAX
    outs = ex.exec_function(fn, dict(self=obj, pa_index=0, indices=out),
                            State(pc=[nc >= 0, npart >= 0, wf,
                                      npart < UINT_MAX]))
    ctx.function(m, fn, 'LinkedListNNPS.get_spatially_ordered_indices',
                 ex.dropped)
    obs = [o for o in ex.obligations if o.kind in ('inv-entry', 'inv-step',
                                                   'index')]
    # inner step: appends the current node, moves to next[node]
    for log in s_inner.logs:
        hd = log['head']
        n0 = len(hd.trace)
        cur = S.to_z3(hd.env['_next'])
        for jn, (s1, sig) in enumerate(log['ends']):
            ev = [t for t in s1.trace[n0:] if t[0] == 'append']
            g = z3.And(z3.BoolVal(len(ev) == 1),
                       S.to_z3(ev[0][1]) == cur if ev else z3.BoolVal(False),
                       S.to_z3(s1.env['_next']) == z3.Select(Nx, cur))
            obs.append(Obligation('walk.node.%d' % jn, s1.pc, g, W))
    # outer loop: every cell 0..n_cells-1
    obs += range_obs(ex, fn, 0, s_outer.logs[-1]['entry'], nc, 'walk.cells',
                     W)
    ent = s_inner.logs[-1]['entry'] if s_inner.logs else None
    if ent is not None:
        obs.append(Obligation('walk.start', ent.pc, S.to_z3(
            ent.env['_next']) == z3.Select(H, S.to_z3(ent.env['i'])), W))
    for i_, o in enumerate(outs):
        obs.append(Obligation('walk.reset_first.%d' % i_, o.pc, z3.BoolVal(
            bool(o.state.trace and o.state.trace[0] == ('reset',))), W))
    for o_ in obs:
        o_.extra = dict(o_.extra or {}, backends=['z3'])
    ctx.prove('linked_list.walk_visits_every_list_once', obs,
              replay=replay_native(True), use_nf=False)


# --------------------------------------------------------------------- copy
def task_copy(ctx, repo):
    for rel, cls, src_expr in (
            ('pysph/base/octree_nnps.pyx', 'OctreeNNPS', 'tree'),
            ('pysph/base/z_order_nnps.pyx', 'ZOrderNNPS', 'pids'),
            ('pysph/base/stratified_sfc_nnps.pyx', 'StratifiedSFCNNPS',
             'pids')):
        m = repo.cython_module(rel)
        if cls not in m.classes or 'get_spatially_ordered_indices' not in \
                m.methods(cls):
            ctx.outside('copy.%s' % cls, 'method missing')
            continue
        fn = m.methods(cls)['get_spatially_ordered_indices']
        W = m.path
        n = [z3.Int('n0'), z3.Int('n1')]
        P = [SymArray('pids0', elem='int'), SymArray('pids1', elem='int')]
        other = SymArray('current_pids_of_context', elem='int')
        out = SymObject(None, dict(
            reset=Native(lambda e, s_, a, k, nn: s_.trace.append(('reset',
                                                                  ))),
            c_append=Native(lambda e, s_, a, k, nn: s_.trace.append(
                ('append', a[0]))),
            append=Native(lambda e, s_, a, k, nn: s_.trace.append(
                ('append', a[0])))), 'indices')
        trees = [SymObject(None, dict(num_particles=n[i], pids=P[i]),
                           'tree%d' % i) for i in range(2)]
        paws = [SymObject(None, dict(get_number_of_particles=Native(
            lambda e, s_, a, k, nn, i=i: n[i])), 'paw%d' % i)
            for i in range(2)]
        obj = SymObject(cls, dict(tree=trees, pids=P, pa_wrappers=paws,
                                  current_pids=other, src_index=0), 'self')
        obj.module = m
        obs = []
        for pa_index in (0, 1):
            spec = LoopSpec(inv=[('range', lambda ex, st: z3.BoolVal(True))])
            ex = Executor(repo, m, qualname=cls + '.get_spatially_ordered_'
                          'indices', loop_specs={
                              ('get_spatially_ordered_indices', 0): spec})
            try:
                outs = ex.exec_function(fn, dict(self=obj, pa_index=pa_index,
                                                 indices=out),
                                        State(pc=[n[0] >= 0, n[1] >= 0]))
            except VCError as e:
                ctx.outside('copy.%s' % cls, str(e))
                obs = None
                break
            ctx.function(m, fn, cls + '.get_spatially_ordered_indices',
                         ex.dropped)
            log = spec.logs[-1]
            hd = log['head']
            n0 = len(hd.trace)
            lv = [v for k_, v in hd.env.items() if k_ in ('i', 'j')]
            iv = S.to_z3(lv[0])
            for jn, (s1, sig) in enumerate(log['ends']):
                ev = [t for t in s1.trace[n0:] if t[0] == 'append']
                g = z3.And(z3.BoolVal(len(ev) == 1), S.to_z3(ev[0][1]) ==
                           z3.Select(P[pa_index].arr, iv) if ev else
                           z3.BoolVal(False))
                obs.append(Obligation('copy.%d.step.%d' % (pa_index, jn),
                                      s1.pc, g, W))
            # the loop runs over exactly num_particles of that array
            obs += range_obs(ex, fn, 0, log['entry'], n[pa_index],
                             'copy.%d.bound' % pa_index, W)
        if obs is None:
            continue
        for o_ in obs:
            o_.extra = dict(o_.extra or {}, backends=['z3'])
        ctx.prove('copy.%s.uses_the_requested_array' % cls, obs,
                  replay=replay_native(True), use_nf=False)


# -------------------------------------------------------------------- apply
def task_apply(ctx, repo):
    m = repo.cython_module(NB)
    fn = m.methods('NNPS')['spatially_order_particles']
    W = m.path
    made = {}

    def mk_long(ex, st, a, k, n):
        o = SymObject(None, dict(length=NP), 'indices')
        made['idx'] = o
        return o

    NP = z3.Int('n')

    def prop(name, stride):
        return SymObject(None, dict(
            length=NP * stride,
            c_align_array=Native(lambda e, s_, a, k, n: s_.trace.append(
                ('align_array', name, a[0], a[1])))), name)
    props = {'x': prop('x', 1), 'vec': prop('vec', 3), 'tag': prop('tag', 1)}
    pa = SymObject(None, dict(
        properties=props, stride={'vec': 3},
        align_particles=Native(lambda e, s_, a, k, n: s_.trace.append(
            ('align_particles',))),
        get_number_of_particles=Native(lambda e, s_, a, k, n: NP)),
        'pa')
    paw = SymObject(None, dict(pa=pa), 'paw')
    # any state of the search object (periodic or not, cache or not ...)
    obj = SymObject('NNPS', dict(pa_wrappers=[paw],
                                 is_periodic=z3.Bool('is_periodic'),
                                 use_cache=z3.Bool('use_cache'),
                                 narrays=1), 'self')
    obj.module = m
    ex = Executor(repo, m, qualname='NNPS.spatially_order_particles',
                  merge=False, prune=True, contracts={
                      'NNPS.get_spatially_ordered_indices': CalleeContract(
                          lambda e, s_, a, k, n: s_.trace.append(
                              ('get_indices', a[1], a[2])))})
    ex.spec_env['LongArray'] = Native(mk_long)
    outs = ex.exec_function(fn, dict(self=obj, pa_index=0),
                            State(pc=[NP >= 0]))
    ctx.function(m, fn, 'NNPS.spatially_order_particles', ex.dropped)
    obs, obs2 = [], []
    for i_, o in enumerate(outs):
        tr = o.state.trace
        calls = [t for t in tr if t[0] == 'align_array']
        ok = len(tr) >= 1 and tr[0][0] == 'get_indices' and tr[0][1] == 0 \
            and [(c[1], c[3]) for c in calls] == [('x', 1), ('vec', 3),
                                                  ('tag', 1)] and \
            all(getattr(c[2], 'name', None) == 'indices' for c in calls)
        obs.append(Obligation('apply.every_property.%d' % i_, o.pc,
                              z3.BoolVal(bool(ok)), W,
                              extra=dict(calls=[(c[1], str(c[3])) for c in
                                                calls])))
        last = [t[0] for t in tr if t[0] in ('align_array',
                                             'align_particles')]
        obs2.append(Obligation('apply.real_first.%d' % i_, o.pc, z3.BoolVal(
            bool(last and last[-1] == 'align_particles' and
                 last.count('align_particles') == 1)), W))
    ctx.prove('reorder.same_indices_own_stride_every_property', obs,
              replay=replay_native(True), sample=True)
    ctx.prove('reorder.real_particles_stay_first', obs2,
              replay=replay_native(True),
              info='the array is re-aligned (Local first) after the gather')
