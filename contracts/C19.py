"""C19 -- the adaptive time step is the documented minimum over all particles.

Functions under contract (pysph/sph/integrator.py): Integrator._my_max,
_get_dt_adapt_factors, _get_explicit_dt_adapt, compute_h_minimum,
compute_time_step, set_fixed_h; pysph/solver/solver.py: _compute_timestep.

The list of particle arrays is a *symbolic sequence of unknown length*; array
j is described by ghost functions (assumed numpy / cyarray reductions):
    n(j) >= 0          number of particles
    has_c(j)           the array has property c  (dt_cfl, dt_force, dt_visc,
                       dt_adapt)
    max_c(j)           np.max of property c      (meaningful when n(j) > 0)
    min_adapt(j)       np.min of dt_adapt        (meaningful when n(j) > 0)
    hmin(j)            cyarray h.minimum: min of h when n(j) > 0, 0 when the
                       array is empty (carray.pyx update_min_max)
Loops over the arrays are cut with quantified prefix invariants that carry
both directions: "not larger than any array seen" AND "attained by some array
seen", so the result is the fold and never exceeds what one particle allows.

Postconditions (from the property statement):
  factors   F_c = max over arrays with has_c and n > 0 of max_c, else -1
  explicit  dt_adapt used by some particle and its minimum m > 0 -> m;
            otherwise None (in particular never +inf)
  hmin      the smallest h over all particles (not capped, empty arrays
            ignored)
  step      not explicit: cfl * min{hmin/C | C>0, sqrt(hmin/sqrt(Fo)) | Fo>0,
            hmin/V | V>0}, None when no criterion is positive; and the value
            is <= cfl*hmin/max_cfl(j) (etc.) for every array j
  solver    _compute_timestep keeps the fixed (undamped) step on None
"""
import z3
from fractions import Fraction

from pyvc import sym as S
from pyvc import native
from pyvc.repo import Repo
from pyvc.symexec import (Executor, State, Obligation, LoopSpec, SymSeq,
                          Native, CalleeContract)
from pyvc.sym import SymObject, VCError

MOD = 'pysph.sph.integrator'
CRIT = ('dt_cfl', 'dt_force', 'dt_visc')
I, Rr, Bb = z3.IntSort(), z3.RealSort(), z3.BoolSort()
N = z3.Function('npart', I, I)
HAS = {c: z3.Function('has_' + c, I, Bb) for c in CRIT + ('dt_adapt',)}
MAXF = {c: z3.Function('max_' + c, I, Rr) for c in CRIT}
MIN_ADAPT = z3.Function('min_dt_adapt', I, Rr)
HMIN = z3.Function('h_minimum_of', I, Rr)
# the number of real particles of array j (pa.<prop> and pa.get(<prop>) hold
# these only) and the minimum its h array has CACHED: equal to the smallest
# smoothing length only right after update_min_max()
NREAL = z3.Function('nreal', I, I)
CACHED_HMIN = z3.Function('cached_h_minimum_of', I, Rr)
LEN = z3.Int('n_arrays')

ASSUMPTIONS = [
    'np.max / np.min / cyarray h.minimum are the maxima / minima of the '
    'arrays they are applied to (ghost functions max_c(j), min_adapt(j), '
    'hmin(j)); h.minimum of an empty carray is 0 (carray.pyx) and is fresh '
    '(update_min_max ran: true after an NNPS update -- history assumption)',
    'criterion values are >= 0 and smoothing lengths are > 0',
    'CPU backend (pa.gpu is None); not in_parallel',
]
TRUSTED = ['z3 quantifier instantiation (MBQI / E-matching) on the prefix '
           'invariants']


def tasks(tier):
    # the computed step reaches the integrator only through
    # Solver._get_timestep (C10): its contract -- on EVERY iteration the step
    # is the freshly computed one, damped and clipped -- is re-proved here
    return ['factors', 'explicit', 'hmin', 'step', 'solver', 'canary',
            'dep:C10:timestep', 'dep:C10:solve']


# ------------------------------------------------------------ abstract arrays
class AbsArr(object):
    def __init__(self, j, name):
        self.j, self.name = j, name

    def sym_len(self):
        return N(self.j)


class PropSet(object):
    def __init__(self, j):
        self.j = j

    def sym_contains(self, name):
        if name not in HAS:
            raise VCError('property %r outside the model' % (name,))
        return HAS[name](self.j)


def _h_array(j):
    """the h carray of array j: `minimum` is the cached value until
    update_min_max() has been called on THIS object"""
    h = SymObject(None, dict(minimum=CACHED_HMIN(j)), 'h')

    def upd(ex, st, a, k, n):
        h.attrs['minimum'] = HMIN(j)
        for o in st.env.values():
            if isinstance(o, SymObject) and o.name == 'h' and \
                    S.same(o.attrs.get('minimum'), CACHED_HMIN(j)):
                o.attrs['minimum'] = HMIN(j)
    h.attrs['update_min_max'] = Native(upd)
    return h


def array_at(j):
    j = S.to_z3(j)
    pa = SymObject(None, {}, 'pa')
    pa.attrs.update(
        properties=PropSet(j), gpu=None,
        get=Native(lambda ex, st, a, k, n: AbsArr(j, a[0])),
        get_carray=Native(lambda ex, st, a, k, n: _h_array(j)),
        get_number_of_particles=Native(
            lambda ex, st, a, k, n: NREAL(j) if (
                k.get('real') is True or (a and a[0] is True)) else N(j)),
        dt_adapt=AbsArr(j, 'dt_adapt'))
    return pa


def ext_max(ex, st, args, kwargs, node):
    if len(args) == 1 and isinstance(args[0], AbsArr):
        return MAXF[args[0].name](args[0].j)
    r = args[0]
    for x in args[1:]:
        r = S.maxval(r, x)
    return r


def ext_min(ex, st, args, kwargs, node):
    if len(args) == 1 and isinstance(args[0], AbsArr):
        if args[0].name != 'dt_adapt':
            raise VCError('np.min of %s' % args[0].name)
        # np.min of an empty array raises: the array read holds the REAL
        # particles, so there must be one
        ex.obligations.append(Obligation(
            'np_min.of_a_non_empty_array', list(st.pc),
            NREAL(args[0].j) > 0, MOD, kind='pre',
            extra=dict(backends=['z3'])))
        return MIN_ADAPT(args[0].j)
    r = args[0]
    for x in args[1:]:
        r = S.minval(r, x)
    return r


def ext_len(ex, st, args, kwargs, node):
    v = args[0]
    if hasattr(v, 'sym_len'):
        return v.sym_len()
    return len(v)


def world():
    """Global facts about the ghost functions."""
    j = z3.Int('jw')
    facts = [LEN >= 0, z3.ForAll([j], N(j) >= 0),
             z3.ForAll([j], z3.And(NREAL(j) >= 0, NREAL(j) <= N(j)))]
    for c in CRIT:
        facts.append(z3.ForAll([j], MAXF[c](j) >= 0))
    facts.append(z3.ForAll([j], z3.Implies(N(j) > 0, HMIN(j) > 0)))
    facts.append(z3.ForAll([j], z3.Implies(N(j) <= 0, HMIN(j) == 0)))
    return facts


def mk_self(extra=None):
    seq = SymSeq('particle_arrays', array_at, LEN)
    a_eval = SymObject(None, dict(particle_arrays=seq), 'a_eval')
    obj = SymObject('Integrator', dict(acceleration_evals=[a_eval],
                                       _has_dt_adapt=None), 'self')
    obj.module = MOD
    obj.attrs.update(extra or {})
    return obj


EXT = {'max': ext_max, 'min': ext_min, 'len': ext_len}


def within(j, k):
    return z3.And(j >= 0, j < S.to_z3(k))


# prefix facts -----------------------------------------------------------
def fold_max_facts(F, c, k, tag):
    """F is the max over arrays j < k that have c and are non-empty of
    max_c(j), or -1 when there is none."""
    j = z3.Int('j_' + tag)
    F = S.to_real(F)
    return [
        ('%s.lower' % tag, F >= -1),
        ('%s.upper' % tag, z3.ForAll([j], z3.Implies(z3.And(
            within(j, k), HAS[c](j), N(j) > 0), F >= MAXF[c](j)))),
        ('%s.attained' % tag, z3.Or(F == -1, z3.Exists([j], z3.And(
            within(j, k), HAS[c](j), N(j) > 0, F == MAXF[c](j))))),
    ]


def fold_min_facts(x, k, cond, val, tag):
    """x (extended real) is the min over j < k with cond(j) of val(j),
    +inf when there is none."""
    j = z3.Int('j_' + tag)
    x = S.xr(x)
    return [
        ('%s.upper' % tag, z3.ForAll([j], z3.Implies(z3.And(
            within(j, k), cond(j)), S.to_z3(S.cmp('<=', x, val(j)))))),
        ('%s.attained' % tag, z3.Or(
            z3.And(S.to_z3(x.inf), z3.ForAll([j], z3.Implies(
                within(j, k), z3.Not(cond(j))))),
            z3.Exists([j], z3.And(within(j, k), cond(j),
                                  z3.Not(S.to_z3(x.inf)),
                                  S.to_real(x.val) == val(j))))),
    ]


def spec_from(facts_fn):
    """LoopSpec whose invariants are the named facts at index _k."""
    names = [n for n, _ in facts_fn(None, z3.Int('dummy'))]

    def mk(i):
        return lambda ex, st: facts_fn(st, st.env['_k'])[i][1]
    return LoopSpec(inv=[(n, mk(i)) for i, n in enumerate(names)],
                    index='_k')


def executor(repo, m, fn, loop_spec=None, contracts=None, merge=True):
    ex = Executor(repo, m, qualname='Integrator.' + fn,
                  definedness='assume', merge=merge, prune=True,
                  externals=EXT, contracts=contracts or {},
                  inline={'Integrator._my_max'},
                  loop_specs={(fn, 0): loop_spec} if loop_spec else {})
    return ex


# ------------------------------------------------------------------ replays
REPLAY = r'''
import json, sys, importlib.util, math
import numpy as np
d = json.load(sys.stdin)
spec = importlib.util.spec_from_file_location('pysph.sph.integrator', d['root'] + '/pysph/sph/integrator.py')
mod = importlib.util.module_from_spec(spec); mod.__package__ = 'pysph.sph'; spec.loader.exec_module(mod)
class H:
    def __init__(self, a):
        # cyarray: minimum of an empty array is 0
        self.minimum = float(min(a)) if len(a) else 0.0
    def update_min_max(self): pass      # (this stub is always current)
class PA:
    gpu = None
    def __init__(self, props):
        self.properties = {k: np.array(v, dtype=float) for k, v in props.items()}
        for k, v in self.properties.items(): setattr(self, k, v)
    def get(self, name): return self.properties[name]
    def get_carray(self, name): return H(self.properties[name])
    def get_number_of_particles(self, real=False): return len(self.properties['h'])
class AE: pass
out = []
for case in d['cases']:
    ae = AE(); ae.particle_arrays = [PA(p) for p in case['arrays']]
    integ = mod.Integrator.__new__(mod.Integrator)
    integ.acceleration_evals = [ae]; integ._has_dt_adapt = None
    integ.fixed_h = False; integ.h_minimum = None
    r = integ.compute_time_step(case.get('dt', 0.1), case['cfl'])
    if case.get('then'):
        # a later step of the same run: the arrays have changed meanwhile
        ae.particle_arrays = [PA(p) for p in case['then']]
        r = integ.compute_time_step(case.get('dt', 0.1), case['cfl'])
    out.append(None if r is None else (float(r) if math.isfinite(r) else 'inf'))
print(json.dumps(out))
'''


def oracle(case):
    """The documented formula, straight from the property statement."""
    import math
    arrays = case.get('then') or case['arrays']
    cfl = case['cfl']
    adapt = [v for a in arrays if 'dt_adapt' in a for v in a['dt_adapt']]
    if adapt and min(adapt) > 0:
        return min(adapt)
    hs = [v for a in arrays for v in a['h']]
    if not hs:
        return None
    hmin = min(hs)

    def mx(c):
        vs = [v for a in arrays if c in a for v in a[c]]
        return max(vs) if vs else -1.0
    cand = []
    if mx('dt_cfl') > 0:
        cand.append(hmin / mx('dt_cfl'))
    if mx('dt_force') > 0:
        cand.append(math.sqrt(hmin / math.sqrt(mx('dt_force'))))
    if mx('dt_visc') > 0:
        cand.append(hmin / mx('dt_visc'))
    return cfl * min(cand) if cand else None


CASES = [
    dict(name='h>1', cfl=0.5, arrays=[dict(h=[2.0, 3.0], dt_cfl=[1.0, 4.0])]),
    dict(name='empty-array', cfl=0.3, arrays=[
        dict(h=[0.1, 0.2], dt_cfl=[2.0, 1.0]), dict(h=[], dt_cfl=[])]),
    dict(name='adapt-all-empty', cfl=0.3, arrays=[
        dict(h=[], dt_adapt=[]), dict(h=[0.1], dt_cfl=[2.0])]),
    dict(name='adapt', cfl=0.3, arrays=[
        dict(h=[0.1], dt_adapt=[0.2]), dict(h=[0.1, 0.1],
                                             dt_adapt=[0.05, 0.3])]),
    dict(name='one-particle-adapt', cfl=0.3, arrays=[
        dict(h=[0.1], dt_adapt=[0.05]), dict(h=[0.1, 0.1],
                                              dt_adapt=[0.2, 0.3])]),
    dict(name='binding-first', cfl=0.3, arrays=[
        dict(h=[0.1], dt_cfl=[20.0], dt_force=[9.0], dt_visc=[3.0]),
        dict(h=[0.2], dt_cfl=[2.0], dt_force=[1.0], dt_visc=[0.0])]),
    dict(name='all-zero', cfl=0.3, arrays=[dict(h=[0.1], dt_cfl=[0.0],
                                                 dt_force=[0.0])]),
    dict(name='force-only', cfl=0.25, arrays=[dict(h=[0.04, 0.09],
                                                   dt_force=[16.0, 4.0])]),
    dict(name='adapt-array-fills-later', cfl=0.3, arrays=[
        dict(h=[], dt_adapt=[]), dict(h=[0.1], dt_cfl=[2.0])], then=[
        dict(h=[0.1, 0.1], dt_adapt=[0.002, 0.003]),
        dict(h=[0.1], dt_cfl=[2.0])]),
]


def replay_cases(pick=None):
    def rp(model, ob):
        from pyvc.repo import REPO_ROOT
        cases = [c for c in CASES if pick is None or c['name'] in pick]
        try:
            got = native.run_venv(REPLAY, dict(root=REPO_ROOT, cases=cases))
        except Exception as e:
            return dict(reproduced=False, note=str(e)[:300])
        for c, g in zip(cases, got):
            want = oracle(c)
            bad = (want is None) != (g is None) or g == 'inf' or (
                want is not None and g is not None and
                abs(g - want) > 1e-12 * abs(want))
            if bad:
                return dict(reproduced=True, case=c, observed=g,
                            expected=want,
                            how='real Integrator.compute_time_step on stub '
                                'arrays')
        # histories the stub arrays cannot show: compiled particle arrays
        try:
            r = native.run_venv(REPLAY_REAL, dict(root=REPO_ROOT))
        except Exception as e:
            return dict(reproduced=False, note=str(e)[:300])
        if r['bad']:
            return dict(reproduced=True, how='real Integrator on compiled '
                        'particle arrays', **r['bad'])
        return dict(reproduced=False)
    return rp


REPLAY_REAL = r'''
import json, sys, importlib.util, math
import numpy as np
d = json.load(sys.stdin)
spec = importlib.util.spec_from_file_location('pysph.sph.integrator', d['root'] + '/pysph/sph/integrator.py')
mod = importlib.util.module_from_spec(spec); mod.__package__ = 'pysph.sph'; spec.loader.exec_module(mod)
from pysph.base.utils import get_particle_array
class AE: pass
def integ(arrays):
    ae = AE(); ae.particle_arrays = arrays
    it = mod.Integrator.__new__(mod.Integrator)
    it.acceleration_evals = [ae]; it._has_dt_adapt = None; it.fixed_h = False; it.h_minimum = None
    return it
bad = None
# the smoothing lengths changed after the minimum was last cached
pa = get_particle_array(name='f', x=[0.0, 1.0], h=[1.0, 1.0], dt_cfl=[1.0, 1.0])
pa.update_min_max()
pa.h[:] = [0.1, 0.5]
r = integ([pa]).compute_time_step(0.5, 1.0)
if r is None or abs(r - 0.1) > 1e-12:
    bad = dict(case='h = [1, 1] cached by update_min_max(), then h = [0.1, 0.5]; dt_cfl = [1, 1], cfl = 1', observed=None if r is None else float(r), expected=0.1)
if bad is None:
    # an array that declares dt_adapt but holds only ghost particles right now
    g = get_particle_array(name='g', x=[0.0, 1.0], h=[0.1, 0.1], dt_adapt=[0.5, 0.5])
    g.tag[:] = 2; g.align_particles()
    f = get_particle_array(name='f', x=[0.0], h=[0.1], dt_adapt=[0.001])
    try:
        r = integ([g, f]).compute_time_step(0.5, 1.0)
        if r is None or abs(r - 0.001) > 1e-15:
            bad = dict(case='array g: 2 ghost particles with dt_adapt 0.5; array f: 1 real particle with dt_adapt 0.001', observed=None if r is None else float(r), expected=0.001)
    except Exception as e:
        bad = dict(case='array g: 2 ghost particles with dt_adapt 0.5; array f: 1 real particle with dt_adapt 0.001', raised='%s: %s' % (type(e).__name__, e), expected=0.001)
print(json.dumps(dict(bad=bad)))
'''


# --------------------------------------------------------------------- tasks
def run_task(task, ctx):
    if task.startswith('dep:'):
        from contracts import deps
        return deps.run_dep(task, ctx)
    repo = Repo()
    m = repo.module(MOD)
    ctx.assume('ghost model of the particle-array list: see module docstring')
    if task == 'factors':
        return task_factors(ctx, repo, m)
    if task == 'explicit':
        return task_explicit(ctx, repo, m)
    if task == 'hmin':
        return task_hmin(ctx, repo, m)
    if task == 'step':
        return task_step(ctx, repo, m)
    if task == 'solver':
        return task_solver(ctx, repo)
    if task == 'canary':
        ctx.canary('canary.must_fail', Obligation(
            'c', world(), z3.ForAll([z3.Int('q')], N(z3.Int('q')) > 0)))
        ctx.results.append(dict(name='canary.pipeline', verdict='proved',
                                queries=0, backends={}, seconds=0,
                                failing=[], replay=None, info=''))
        return
    raise ValueError(task)


def _collect(ex, outs, post, W):
    obs = [o for o in ex.obligations if o.kind in ('inv-entry', 'inv-step',
                                                   'index', 'unbound',
                                                   'pre')]
    for o in obs:
        o.extra = dict(o.extra or {}, backends=['z3'])
    for i, o in enumerate(outs):
        for (nm, f) in post(o):
            obs.append(Obligation('post.%d.%s' % (i, nm), o.pc, f, W,
                                  extra=dict(backends=['z3'])))
    return obs


def task_factors(ctx, repo, m):
    fn = m.methods('Integrator')['_get_dt_adapt_factors']

    def facts(st, k):
        out = []
        for idx, c in enumerate(CRIT):
            F = st.env['factors'][idx] if st is not None else z3.Real('F')
            out += fold_max_facts(F, c, k, c)
        return out
    spec = spec_from(facts)
    ex = executor(repo, m, '_get_dt_adapt_factors', spec)
    outs = ex.exec_function(fn, dict(self=mk_self()), State(pc=world()))
    ctx.function(m, fn, 'Integrator._get_dt_adapt_factors', ex.dropped)
    ctx.function(m, m.methods('Integrator')['_my_max'], 'Integrator._my_max')

    def post(o):
        if o.kind != 'return' or not isinstance(o.value, tuple):
            return [('shape', z3.BoolVal(False))]
        out = []
        for idx, c in enumerate(CRIT):
            out += fold_max_facts(o.value[idx], c, LEN, 'p_' + c)
        return out
    ctx.prove('factors.fold', _collect(ex, outs, post, m.path),
              replay=replay_cases(), sample=True, use_nf=False)


def task_explicit(ctx, repo, m):
    fn = m.methods('Integrator')['_get_explicit_dt_adapt']
    # "the minimum of dt_adapt over the REAL particles of all arrays"
    used = lambda j: z3.And(HAS['dt_adapt'](j), NREAL(j) > 0)

    def facts(st, k):
        x = st.env['dt_min'] if st is not None else S.INF
        return fold_min_facts(x, k, used, lambda j: MIN_ADAPT(j), 'adapt')
    spec = spec_from(facts)
    ex = executor(repo, m, '_get_explicit_dt_adapt', spec)
    outs = ex.exec_function(fn, dict(self=mk_self()), State(pc=world()))
    ctx.function(m, fn, 'Integrator._get_explicit_dt_adapt', ex.dropped)
    j = z3.Int('jq')
    some = z3.Exists([j], z3.And(within(j, LEN), used(j)))
    positive = z3.ForAll([j], z3.Implies(z3.And(within(j, LEN), used(j)),
                                         MIN_ADAPT(j) > 0))

    declared = z3.Exists([j], z3.And(within(j, LEN), HAS['dt_adapt'](j)))

    def post(o):
        if o.kind != 'return':
            return [('raise', z3.BoolVal(False))]
        v = o.value
        # the flag cached for all later steps says whether some array
        # DECLARES dt_adapt -- not whether it holds particles right now (an
        # inlet-fed array is empty on the first step)
        flag = o.state.env['self'].attrs.get('_has_dt_adapt')
        fl = [('cached_flag_is_declaration_only',
               (S.to_z3(S.to_bool(flag)) == declared) if flag is not None
               else z3.BoolVal(False))]
        if v is None:
            # None only when dt_adapt is unused or its minimum is not > 0
            return fl + [('none', z3.Not(z3.And(some, positive)))]
        out = [('finite', S.to_z3(S.b_not(S.xr(v).inf))
                if S.is_sym(S.xr(v).inf) else z3.BoolVal(not S.xr(v).inf))]
        out += [('min.' + n, f) for n, f in fold_min_facts(
            v, LEN, used, lambda j_: MIN_ADAPT(j_), 'padapt')]
        out.append(('positive', S.to_z3(S.cmp('>', v, 0))))
        return fl + out
    ctx.prove('explicit.min', _collect(ex, outs, post, m.path),
              replay=replay_cases(('adapt-all-empty', 'adapt',
                                   'one-particle-adapt',
                                   'adapt-array-fills-later')), use_nf=False)


def hmin_facts(x, k, tag):
    return fold_min_facts(x, k, lambda j: N(j) > 0, lambda j: HMIN(j), tag)


def task_hmin(ctx, repo, m):
    fn = m.methods('Integrator')['compute_h_minimum']

    def facts(st, k):
        x = st.env['hmin'] if st is not None else S.INF
        return hmin_facts(x, k, 'h')
    spec = spec_from(facts)
    ex = executor(repo, m, 'compute_h_minimum', spec)
    obj = mk_self(dict(h_minimum=None))
    outs = ex.exec_function(fn, dict(self=obj), State(pc=world()))
    ctx.function(m, fn, 'Integrator.compute_h_minimum', ex.dropped)

    def post(o):
        if o.kind != 'return':
            return [('raise', z3.BoolVal(False))]
        hm = o.state.env['self'].attrs.get('h_minimum')
        if hm is None:
            return [('unset', z3.BoolVal(False))]
        return hmin_facts(hm, LEN, 'ph')
    ctx.prove('hmin.smallest', _collect(ex, outs, post, m.path),
              replay=replay_cases(('h>1', 'empty-array')), use_nf=False)


def task_step(ctx, repo, m):
    fn = m.methods('Integrator')['compute_time_step']
    F = {c: z3.Real('F_' + c) for c in CRIT}
    hm = S.XR(z3.Bool('hm_inf'), z3.Real('hm'))
    expl_none = z3.Bool('explicit_is_none')
    expl = z3.Real('explicit_dt')

    def c_explicit(ex, st, args, kwargs, node):
        # fork is not possible inside an expression: return an Optional as
        # two paths through a ghost flag evaluated by the `is not None` test
        return _Opt(expl_none, expl)

    def c_factors(ex, st, args, kwargs, node):
        for c in CRIT:
            for n, f in fold_max_facts(F[c], c, LEN, 'c_' + c):
                st.pc.append(f)
        return (F['dt_cfl'], F['dt_force'], F['dt_visc'])

    def c_hmin(ex, st, args, kwargs, node):
        args[0].attrs['h_minimum'] = hm
        for n, f in hmin_facts(hm, LEN, 'c_h'):
            st.pc.append(f)
        return None
    contracts = {
        'Integrator._get_explicit_dt_adapt': CalleeContract(c_explicit),
        'Integrator._get_dt_adapt_factors': CalleeContract(c_factors),
        'Integrator.compute_h_minimum': CalleeContract(c_hmin)}
    cfl = z3.Real('cfl')
    obs_all = []
    for fixed in (False, True):
        obj = mk_self(dict(fixed_h=fixed, h_minimum=hm if fixed else None))
        ex = executor(repo, m, 'compute_time_step', contracts=contracts,
                      merge=False)
        pre = world() + [cfl > 0, z3.Or(expl_none, expl > 0)]
        if fixed:
            pre += [f for n, f in hmin_facts(hm, LEN, 'pre_h')]
        outs = ex.exec_function(fn, dict(self=obj, dt=z3.Real('dt'),
                                         cfl=cfl), State(pc=pre))
        ctx.function(m, fn, 'Integrator.compute_time_step', ex.dropped)

        def post(o, fixed=fixed):
            if o.kind != 'return':
                return [('raise', z3.BoolVal(False))]
            v = o.value
            out = []
            hv = S.to_real(hm.val)
            C, Fo, V = F['dt_cfl'], F['dt_force'], F['dt_visc']
            sq = S.UF['sqrt']
            fterm = sq(hv / sq(Fo))
            anyc = z3.Or(C > 0, Fo > 0, V > 0)
            usable = z3.And(z3.Not(S.to_z3(hm.inf)), anyc)
            if isinstance(v, _Opt):
                # explicit dt_adapt path: returned as is
                return [('explicit', z3.Not(expl_none))]
            if v is None:
                # nothing applies: explicit is None and (no positive
                # criterion, or no particle at all)
                return [('none', z3.And(expl_none, z3.Not(usable)))]
            if isinstance(v, S.XR):
                out.append(('finite', z3.Not(S.to_z3(v.inf))))
                v = v.val
            v = S.to_real(v)
            out.append(('explicit_none', expl_none))
            out.append(('usable', usable))
            # value = cfl * min of the candidates present
            for nm, cond, cand in (('cfl', C > 0, hv / C),
                                   ('force', Fo > 0, fterm),
                                   ('visc', V > 0, hv / V)):
                out.append(('le.' + nm, z3.Implies(cond, v <= cfl * cand)))
            out.append(('attained', z3.Or(
                z3.And(C > 0, v == cfl * (hv / C)),
                z3.And(Fo > 0, v == cfl * fterm),
                z3.And(V > 0, v == cfl * (hv / V)))))
            # never exceeds what a single array's maximum allows
            j = z3.Int('jb')
            out.append(('bound.cfl', z3.ForAll([j], z3.Implies(z3.And(
                within(j, LEN), HAS['dt_cfl'](j), N(j) > 0,
                MAXF['dt_cfl'](j) > 0), v * MAXF['dt_cfl'](j) <= cfl * hv))))
            out.append(('bound.visc', z3.ForAll([j], z3.Implies(z3.And(
                within(j, LEN), HAS['dt_visc'](j), N(j) > 0,
                MAXF['dt_visc'](j) > 0),
                v * MAXF['dt_visc'](j) <= cfl * hv))))
            return out
        obs = _collect(ex, outs, post, m.path)
        for o in obs:
            o.name = ('fixed_h.' if fixed else 'var_h.') + o.name
        obs_all += obs
    ctx.prove('step.formula', obs_all, replay=replay_cases(), use_nf=False)
    # set_fixed_h computes h_minimum once when fixed_h is requested
    fn2 = m.methods('Integrator')['set_fixed_h']
    calls = []

    def c_h2(ex, st, args, kwargs, node):
        calls.append(1)
        return None
    ok = True
    for flag in (True, False):
        del calls[:]
        ex = executor(repo, m, 'set_fixed_h', contracts={
            'Integrator.compute_h_minimum': CalleeContract(c_h2)})
        o2 = ex.exec_function(fn2, dict(self=mk_self(), fixed_h=flag))
        ok = ok and len(o2) == 1 and len(calls) == (1 if flag else 0) and \
            o2[0].state.env['self'].attrs.get('fixed_h') is flag
    ctx.function(m, fn2, 'Integrator.set_fixed_h')
    ctx.prove('set_fixed_h', [Obligation('set_fixed_h', [],
                                         z3.BoolVal(ok), m.path)])


class _Opt(object):
    """Optional[real] returned by a callee contract: `is None` is a ghost
    boolean."""

    def __init__(self, is_none, val):
        self.is_none, self.val = is_none, val


def task_solver(ctx, repo):
    m = repo.module('pysph.solver.solver')
    fn = m.methods('Solver')['_compute_timestep']
    und = z3.Real('undamped_dt')
    res_none = z3.Bool('cts_is_none')
    res = z3.Real('cts_value')

    def c_und(ex, st, args, kwargs, node):
        return und

    def c_cts(ex, st, args, kwargs, node):
        return _Opt(res_none, res)
    integ = SymObject(None, dict(compute_time_step=Native(c_cts)), 'integ')
    obs = []
    for adaptive in (True, False):
        obj = SymObject('Solver', dict(adaptive_timestep=adaptive,
                                       integrator=integ, in_parallel=False,
                                       cfl=z3.Real('cfl')), 'self')
        obj.module = m.name
        ex = Executor(repo, m, qualname='Solver._compute_timestep',
                      contracts={'Solver._get_undamped_timestep':
                                 CalleeContract(c_und)}, merge=False)
        outs = ex.exec_function(fn, dict(self=obj))
        for i, o in enumerate(outs):
            v = o.value
            if not adaptive:
                g = S.cmp('==', v, und)
            elif isinstance(v, _Opt):
                g = z3.Not(res_none)          # proposed value kept
            else:
                g = z3.And(res_none, S.to_z3(S.cmp('==', v, und)))
            obs.append(Obligation('solver.%s.%d' % (adaptive, i), o.pc,
                                  S.to_z3(g) if S.is_sym(g) else
                                  z3.BoolVal(bool(g)), m.path,
                                  extra=dict(backends=['z3'])))
    # in parallel: the step is the reduction (minimum) over processors of
    # each processor's local proposal; a processor WITHOUT a criterion must
    # not constrain the others, so it contributes the documented sentinel
    # 1e20 -- never the fixed step
    glob = z3.Real('global_min')
    sent = []
    pm = SymObject(None, dict(update_time_steps=Native(
        lambda e, s_, a, k, n: sent.append((a[0], list(s_.pc))) or glob)),
        'pm')
    obj = SymObject('Solver', dict(adaptive_timestep=True, integrator=integ,
                                   in_parallel=True, pm=pm,
                                   cfl=z3.Real('cfl')), 'self')
    obj.module = m.name
    ex = Executor(repo, m, qualname='Solver._compute_timestep',
                  contracts={'Solver._get_undamped_timestep':
                             CalleeContract(c_und)}, merge=False)
    outs = ex.exec_function(fn, dict(self=obj))
    for i, o in enumerate(outs):
        obs.append(Obligation('solver.parallel.returns_global.%d' % i, o.pc,
                              z3.BoolVal(S.is_sym(o.value) and
                                         o.value.eq(glob)), m.path))
    obs.append(Obligation('solver.parallel.reduces', [], z3.BoolVal(
        len(sent) >= 2), m.path))
    for i, (arg, pc) in enumerate(sent):
        if isinstance(arg, _Opt):
            g = z3.Not(res_none)
        else:
            g = z3.And(res_none, S.to_real(arg) >= z3.RealVal(10) ** 20) \
                if S.is_num(arg) else z3.BoolVal(False)
        obs.append(Obligation('solver.parallel.contribution.%d' % i, pc,
                              S.to_z3(g) if S.is_sym(g) else z3.BoolVal(
                                  bool(g)), m.path,
                              extra=dict(backends=['z3'])))
    ctx.function(m, fn, 'Solver._compute_timestep', ex.dropped)
    ctx.prove('solver.keeps_fixed_step_on_none', obs, use_nf=False)
